package main

// C08, second strengthening round: three classes of inputs the check did not exercise.
//
//  (a) REGS section of the case line: listener registrations that name SEVERAL change types in one
//      Add*Listener call (typed listener object, typed function, untyped function, id listener), in every
//      order, every mix of synchronous and asynchronous types.  One registration = one token
//      <style>:<store>:<types>, types over C U D (sync) / c u d (async), e.g. f:emp:DcU =
//      AddEntityEventListenerF(fn, EntityDeleted, EntityCreatedAsync, EntityUpdated).  Every delivery to
//      registration k is recorded as  LM:<k>:<style>:<store>:<types>:<hex id>:<state digest>.
//  (b) transactions that reuse a MutateContext a rolled-back transaction already used: the pseudo veto
//      "@ctx" of the shared harness (the database-wide shared context; programs of such transactions
//      register nothing on it), and Db.Batch calls bbolt coalesces with FAILING partner calls (pseudo
//      veto "@cobatch", id = one letter per partner): the innocent function is rolled back with its
//      partner and re-run with the same context.
//  (c) wirings with three child stores (plain and extended) under one parent: c08k3, c08kx.

import (
	"context"
	"fmt"
	"strings"
	"sync"
	"time"

	"github.com/openziti/storage/boltz"
	"github.com/pkg/errors"
	"go.etcd.io/bbolt"
)

func init() {
	extraWirings["c08k3"] = wiringC08K3
	extraWirings["c08kx"] = wiringC08Kx
}

// the wirings of the C08 streams: the shared three plus the families with several child stores
var c08Wirings = []string{"idx", "fkc", "casc", "c08k3", "c08kx"}

// c08k3: parent p (cascade-deleted with its owner o) with the child stores k1 (plain), k2 (plain, unique
// index), k3 (extended); a second family q with two plain child stores whose entities reference p
func wiringC08K3() *wiring {
	return &wiring{Name: "c08k3", Stores: []*sStore{
		{Name: "o", Fields: []sField{{Name: "title"}}},
		{Name: "p", Fields: []sField{{Name: "name"}, {Name: "owner"}}, Sets: []string{"roles"}},
		{Name: "k1", Parent: "p", Fields: []sField{{Name: "lvl", Ptr: true}}},
		{Name: "k2", Parent: "p", Fields: []sField{{Name: "code", Ptr: true}}},
		{Name: "k3", Parent: "p", Ext: true, Fields: []sField{{Name: "note", Ptr: true}}},
		{Name: "q", Fields: []sField{{Name: "p", Ptr: true}}},
		{Name: "q1", Parent: "q", Fields: []sField{{Name: "x", Ptr: true}}},
		{Name: "q2", Parent: "q", Fields: []sField{{Name: "y", Ptr: true}}},
	}, Script: []wiringDecl{
		{Kind: "fkindexcascade", Store: "p", Field: "owner", Target: "o", Back: "ps"},
		{Kind: "setidx", Store: "p", Field: "roles"},
		{Kind: "unique", Store: "k2", Field: "code", Nullable: true},
		{Kind: "fkcons", Store: "q", Field: "p", Target: "p", Nullable: true, Casc: "D"},
	}}
}

// c08kx: the extended child store registered FIRST, two plain child stores after it; a self reference with
// cascade delete is not used (acyclic rank): r -> p cascade through an fk constraint
func wiringC08Kx() *wiring {
	return &wiring{Name: "c08kx", Stores: []*sStore{
		{Name: "p", Fields: []sField{{Name: "name"}}},
		{Name: "x1", Parent: "p", Ext: true, Fields: []sField{{Name: "code", Ptr: true}}},
		{Name: "k2", Parent: "p", Fields: []sField{{Name: "lvl", Ptr: true}}},
		{Name: "k3", Parent: "p", Fields: []sField{{Name: "tag", Ptr: true}}},
		{Name: "r", Fields: []sField{{Name: "p"}, {Name: "label", Ptr: true}}},
	}, Script: []wiringDecl{
		{Kind: "unique", Store: "p", Field: "name"},
		{Kind: "unique", Store: "k3", Field: "tag", Nullable: true},
		{Kind: "fkindexcascade", Store: "r", Field: "p", Target: "p", Back: "rs"},
	}}
}

// ---------------------------------------------------------------- (a) registrations with several change types

type c08Reg struct {
	Style byte // t f u i
	Store string
	Types string // C U D = synchronous, c u d = asynchronous; in the order of the Add*Listener call
	Pass  string // how the caller hands over the additional types (store_c08_regpass.go); "" = spelled out in the call
}

// String is the token of the REGS section: <style>:<store>:<types>[:<pass>]
func (r c08Reg) String() string {
	if r.Pass != "" {
		return fmt.Sprintf("%c:%s:%s:%s", r.Style, r.Store, r.Types, r.Pass)
	}
	return r.key()
}

// key names the registration in its delivery tokens (LM:<k>:<style>:<store>:<types>:..): what it is registered for
func (r c08Reg) key() string { return fmt.Sprintf("%c:%s:%s", r.Style, r.Store, r.Types) }

func c08ParseReg(tok string) (c08Reg, error) {
	p := strings.Split(tok, ":")
	if (len(p) != 3 && len(p) != 4) || len(p[0]) != 1 || !strings.Contains("tfui", p[0]) || p[2] == "" || strings.Trim(p[2], "CUDcud") != "" {
		return c08Reg{}, fmt.Errorf("bad listener registration %q", tok)
	}
	reg := c08Reg{Style: p[0][0], Store: p[1], Types: p[2]}
	if len(p) == 4 {
		reg.Pass = p[3]
		if err := c08CheckPass(reg); err != nil {
			return c08Reg{}, err
		}
	}
	return reg, nil
}

func c08EventType(ch byte) boltz.EntityEventType {
	switch ch {
	case 'C':
		return boltz.EntityCreated
	case 'U':
		return boltz.EntityUpdated
	case 'D':
		return boltz.EntityDeleted
	case 'c':
		return boltz.EntityCreatedAsync
	case 'u':
		return boltz.EntityUpdatedAsync
	default:
		return boltz.EntityDeletedAsync
	}
}

// registerMulti performs the Add*Listener calls of the REGS section, in order; the additional change types of a
// registration are handed over the way its Pass field says (store_c08_regpass.go: spelled out, a re-used buffer with
// spare capacity, a slice the caller overwrites afterwards, ..).  What a registration is registered FOR is what the
// call names at that moment - c.multiPer (the deliveries to wait for) and the oracle only look at Types.
func (c *c08Db) registerMulti(regs []c08Reg) error {
	c.multiPer = map[string]int{}
	caller := &c08RegCaller{}
	for k, reg := range regs {
		gs := c.h.stores[reg.Store]
		if gs == nil {
			return fmt.Errorf("registration %s: no store %s", reg, reg.Store)
		}
		for i := 0; i < len(reg.Types); i++ {
			c.multiPer[reg.Store+"/"+strings.ToUpper(reg.Types[i:i+1])]++
		}
		first, rest, after, err := caller.args(reg)
		if err != nil {
			return err
		}
		prefix := fmt.Sprintf("LM:%d:%s", k, reg.key())
		store := reg.Store
		mk := fmt.Sprintf("m%d", k) // names the registration in a TAGS token (store_c08_caller.go)
		switch reg.Style {
		case 't':
			gs.AddEntityEventListener(&c08MultiTyped{c: c, prefix: prefix, store: store}, first, rest...)
		case 'f':
			gs.AddEntityEventListenerF(func(e *gEnt) {
				c.tagCheck(mk, store, "?", c08EntIdRaw(e), e)
				c.recordMulti(fmt.Sprintf("%s:%s:%s", prefix, c08EntId(e), c.digest(store, e)))
			}, first, rest...)
		case 'u':
			gs.AddListener(func(e boltz.Entity) {
				g := c08AsGEnt(e)
				c.tagCheck(mk, store, "?", c08EntIdRaw(g), g)
				c.recordMulti(fmt.Sprintf("%s:%s:%s", prefix, c08EntId(g), c.digest(store, g)))
			}, first, rest...)
		case 'i':
			gs.AddEntityIdListener(func(id string) {
				c.recordMulti(fmt.Sprintf("%s:%s:-", prefix, hxs(id)))
			}, first, rest...)
		}
		if after != nil {
			after() // the caller goes on using its own memory
		}
	}
	c.regs = regs
	return nil
}

type c08MultiTyped struct {
	c      *c08Db
	prefix string
	store  string
}

func (l *c08MultiTyped) HandleEntityEvent(e *gEnt) {
	l.c.tagCheck("m"+strings.SplitN(l.prefix, ":", 3)[1], l.store, "?", c08EntIdRaw(e), e)
	l.c.recordMulti(fmt.Sprintf("%s:%s:%s", l.prefix, c08EntId(e), l.c.digest(l.store, e)))
}

func (c *c08Db) recordMulti(tok string) {
	c.mu.Lock()
	c.toks = append(c.toks, tok)
	c.nMulti++
	c.mu.Unlock()
	c.signal()
}

var c08Kinds = []string{"C", "U", "D"}

// genRegs draws the multi-type registrations of a history: 3..7 registrations, every style, ordered
// selections of two or three distinct change kinds (a registration naming one kind twice - EntityCreated
// and EntityCreatedAsync - asks for two notifications per create; that is not the property's "a listener
// registered for that change type" and is left out), each type synchronous or asynchronous
func (g *c08Gen) genRegs() []c08Reg {
	r := g.r
	var regs []c08Reg
	n := 3 + r.intn(5)
	for k := 0; k < n; k++ {
		kinds := append([]string{}, c08Kinds...)
		for i := len(kinds) - 1; i > 0; i-- {
			j := r.intn(i + 1)
			kinds[i], kinds[j] = kinds[j], kinds[i]
		}
		if r.chance(45) {
			kinds = kinds[:2]
		}
		var sb strings.Builder
		for _, kd := range kinds {
			if r.chance(35) {
				kd = strings.ToLower(kd)
			}
			sb.WriteString(kd)
		}
		regs = append(regs, c08Reg{Style: "tfui"[(k+r.intn(2))%4], Store: g.pickStore(), Types: sb.String()})
	}
	return regs
}

// ---------------------------------------------------------------- (b) contexts that saw a rolled-back attempt

const c08CoBatch = "@cobatch"

func c08PseudoVeto(t *hTx, store string) (string, bool) {
	for _, v := range t.Vetoes {
		if v.Store == store {
			return v.Id, true
		}
	}
	return "", false
}

// c08BoltDb returns the bbolt database behind the boltz handle (bbolt exposes it on every transaction)
func c08BoltDb(h *harnessDb) *bbolt.DB {
	var bdb *bbolt.DB
	_ = h.db.View(func(tx *bbolt.Tx) error {
		bdb = tx.DB()
		return nil
	})
	return bdb
}

// c08RunCoalesced issues the transaction's Db.Batch call together with len(partners) other Db.Batch calls
// that all fail, so that bbolt runs them in ONE bolt transaction (MaxBatchSize = number of calls: the batch
// starts when the last one joined): a partner enqueued after the transaction's call makes bbolt roll the
// shared transaction back and re-run the innocent function, with the same context, in a new one.
// Partner letters: e = fails at once, w = creates an entity in every root store and then fails;
// upper case = enqueued before the transaction's call.  Whatever the partners did is rolled back, so the
// expected observation of the transaction does not depend on them (nor on whether bbolt really coalesced
// the calls: the spacing between the calls only decides how often the re-run happens).
func (c *c08Db) runCoalesced(ctx boltz.MutateContext, body func(boltz.MutateContext) error, partners string) error {
	h := c.h
	bdb := c08BoltDb(h)
	if bdb == nil {
		return h.db.Batch(ctx, body)
	}
	oldSize, oldDelay := bdb.MaxBatchSize, bdb.MaxBatchDelay
	bdb.MaxBatchSize, bdb.MaxBatchDelay = len(partners)+1, 2*time.Second
	defer func() { bdb.MaxBatchSize, bdb.MaxBatchDelay = oldSize, oldDelay }()

	partner := func(kind byte, k int) func() error {
		return func() error {
			return h.db.Batch(boltz.NewMutateContext(context.Background()), func(pctx boltz.MutateContext) error {
				if kind == 'w' || kind == 'W' {
					for _, def := range h.w.Stores {
						if def.Parent == "" {
							op := hOp{Kind: "C", Store: def.Name, Id: fmt.Sprintf("zp%d", k), F: map[string]*string{}, S: map[string][]string{}}
							for _, f := range def.Fields {
								op.F[f.Name] = sp(fmt.Sprintf("zp%d", k))
							}
							_ = h.execOp(pctx, &op)
						}
					}
				}
				return errors.New("this member of the batch fails")
			})
		}
	}
	var calls []func() error
	var mainErr error
	for k := 0; k < len(partners); k++ {
		if partners[k] == 'E' || partners[k] == 'W' {
			calls = append(calls, partner(partners[k], k))
		}
	}
	calls = append(calls, func() error {
		mainErr = h.db.Batch(ctx, body)
		return mainErr
	})
	for k := 0; k < len(partners); k++ {
		if partners[k] == 'e' || partners[k] == 'w' {
			calls = append(calls, partner(partners[k], k))
		}
	}
	var wg sync.WaitGroup
	for k, call := range calls {
		call := call
		wg.Add(1)
		go func() {
			defer wg.Done()
			_ = call()
		}()
		if k+1 < len(calls) {
			time.Sleep(1500 * time.Microsecond) // let the call join the batch before the next one does
		}
	}
	wg.Wait()
	return mainErr
}

// genProgPlain: a hook program for a transaction whose context outlives it or whose function bbolt may run
// twice.  Nothing is registered inside the function (a re-run would register it a second time - bbolt's
// "the function must be idempotent"), and nothing at all on a context that is kept for later transactions
// (commit actions stay on the context: every later transaction would run them again); the operations are
// still spread over nested db.Update / db.Batch calls that join the running transaction.
func (g *c08Gen) genProgPlain(t *hTx, mode string, registerBefore bool) string {
	r := g.r
	var sb strings.Builder
	if registerBefore {
		if r.chance(75) {
			sb.WriteByte('c')
		}
		if r.chance(65) {
			sb.WriteByte('p')
		}
		if r.chance(20) {
			sb.WriteByte('c')
		}
	}
	sb.WriteByte('|')
	remaining := len(t.Ops)
	depth := 0
	for remaining > 0 || depth > 0 {
		switch {
		case depth < 2 && r.chance(15):
			open := byte('u')
			if (mode == "bat") != r.chance(25) {
				open = 'b'
			}
			sb.WriteByte(open)
			depth++
		case depth > 0 && (remaining == 0 || r.chance(35)):
			sb.WriteByte(')')
			depth--
		case remaining > 0:
			sb.WriteByte('.')
			remaining--
		}
	}
	return sb.String()
}

// c08History fixes, per history, how its transactions treat their contexts
type c08History struct {
	sharedCtx bool // every transaction (mostly) runs with the database-wide shared context
	coBatch   bool // Db.Batch calls are issued together with failing partner calls
	rawTx     bool // most transactions are opened by the caller on the bbolt database (store_c08_w3.go)
}

func (g *c08Gen) genHistoryKind(mode string) c08History {
	var k c08History
	switch mode {
	case "upd":
		switch x := g.r.intn(100); {
		case x < 18:
			k.sharedCtx = true
		case x < 32:
			k.rawTx = true
		}
	case "bat":
		switch x := g.r.intn(100); {
		case x < 20:
			k.sharedCtx = true
		case x < 60:
			k.coBatch = true
		case x < 70:
			k.rawTx = true
		}
	}
	return k
}

// shape adapts a generated transaction to the history kind and returns its hook program
func (g *c08Gen) shape(t *hTx, mode string, k c08History) string {
	r := g.r
	switch {
	case k.sharedCtx && r.chance(85):
		t.PreCommitErr = false
		t.Vetoes = append(t.Vetoes, hVeto{Store: "@ctx", Change: "C", Id: ""})
		// a caller that gives up after it already changed something: the context has then seen an attempt
		// that was rolled back
		if r.chance(30) && len(t.Ops) > 0 {
			t.Ops = append(t.Ops, hOp{Kind: "FAIL"})
		}
		return g.genProgPlain(t, mode, false)
	case k.coBatch && !t.PreCommitErr && r.chance(70):
		spec := []string{"e", "e", "e", "w", "w", "ew", "we", "ee", "E", "W", "Ee", "eW"}[r.intn(12)]
		t.Vetoes = append(t.Vetoes, hVeto{Store: c08CoBatch, Change: "C", Id: spec})
		return g.genProgPlain(t, mode, true)
	case (k.rawTx && r.chance(65)) || (!k.sharedCtx && !k.coBatch && r.chance(4)):
		return g.shapeRaw(t, mode)
	}
	return g.genProg(t, mode)
}
