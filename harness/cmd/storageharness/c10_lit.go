package main

import (
	"strings"
)

// C10, literals that are tokens of the grammar and have NO VALUE.
//
// The lexer decides with regular expressions: NUMBER is '-'? INT ('.' [0-9]+)? EXP?, a DATETIME is any year (INT+), a month
// 01-12, a day 01-31, a second 00-60.  Whether such a token denotes a value is decided later, by the listener, while it walks
// the parse tree (strconv.ParseInt / ParseFloat, time.Parse): 1e999 and a 400-digit integer are NUMBER tokens beyond float64,
// 2021-02-30, a 29th of February in a common year, second 60 and a year of five digits are DATETIME tokens that are no
// instant.  The filter is then a sentence of the grammar that cannot be converted: the result has to be an error - and the
// error is recorded in the MIDDLE of the walk, with operands of the enclosing construct already on the listener's stacks
// and every later Exit* callback still to come.  What is left on which stack depends on WHERE the literal stands, so the
// population is: every such literal x every literal-taking construct of the grammar x every literal position of the
// construct (comparison operand, lower / upper bound, element 1..n of an in-list of 1..4 elements, skip and limit values of
// the query and of a sub-query, operands inside and behind a sub-query, first / second operand of and / or, inside not ( )),
// the other positions holding convertible literals; and all positions at once.  Literals at the very edge of the value range
// that DO convert (int64 minimum / maximum and their neighbours, the largest float64, denormals, -0, exponents that
// underflow, 29 February of leap years, year 0000 and 9999, second fractions of 40 digits, the largest offsets) take the
// first position of every construct: they must parse and evaluate.
//
// Stream lit: the ten in-memory typings of x.  Stream boltlit: x renamed to int64 / float64 / datetime scalars and sets of
// the bolt-backed store (typing store), so that the converted edge values are compared with stored fields through the
// Store query API.

// c10lBadNumbers: NUMBER tokens that neither strconv.ParseInt nor strconv.ParseFloat converts
func c10lBadNumbers() []string {
	return []string{
		"1e999", "-1e400", "1e309", "1E+999", "1.5e999", "-2.5E+400", "1.7976931348623159e308", "-1.7976931348623159e308",
		"1e99999999999999999999", "-0.5e4000000000",
		"1" + strings.Repeat("0", 309),                 // 310 digits: beyond int64 and beyond float64
		"-9" + strings.Repeat("9", 400),                // 401 digits
		strings.Repeat("123456789", 140),               // an over-long token (1260 digits)
		"0." + strings.Repeat("9", 300) + "e999",       // long fraction, exponent out of range
		"17976931348623159" + strings.Repeat("9", 292), // above the largest float64 by more than half an ulp, written as an integer (309 digits)
	}
}

// c10lEdgeNumbers: NUMBER tokens at the edge of what converts
var c10lEdgeNumbers = []string{
	"9223372036854775807", "9223372036854775808", "-9223372036854775808", "-9223372036854775809", "99999999999999999999",
	"1e308", "1.7976931348623157e308", "-1.7976931348623157e308", "1e-999", "4.9e-324", "-0", "-0.0", "1e+0", "0e999",
	"0.00000000000000000000000000000000000000000000000001", "2e-0", "1.5", "-1", "1e2",
}

// c10lBadDatetimes: DATETIME tokens that are not an instant (time.Parse refuses them)
var c10lBadDatetimes = []string{
	"datetime(2021-02-30T00:00:00Z)", "datetime(2021-02-29T12:00:00Z)", "datetime(1900-02-29T00:00:00Z)", "datetime(2021-04-31T00:00:00Z)",
	"datetime(2021-06-31T23:59:59+01:00)", "datetime(2021-01-01T00:00:60Z)", "datetime(2016-12-31T23:59:60Z)", "datetime(2021-11-31T00:00:00.5-08:00)",
	"datetime(99999-01-01T00:00:00Z)", "datetime(0-01-01T00:00:00Z)", "datetime(021-01-01T00:00:00Z)", "datetime(00002021-01-01T00:00:00Z)",
	"datetime(123456789012345678901234567890-01-01T00:00:00Z)", "datetime( 2021-02-30t00:00:00z )", "datetime(2021-09-31T10:00:60.123+23:59)",
}

// c10lEdgeDatetimes: DATETIME tokens at the edge of what converts
var c10lEdgeDatetimes = []string{
	"datetime(2024-02-29T00:00:00Z)", "datetime(2000-02-29T23:59:59Z)", "datetime(0000-01-01T00:00:00Z)", "datetime(9999-12-31T23:59:59.999999999-23:59)",
	"datetime(0001-01-01T00:00:00+23:59)", "datetime(2021-01-01T00:00:00.0000000000000000000000000000000000000001Z)", "datetime(2021-12-31t23:59:59z)",
	"datetime(1970-01-01T00:00:00-00:00)",
}

// c10lTemplates: the literal-taking constructs; # = a number position, @ = a datetime position
var c10lTemplates = []string{
	// comparison operand
	"x = #", "x != #", "x < #", "x <= #", "x > #", "x>=#", "x contains #", "x not contains #", "anyOf(x) = #", "allOf(x) > #", "count(x) = #", "y = #", "tags.x-y < #",
	// bounds
	"x between # and #", "x not between # and #", "anyOf(x) between # and #", "count(x) between # and #",
	// in-lists of 1..4 elements
	"x in [#]", "x in [#, #]", "x in [#,#,#]", "x in [ # , # , # , # ]", "x not in [#, #]", "x not in [#, #, #]", "anyOf(x) in [#, #]", "allOf(x) not in [#, #, #]", "count(x) in [#, #]", "y in [#, #]",
	// paging of the query
	"a limit #", "a skip #", "a skip # limit #", "limit #", "skip #", "skip # limit #", "sort by s limit #", "a sort by s desc skip # limit #", "x = # sort by x skip # limit #",
	// sub-queries: operand inside, operand behind, paging inside
	"count(from ss where v = #) > 0", "count(from ss where a) > #", "count(from ss where a limit #) > 0", "count(from ss where a skip # limit #) >= #",
	"isEmpty(from ss where v in [#, #] skip #)", "count(from ss where v between # and #) between # and #", "count(from ss where x in [#, #, #] sort by name limit #) = #",
	"isEmpty(from ss where a sort by name skip #) and x = #",
	// the construct as operand of and / or / not / ( ), behind and in front of other constructs
	"a and x = #", "x = # or a", "not (x in [#, #])", "(x = #)", "( x between # and # ) and ( i in [#, #] or s = \"q\" )", "not x in [#, #] and x > #", "x = # and x in [#, #] sort by s limit #",
	"x in [#, #] or x in [#, #]", "x in [\"a\", \"b\"] and x in [#, #]", "x in [#, #] and s in [\"a\", \"b\"]", "x in [#, #] and d in [@, @]",
	// datetimes
	"x = @", "x != @", "x < @", "x <= @", "x > @", "x >= @", "anyOf(x) = @", "y > @",
	"x between @ and @", "x not between @ and @", "anyOf(x) between @ and @",
	"x in [@]", "x in [@, @]", "x in [@,@,@]", "x not in [ @ , @ , @ , @ ]", "allOf(x) in [@, @]", "y not in [@, @]",
	"count(from ss where v = @) > 0", "isEmpty(from ss where v in [@, @])", "count(from ss where v between @ and @ limit #) > #",
	"a and x in [@, @]", "not (x = @) or d between @ and @", "d in [@, @] and x in [#, #]", "x = @ sort by d skip # limit #",
}

var c10lGoodNumbers = []string{"1", "2.5", "-3", "4e1"}
var c10lGoodDatetimes = []string{"datetime(2032-09-03T15:36:50Z)", "datetime(2030-01-01T00:00:00+01:00)"}

// c10lFill: the template with slot k filled by fill(k, kind)
func c10lFill(tpl string, fill func(k int, kind byte) string) (string, int) {
	var b strings.Builder
	k := 0
	for i := 0; i < len(tpl); i++ {
		if tpl[i] == '#' || tpl[i] == '@' {
			b.WriteString(fill(k, tpl[i]))
			k++
		} else {
			b.WriteByte(tpl[i])
		}
	}
	return b.String(), k
}

// c10lFilters: the population.  The quick tier takes 9 of the 15 numbers without a value (one per way of not converting),
// the edge values at the first position only and 5 all-positions fillings per construct; the thorough tier takes everything.
func c10lFilters(thorough bool, emit func(filter string)) {
	good := func(k int, kind byte) string {
		if kind == '#' {
			return c10lGoodNumbers[k%len(c10lGoodNumbers)]
		}
		return c10lGoodDatetimes[k%len(c10lGoodDatetimes)]
	}
	badNumbers := c10lBadNumbers()
	allBad, edgeAt := len(badNumbers), []int{0, -1}
	if !thorough {
		// "1e999", "-1e400", "1e309", "1.7976931348623159e308", 20-digit exponent, 310 digits, -401 digits, 1260 digits, long fraction
		badNumbers = []string{badNumbers[0], badNumbers[1], badNumbers[2], badNumbers[6], badNumbers[8], badNumbers[10], badNumbers[11], badNumbers[12], badNumbers[13]}
		allBad, edgeAt = 5, []int{0}
	}
	for _, tpl := range c10lTemplates {
		plain, slots := c10lFill(tpl, good)
		emit(plain)
		kinds := make([]byte, 0, slots)
		_, _ = c10lFill(tpl, func(k int, kind byte) string { kinds = append(kinds, kind); return "" })
		pool := func(kind byte, bad bool) []string {
			switch {
			case kind == '#' && bad:
				return badNumbers
			case kind == '#':
				return c10lEdgeNumbers
			case bad:
				return c10lBadDatetimes
			}
			return c10lEdgeDatetimes
		}
		// one literal without a value at position p, convertible literals everywhere else
		for p := 0; p < slots; p++ {
			for _, lit := range pool(kinds[p], true) {
				f, _ := c10lFill(tpl, func(k int, kind byte) string {
					if k == p {
						return lit
					}
					return good(k, kind)
				})
				emit(f)
			}
		}
		// every position without a value
		for j := 0; j < allBad; j++ {
			f, _ := c10lFill(tpl, func(k int, kind byte) string {
				l := pool(kind, true)
				return l[(j+k)%len(l)]
			})
			emit(f)
		}
		// edge values that convert: the first position and the last one
		for _, p := range edgeAt {
			if p < 0 {
				p = slots - 1
			}
			if slots == 0 {
				continue
			}
			for _, lit := range pool(kinds[p], false) {
				f, _ := c10lFill(tpl, func(k int, kind byte) string {
					if k == p {
						return lit
					}
					return good(k, kind)
				})
				emit(f)
			}
		}
	}
}

// c10lStoreTargets: what x is renamed to for the store typing
var c10lStoreTargets = []string{"xi", "xf", "xd", "xis", "xfs", "xds", "xks.i", "xp"}
