package main

import (
	"time"

	"github.com/openziti/storage/boltz"
)

// C10, storage types.  A bolt field carries its OWN type byte: what a symbol declares (string, int64, ..., any) and what
// the stored value is are independent.  A map element (`tags.k`), a plain any-typed symbol and every symbol that is read
// through a coercing path (string operators over an any-typed symbol, the string comparator of `sort by`, the id of a
// linked entity read from a fk field or from a fk-set entry, the entries of a typed set) take whatever the writer stored:
// SetInt32 or SetInt64, PutMap(int32 / int / int64 / float64 / bool / time / string / nil).  The datasets of
// c10_store.go wrote every value with the setter that is "natural" for its symbol (and one profile with a few well-formed
// values of another type); a storage type that only ONE conversion treats specially - the 4-byte payload of int32 under
// the string conversion, say - never met that conversion.
//
// The class is the product (storage type of the value) x (conversion the evaluator applies), so the data side is made
// uniform here: for every storage type T there is one entity of the main store and one of the sub store in which EVERY
// field, every set entry, every fk / fk-set entry and every map element (flat and nested) holds a well-formed value of
// type T.  The filters are the existing ones: the typed sentence matrix renamed to every symbol (scalars of every declared
// type, any-typed, map elements, sets, dotted chains through fk and fk sets) already applies every operator family -
// string, numeric, datetime, bool, null, in-lists, between, contains / icontains, set functions, sort keys - to every
// symbol, so every conversion now meets every storage type, in the main store and through links.
//
// Profiles: mains `m9-<T>`, subs `s9-<T>`; T in int32, int64, float64, bool, time, string, nil.  The main entity's fk
// `xk` names the sub entity of the same type (so `xk.v`, `xk.tags.k`, `xk.xss` read typed values through a link); the sub
// entity's own fk `xk` holds a value of type T (a linked id read from a typed field); fk sets hold a typed entry and the id
// of the typed entity of the linked store.
var c10tyTypes = []string{"int32", "int64", "float64", "bool", "time", "string", "nil"}

func c10tyMainIds() []string {
	var out []string
	for _, t := range c10tyTypes {
		out = append(out, "m9-"+t)
	}
	return out
}

func c10tyIsTyped(id string) bool { return len(id) > 3 && (id[:3] == "m9-" || id[:3] == "s9-") }

// c10tyValues: two well-formed values of the storage type (as Go values for PutMap, as list entries)
func c10tyValues(t string) (vals []interface{}, entries []c10sEntry) {
	switch t {
	case "int32":
		return []interface{}{int32(1), int32(-5)}, []c10sEntry{{boltz.TypeInt32, boltz.Int32ToBytes(1)[1:]}, {boltz.TypeInt32, boltz.Int32ToBytes(-5)[1:]}}
	case "int64":
		return []interface{}{int64(1), int64(1) << 40}, []c10sEntry{{boltz.TypeInt64, c10sI64(1)}, {boltz.TypeInt64, c10sI64(1 << 40)}}
	case "float64":
		return []interface{}{1.5, -2.25}, []c10sEntry{{boltz.TypeFloat64, c10sF64(1.5)}, {boltz.TypeFloat64, c10sF64(-2.25)}}
	case "bool":
		return []interface{}{true, false}, []c10sEntry{{boltz.TypeBool, []byte{1}}, {boltz.TypeBool, []byte{0}}}
	case "time":
		return []interface{}{c10Time, c10Time.Add(time.Hour)}, []c10sEntry{{boltz.TypeTime, c10sTime(c10Time)}, {boltz.TypeTime, c10sTime(c10Time.Add(time.Hour))}}
	case "string":
		return []interface{}{"s", "1"}, c10sStrs("s", "1")
	case "nil":
		return []interface{}{nil, nil}, []c10sEntry{{boltz.TypeNil, nil}}
	}
	panic("c10ty: unknown storage type " + t)
}

// c10tySet writes one field with the setter of the storage type
func c10tySet(b *boltz.TypedBucket, key string, v interface{}) {
	switch x := v.(type) {
	case nil:
		b.SetNil(key)
	case int32:
		b.SetInt32(key, x, nil)
	case int64:
		b.SetInt64(key, x, nil)
	case float64:
		b.SetFloat64(key, x, nil)
	case bool:
		b.SetBool(key, x, nil)
	case time.Time:
		b.SetTime(key, x, nil)
	case string:
		b.SetString(key, x, nil)
	}
}

// c10tyWrite writes the entity `id` (m9-<T> of the main store, s9-<T> of the sub store)
func c10tyWrite(store *boltz.TypedBucket, id string) {
	t := id[3:]
	vals, entries := c10tyValues(t)
	e := store.GetOrCreatePath(id)
	isMain := id[0] == 'm'
	var scalars, sets []string
	if isMain {
		scalars = []string{"s", "i", "f", "b", "a", "c", "d", "y", "name", "xs", "xi", "xf", "xb", "xd"}
		sets = []string{"ss", "is", "xss", "xis", "xfs", "xbs", "xds"}
	} else {
		scalars = []string{"s", "i", "a", "name", "v", "x", "xk"}
		sets = []string{"xss", "xis"}
	}
	for k, name := range scalars {
		c10tySet(e, name, vals[k%len(vals)])
	}
	for _, name := range sets {
		c10sSetList(e, name, entries)
	}
	link := func(key string, ids ...string) {
		c10sSetList(e, key, append(append([]c10sEntry{}, entries[:1]...), c10sStrs(ids...)...))
	}
	m := map[string]interface{}{"k": vals[0], "x-y": vals[1], "n": vals[0], "deep": map[string]interface{}{"j": vals[0]}}
	e.PutMap("tags", m, nil, true)
	if isMain {
		c10tySet(e.GetOrCreatePath("ext", "deep"), "grp", vals[0])
		e.SetString("xk", "s9-"+t, nil)
		link("xks", "s9-"+t, "s1-full")
		link("xms", id, "m1-full")
		e.SetString("xup", id, nil) // the self link of the store, in the data as well
	} else {
		link("xks", "l1-full")
		link("owners", "m9-"+t)
	}
	if e.HasError() {
		panic(e.GetError())
	}
}

// c10tyWriteSubs: the typed entities of the sub store (called for every root that has linked stores)
func c10tyWriteSubs(root *boltz.TypedBucket) {
	subs := root.GetOrCreatePath("subs")
	for _, t := range c10tyTypes {
		c10tyWrite(subs, "s9-"+t)
	}
	if subs.HasError() {
		panic(subs.GetError())
	}
}
