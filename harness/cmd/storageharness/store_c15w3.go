package main

// C15 strengthening, third wave (seeded C15-w2-1, C16-w3-3):
//
// (a) DeleteWhere AS AN OPERATION OF THE C15 HISTORIES.  The shared harness already executes `DW <store> T` and
//     `DW <store> EQ <field> <valhex>` (store.go execOp / opText / parseCase, added for C07; model Store/XOps.v
//     XDeleteWhere).  The C15 stream never issued it, so the one delete path that goes through a store's QUERY
//     (BaseStore.DeleteWhere = QueryIds of the filter through THAT store, then DeleteById for every id) was never
//     exercised through a child store.  c15GenDW issues it through the parent, the plain child and the extended child
//     stores over the mixed populations of the adaptive generator; the filter compares a field the store sees (the
//     parent's fields, or - through a child store - also the child's own) with a value that some entity holds NOW,
//     mostly an entity WITHOUT child data when the operation goes through a child store: plain parent entities then
//     satisfy the filter as well, and only the store's own query tells them apart from the child entities.
//
// (b) CHILD STORES THAT DECLARE NOTHING BUT FIELDS (no index, no constraint of their own) under a parent that carries
//     unique / nullable unique / set / fk indexes and a link collection: plain child (C15np) and extended child
//     (C15nx, parent inside a cascade-delete chain).  Every child store of idx / casc has a unique index of its own, so
//     "the indexing context of the child level is empty" never happened in the C15 stream; the parent's indexes and
//     constraints must apply identically to entities written through such a store.  wf_child_b / wf_unique_b of the
//     C15 theorems by computation in coq/theories/Examples/C15Wirings.v.

func init() {
	extraWirings["C15np"] = wiringC15Np
	extraWirings["C15nx"] = wiringC15Nx
}

// wirings of the C15 stream (store_x1516.go runStoreX, profile c15): the two shared ones keep two thirds of the histories
var c15Wirings = []string{"idx", "casc", "C15np", "idx", "casc", "C15nx"}

// percent of the generated operations (on a family with entities) that are a DeleteWhere
const c15PDeleteWhere = 9

// C15np: root node carries a unique, a nullable unique, a set index, a non-null fk index (target site) and a link
// collection; its PLAIN child store edge declares two fields and nothing else.
func wiringC15Np() *wiring {
	return &wiring{Name: "C15np", Stores: []*sStore{
		{Name: "site", Fields: []sField{{Name: "label"}}},
		{Name: "node", Fields: []sField{{Name: "name"}, {Name: "alias", Ptr: true, Sym: "aliasSym"}, {Name: "site"}}, Sets: []string{"roles"}},
		{Name: "edge", Parent: "node", Fields: []sField{{Name: "port", Ptr: true}, {Name: "mode"}}},
	}, Script: []wiringDecl{
		{Kind: "unique", Store: "site", Field: "label"},
		{Kind: "unique", Store: "node", Field: "name"},
		{Kind: "unique", Store: "node", Field: "alias", Nullable: true},
		{Kind: "setidx", Store: "node", Field: "roles"},
		{Kind: "fkindex", Store: "node", Field: "site", Target: "site", Back: "nodes"},
		{Kind: "link", Store: "node", Field: "zones", Target: "site", Back: "crew"},
	}}
}

// C15nx: grp <- acct <- sub by cascade-delete fk indexes; acct carries a unique index, a set index and the fk index; its
// EXTENDED child store acx declares two fields and nothing else.
func wiringC15Nx() *wiring {
	return &wiring{Name: "C15nx", Stores: []*sStore{
		{Name: "grp", Fields: []sField{{Name: "name"}}},
		{Name: "acct", Fields: []sField{{Name: "name"}, {Name: "grp"}}, Sets: []string{"caps"}},
		{Name: "sub", Fields: []sField{{Name: "note", Ptr: true}, {Name: "acct"}}},
		{Name: "acx", Parent: "acct", Ext: true, Fields: []sField{{Name: "quota", Ptr: true}, {Name: "plan"}}},
	}, Script: []wiringDecl{
		{Kind: "unique", Store: "grp", Field: "name"},
		{Kind: "unique", Store: "acct", Field: "name"},
		{Kind: "setidx", Store: "acct", Field: "caps"},
		{Kind: "fkindexcascade", Store: "acct", Field: "grp", Target: "grp", Back: "accts"},
		{Kind: "fkindexcascade", Store: "sub", Field: "acct", Target: "acct", Back: "subs"},
	}}
}

// c15GenDW: DeleteWhere through store st (root, plain child or extended child); tentative = the ids of its root store the
// generator believes alive; false = the family holds no entity yet (no DeleteWhere is generated).
// What exists (g.snap) only biases the choice of the filter value.
func (g *xGen) c15GenDW(st *sStore, tentative []string) (hOp, bool) {
	op := hOp{Kind: "DW", Store: st.Name}
	root := g.rootOf(st.Name)
	// the entities that existed when the transaction began (the snapshot also holds ids earlier operations of this
	// transaction may have created)
	var alive []string
	for _, id := range tentative {
		if len(g.snap.fvals[root][id]) > 0 {
			alive = append(alive, id)
		}
	}
	if len(alive) == 0 {
		return op, false
	}
	if g.r.chance(15) {
		return op, true // filter true: everything the store shows
	}
	// the entity the value is taken from: through a child store mostly one the store does not hold child data for
	src := g.pickFrom(alive)
	if st.Parent != "" {
		var plain, with []string
		for _, id := range alive {
			if g.snap.child[st.Name][id] {
				with = append(with, id)
			} else {
				plain = append(plain, id)
			}
		}
		switch {
		case len(plain) > 0 && g.r.chance(65):
			src = g.pickFrom(plain)
		case len(with) > 0:
			src = g.pickFrom(with)
		}
	}
	type cand struct {
		f, v   string
		unique bool
	}
	var cands []cand
	for _, f := range g.w.store(root).Fields {
		if v := g.snap.fvals[root][src][f.Name]; v != "" {
			cands = append(cands, cand{f.Name, v, g.isUnique(root, f.Name)})
		}
	}
	if st.Parent != "" {
		for _, f := range st.Fields {
			if v := g.snap.cvals[st.Name][src][f.Name]; v != "" {
				cands = append(cands, cand{f.Name, v, g.isUnique(st.Name, f.Name)})
			}
		}
	}
	if len(cands) == 0 {
		return op, true
	}
	// mostly a field several entities share the value of (fk / small-domain fields)
	var shared []cand
	for _, c := range cands {
		if !c.unique {
			shared = append(shared, c)
		}
	}
	pick := cands[g.r.intn(len(cands))]
	if len(shared) > 0 && g.r.chance(75) {
		pick = shared[g.r.intn(len(shared))]
	}
	op.DwField, op.DwVal = pick.f, pick.v
	return op, true
}

// c15IsolateDW: in two of three transactions that contain a DeleteWhere it becomes the whole body, so that what the
// transaction removed is what the DeleteWhere removed (the oracle of checks/c15.py judges exactly those)
func (g *xGen) c15IsolateDW(t *hTx) {
	for i := range t.Ops {
		if t.Ops[i].Kind == "DW" {
			if g.r.chance(66) {
				t.Ops = []hOp{t.Ops[i]}
			}
			return
		}
	}
}
