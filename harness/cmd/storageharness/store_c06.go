package main

// C06 - a committed delete leaves no trace of the entity's id.
//
// Sub-command "storec06" (built on the shared store harness, which it does not change):
//   * histories of profile c06: a random prefix, then churn on one entity X (patches, re-parenting,
//     link churn), a delete of X in a system context, the re-creation of X and a few more
//     transactions that keep working on X (update, links, referrers pointing at it, delete, create);
//   * after every committed transaction the repository's own oracle boltz.ValidateDeleted is run
//     for every id the transaction deleted (token VD:<root>:<id>:ok|found in front of " ST");
//   * "never existed" runs: for a third of the histories X is a reserved id that the prefix never
//     uses; the block B = create X .. churn .. delete X is cut out and the remaining history is
//     executed on a second, fresh database; the observations of the suffix (re-create and
//     continue) of both runs are written to never.txt and must be identical;
//   * a small stream over REF-COUNTED link collections (not part of the Coq store machine):
//     rc_cases.txt / rc_impl.txt, facts + ValidateDeleted after every transaction.

import (
	"context"
	"fmt"
	"os"
	"path/filepath"
	"sort"
	"strings"

	"github.com/openziti/storage/ast"
	"github.com/openziti/storage/boltz"
	"github.com/pkg/errors"
	"go.etcd.io/bbolt"
)

func init() { commands["storec06"] = runStoreC06 }

const c06Reserved = "zq"

// ---- history tail ------------------------------------------------------------------------------


// an operation that works on entity x of store st (or refers to it)
func (g *histGen) opOn(st *sStore, x string) hOp {
	root := g.rootOf(st.Name)
	k := g.r.intn(100)
	switch {
	case k < 30: // full or patch update
		op := hOp{Kind: "UP", Store: st.Name, Id: x}
		if g.r.chance(30) {
			op.Store = root
		}
		g.fieldsValue(&op)
		if g.r.chance(55) {
			op.HasChk = true
			fields, sets := g.w.allFields(op.Store)
			for _, f := range fields {
				if g.r.chance(45) {
					op.Checker = append(op.Checker, f.Name)
				}
			}
			for _, sn := range sets {
				if g.r.chance(45) {
					op.Checker = append(op.Checker, sn)
				}
			}
		}
		return op
	case k < 55: // link churn with x as subject or as target
		rs := g.w.store(root)
		if len(rs.Links) > 0 {
			l := rs.Links[g.r.intn(len(rs.Links))]
			if g.r.chance(60) {
				op := hOp{Kind: "AL", Store: root, Id: x, LinkF: l.Local}
				if g.r.chance(35) {
					op.Kind = "RL"
				}
				for i, n := 0, 1+g.r.intn(3); i < n; i++ {
					op.Targets = append(op.Targets, g.pickAlive(l.Other))
				}
				return op
			}
			op := hOp{Kind: "AL", Store: l.Other, Id: g.pickAlive(l.Other), LinkF: l.OtherField, Targets: []string{x}}
			if g.r.chance(35) {
				op.Kind = "RL"
			}
			if g.r.chance(40) {
				op.Targets = append(op.Targets, g.pickAlive(root))
			}
			return op
		}
		fallthrough
	case k < 75: // another entity starts to reference x (patch of exactly the fk field)
		var cands []wiringDecl
		for _, d := range g.w.Script {
			if (d.Kind == "fkindex" || d.Kind == "fkindexcascade" || d.Kind == "fkcons") && g.rootOf(d.Target) == root {
				cands = append(cands, d)
			}
		}
		if len(cands) > 0 {
			d := cands[g.r.intn(len(cands))]
			op := hOp{Kind: "UP", Store: d.Store, Id: g.pickAlive(d.Store)}
			g.fieldsValue(&op)
			op.F[d.Field] = sp(x)
			if g.r.chance(70) {
				op.HasChk = true
				op.Checker = []string{d.Field}
			}
			return op
		}
		fallthrough
	case k < 88:
		op := hOp{Kind: "D", Store: st.Name, Id: x}
		if g.r.chance(30) {
			op.Store = root
		}
		return op
	default:
		op := hOp{Kind: "C", Store: st.Name, Id: x, Sys: g.r.chance(g.p.pSysEntity)}
		g.fieldsValue(&op)
		return op
	}
}

// fields of a store that carry a unique index / a foreign key (from the wiring script)
func (g *histGen) uniqueFields(store string) map[string]bool {
	m := map[string]bool{}
	for _, d := range g.w.Script {
		if d.Kind == "unique" && (d.Store == store || d.Store == g.rootOf(store)) {
			m[d.Field] = true
		}
	}
	return m
}


// validCreate appends transactions that create entity id of store st with references that exist
// (creating missing targets of non-nullable references first) and mostly collision-free unique values
func (g *histGen) validCreate(txs []hTx, st *sStore, id string, depth int) []hTx {
	root := g.rootOf(st.Name)
	op := hOp{Kind: "C", Store: st.Name, Id: id, Sys: g.r.chance(g.p.pSysEntity)}
	g.fieldsValue(&op)
	uniq := g.uniqueFields(st.Name)
	fields, _ := g.w.allFields(st.Name)
	for _, f := range fields {
		owner := st.Name
		if g.fkTargetOf(owner, f.Name) == "" && st.Parent != "" {
			owner = st.Parent
		}
		if t := g.fkTargetOf(owner, f.Name); t != "" {
			troot := g.rootOf(t)
			al := g.aliveIds(troot)
			switch {
			case f.Ptr && g.r.chance(30):
				delete(op.F, f.Name)
			case len(al) == 0 && troot == root && f.Ptr:
				delete(op.F, f.Name)
			case len(al) == 0 && depth < 3 && troot != root:
				tid := g.pickId()
				txs = g.validCreate(txs, g.w.store(t), tid, depth+1)
				op.F[f.Name] = sp(tid)
			case len(al) > 0:
				op.F[f.Name] = sp(al[g.r.intn(len(al))])
			}
			continue
		}
		if uniq[f.Name] && g.r.chance(75) {
			op.F[f.Name] = sp("u" + id + st.Name[:1] + fmt.Sprint(g.r.intn(3)))
		}
	}
	g.alive[root][id] = true
	return append(txs, hTx{Sys: g.r.chance(50), Ops: []hOp{op}})
}

// genHistoryC06 returns the history and, for "never existed" runs, the half-open range [bstart, bend)
// of the transactions that form the block create X .. delete X (-1, -1 otherwise).
func (g *histGen) genHistoryC06(never bool) ([]hTx, int, int) {
	g.p.endInDelete = false
	g.alive = map[string]map[string]bool{}
	for _, s := range g.w.Stores {
		if s.Parent == "" {
			g.alive[s.Name] = map[string]bool{}
		}
	}
	var txs []hTx
	// phase 1: populate (valid references, so that the database is not almost empty)
	for i, n := 0, 3+g.r.intn(8); i < n; i++ {
		st := g.w.Stores[g.r.intn(len(g.w.Stores))]
		id := g.pickId()
		for try := 0; try < 4 && g.alive[g.rootOf(st.Name)][id]; try++ {
			id = g.pickId()
		}
		txs = g.validCreate(txs, st, id, 0)
	}
	// phase 2: random transactions of the shared generator (collisions, failures, vetoes, deletes, link ops)
	for i, n := 0, g.r.intn(6); i < n; i++ {
		txs = append(txs, g.genTx())
	}
	st := g.w.Stores[g.r.intn(len(g.w.Stores))]
	root := g.rootOf(st.Name)
	bstart, bend := -1, -1
	var x string
	if never {
		x = c06Reserved
		bstart = len(txs)
		txs = g.validCreate(txs, st, x, 3)
		txs[len(txs)-1].Sys = true
	} else {
		x = g.pickAlive(st.Name)
	}
	// churn on x before the delete: only operations whose subject is x in a "never" run (anything that
	// changes another entity for good would make the two runs differ legitimately)
	for i, n := 0, g.r.intn(4); i < n; i++ {
		t := hTx{Sys: g.r.chance(60)}
		for j, m := 0, 1+g.r.intn(2); j < m; j++ {
			op := g.opOn(st, x)
			if never && !(op.Id == x && (op.Kind == "UP" || op.Kind == "AL" || op.Kind == "RL")) {
				continue
			}
			t.Ops = append(t.Ops, op)
		}
		if len(t.Ops) > 0 {
			txs = append(txs, t)
		}
	}
	// re-parenting: move the referrers of x elsewhere so that restrict wirings let the delete through
	if !never && g.r.chance(50) {
		for _, d := range g.w.Script {
			if (d.Kind == "fkindex" || d.Kind == "fkindexcascade" || d.Kind == "fkcons") && g.rootOf(d.Target) == root {
				f := sField{}
				for _, ff := range g.w.store(d.Store).Fields {
					if ff.Name == d.Field {
						f = ff
					}
				}
				for _, y := range g.aliveIds(g.rootOf(d.Store)) {
					if y == x && g.rootOf(d.Store) == root {
						continue
					}
					op := hOp{Kind: "UP", Store: d.Store, Id: y, HasChk: true, Checker: []string{d.Field}}
					g.fieldsValue(&op)
					var others []string
					for _, z := range g.aliveIds(root) {
						if z != x {
							others = append(others, z)
						}
					}
					switch {
					case f.Ptr && (len(others) == 0 || g.r.chance(50)):
						delete(op.F, d.Field)
					case len(others) > 0:
						op.F[d.Field] = sp(others[g.r.intn(len(others))])
					default:
						continue
					}
					txs = append(txs, hTx{Sys: true, Ops: []hOp{op}})
				}
			}
		}
	}
	txs = append(txs, hTx{Sys: true, Ops: []hOp{{Kind: "D", Store: st.Name, Id: x}}})
	delete(g.alive[root], x)
	if never {
		bend = len(txs)
	}
	// re-create it: must behave like a fresh id; then keep working on it
	if g.r.chance(70) {
		txs = g.validCreate(txs, st, x, 3)
		txs[len(txs)-1].Sys = true
	} else {
		op := hOp{Kind: "C", Store: st.Name, Id: x, Sys: g.r.chance(g.p.pSysEntity)}
		g.fieldsValue(&op)
		txs = append(txs, hTx{Sys: true, Ops: []hOp{op}})
		g.alive[root][x] = true
	}
	for i, n := 0, 1+g.r.intn(4); i < n; i++ {
		t := hTx{Sys: g.r.chance(60)}
		for j, m := 0, 1+g.r.intn(2); j < m; j++ {
			t.Ops = append(t.Ops, g.opOn(st, x))
		}
		txs = append(txs, t)
	}
	return txs, bstart, bend
}

// ---- execution with the repository's own oracle ---------------------------------------------------

// deletedIds returns (root store, id) of every entity whose Deleted event was delivered in the observation
// segment or whose DeleteById returned nil in a committed transaction
func deletedIn(w *wiring, t *hTx, seg string) [][2]string {
	seen := map[string]bool{}
	var out [][2]string
	add := func(store, id string) {
		root := store
		if s := w.store(store); s != nil && s.Parent != "" {
			root = s.Parent
		}
		k := root + "\x00" + id
		if !seen[k] {
			seen[k] = true
			out = append(out, [2]string{root, id})
		}
	}
	toks := strings.Fields(seg)
	commit := false
	var results []string
	for i, tk := range toks {
		if i >= 2 && (tk == "COMMIT" || tk == "ROLLBACK") {
			commit = tk == "COMMIT"
			results = toks[2:i]
			break
		}
	}
	if !commit {
		return nil
	}
	for i, r := range results {
		if i < len(t.Ops) && t.Ops[i].Kind == "D" && r == "ok" {
			add(t.Ops[i].Store, t.Ops[i].Id)
		}
	}
	for _, tk := range toks {
		if strings.HasPrefix(tk, "EV:") {
			p := strings.Split(tk, ":")
			if len(p) == 5 && p[2] == "D" {
				add(p[1], string(unhx(p[3])))
			}
		}
	}
	sort.Slice(out, func(i, j int) bool { return out[i][0]+"\x00"+out[i][1] < out[j][0]+"\x00"+out[j][1] })
	return out
}

func (h *harnessDb) runTxC06(t *hTx) string {
	seg := h.runTx(t)
	var vd strings.Builder
	_ = h.db.View(func(tx *bbolt.Tx) error {
		for _, d := range deletedIn(h.w, t, seg) {
			res := "ok"
			if err := boltz.ValidateDeleted(tx, d[1]); err != nil {
				res = "found"
			}
			fmt.Fprintf(&vd, " VD:%s:%s:%s", d[0], hxs(d[1]), res)
		}
		return nil
	})
	if vd.Len() == 0 {
		return seg
	}
	pos := strings.Index(seg, " ST ") // the token that starts the facts
	if pos < 0 {
		return seg
	}
	return seg[:pos] + vd.String() + seg[pos:]
}

func runHistoryC06(w *wiring, txs []hTx, dir string) (string, []string, error) {
	h, err := openHarnessDb(w, dir)
	if err != nil {
		return "", nil, err
	}
	defer h.close()
	var c strings.Builder
	var obs []string
	c.WriteString(w.text())
	for i := range txs {
		c.WriteString(" ")
		c.WriteString(w.txText(&txs[i]))
		obs = append(obs, h.runTxC06(&txs[i]))
	}
	return c.String(), obs, nil
}

// one case: run 1 (whole history), and when [bstart,bend) is given run 2 without that block
func c06Case(w *wiring, txs []hTx, bstart, bend int, tmp string) (string, string, string, error) {
	c, obs, err := runHistoryC06(w, txs, tmp)
	if err != nil {
		return "", "", "", err
	}
	never := "-"
	if bstart >= 0 && bend > bstart && bend <= len(txs) {
		w2 := wiringByName(w.Name)
		w2.derive()
		txs2 := append(append([]hTx{}, txs[:bstart]...), txs[bend:]...)
		_, obs2, err := runHistoryC06(w2, txs2, tmp)
		if err != nil {
			return "", "", "", err
		}
		never = fmt.Sprintf("%d %d %s", bstart, bend, strings.Join(obs2[bstart:], ""))
	}
	return c, strings.Join(obs, ""), never, nil
}

func runStoreC06(o *opts) error {
	cases := newLineWriter(o.out, "cases.txt")
	impl := newLineWriter(o.out, "impl.txt")
	nev := newLineWriter(o.out, "never.txt")
	defer cases.close()
	defer impl.close()
	defer nev.close()
	tmp := o.get("tmp", os.TempDir())
	stats := map[string]int{}
	n := 400
	if o.thorough() {
		n = 6000
	}
	if o.n > 0 || o.get("corpus", "") != "" {
		n = o.n
	}
	if cp := o.get("corpus", ""); cp != "" {
		data, err := os.ReadFile(cp)
		if err != nil {
			return err
		}
		for _, line := range strings.Split(string(data), "\n") {
			line = strings.TrimSpace(line)
			if line == "" || strings.HasPrefix(line, "#") {
				continue
			}
			bstart, bend := -1, -1
			if strings.HasPrefix(line, "NEVER ") {
				var rest string
				parts := strings.SplitN(line, " ", 4)
				if len(parts) != 4 {
					return fmt.Errorf("corpus %s: bad NEVER prefix", cp)
				}
				fmt.Sscanf(parts[1], "%d", &bstart)
				fmt.Sscanf(parts[2], "%d", &bend)
				rest = parts[3]
				line = rest
			}
			w, txs, err := parseCase(line)
			if err != nil {
				return fmt.Errorf("corpus %s: %v", cp, err)
			}
			c, obs, never, err := c06Case(w, txs, bstart, bend, tmp)
			if err != nil {
				return err
			}
			cases.line("%s", c)
			impl.line("%s", obs)
			nev.line("%s", never)
			stats["corpus"]++
		}
	}
	r := newRng(o.seed)
	for i := 0; i < n; i++ {
		prof := profileFor("c06")
		w := wiringByName(prof.wirings[i%len(prof.wirings)])
		w.derive()
		g := &histGen{r: r, w: w, p: prof, ids: prof.ids}
		never := (i/len(prof.wirings))%3 == 2
		txs, bstart, bend := g.genHistoryC06(never)
		c, obs, nv, err := c06Case(w, txs, bstart, bend, tmp)
		if err != nil {
			return err
		}
		cases.line("%s", c)
		impl.line("%s", obs)
		nev.line("%s", nv)
		stats["histories"]++
		stats["wiring_"+w.Name]++
		if never {
			stats["never_existed_runs"]++
		}
		stats["tx"] += len(txs)
		for _, t := range txs {
			stats["ops"] += len(t.Ops)
			for _, op := range t.Ops {
				stats["op_"+op.Kind]++
			}
		}
		stats["obs_commit"] += strings.Count(obs, " COMMIT")
		stats["obs_rollback"] += strings.Count(obs, " ROLLBACK")
		stats["validate_deleted_calls"] += strings.Count(obs, " VD:")
		stats["validate_deleted_found"] += strings.Count(obs, ":found")
	}
	// ---- ref-counted link collections
	nrc := o.getInt("rc", -1)
	if nrc < 0 {
		nrc = n / 4
	}
	rcc := newLineWriter(o.out, "rc_cases.txt")
	rci := newLineWriter(o.out, "rc_impl.txt")
	defer rcc.close()
	defer rci.close()
	if cp := o.get("rccorpus", ""); cp != "" {
		data, err := os.ReadFile(cp)
		if err != nil {
			return err
		}
		for _, line := range strings.Split(string(data), "\n") {
			line = strings.TrimSpace(line)
			if line == "" || strings.HasPrefix(line, "#") {
				continue
			}
			obs, err := runRcCase(line, tmp)
			if err != nil {
				return err
			}
			rcc.line("%s", line)
			rci.line("%s", obs)
			stats["rc_corpus"]++
		}
	}
	for i := 0; i < nrc; i++ {
		line := genRcCase(r)
		obs, err := runRcCase(line, tmp)
		if err != nil {
			return err
		}
		rcc.line("%s", line)
		rci.line("%s", obs)
		stats["rc_histories"]++
		stats["rc_tx"] += strings.Count(line, " TX")
	}
	writeJSON(o.out, "stats.json", stats)
	fmt.Fprintf(os.Stderr, "storec06: %d histories, %d rc histories\n", n, nrc)
	return nil
}

// ---- ref-counted link collections ---------------------------------------------------------------
//
// schema: root stores p and q, ref-counted link collection p.qs <-> q.ps (declared on both stores,
// like AddLinkCollection pairs), plus a plain unique index on p.name so a delete also runs a constraint.
// case line:  RC TX <nops> <op>... TX ...   with ops
//   C <store> <id> | D <store> <id> | INC <store> <id> <other> | DEC <store> <id> <other> | SET <store> <id> <other> <count>
// observation per transaction:  TX R <results> COMMIT|ROLLBACK [VD:..] ST <facts> |
// facts: E:<store>:<id>  RC:<store>:<id>:<field>:<member>:<count>  JUNK:..

type rcEnt struct {
	boltz.BaseExtEntity
	etype string
	Name  string
}

func (e *rcEnt) GetEntityType() string { return e.etype }

type rcStrategy struct{ etype string }

func (s *rcStrategy) NewEntity() *rcEnt { return &rcEnt{etype: s.etype} }
func (s *rcStrategy) FillEntity(e *rcEnt, b *boltz.TypedBucket) {
	e.LoadBaseValues(b)
	e.Name = b.GetStringOrError("name")
}
func (s *rcStrategy) PersistEntity(e *rcEnt, ctx *boltz.PersistContext) {
	e.SetBaseValues(ctx)
	ctx.SetString("name", e.Name)
}

type rcDb struct {
	db     *boltz.DbImpl
	path   string
	stores map[string]*boltz.BaseStore[*rcEnt]
	rc     map[string]boltz.RefCountedLinkCollection
	field  map[string]string
}

func openRcDb(dir string) (*rcDb, error) {
	path := filepath.Join(dir, fmt.Sprintf("rc-%d.db", os.Getpid()))
	_ = os.Remove(path)
	db, err := boltz.Open(path, "root")
	if err != nil {
		return nil, err
	}
	h := &rcDb{db: db, path: path, stores: map[string]*boltz.BaseStore[*rcEnt]{}, rc: map[string]boltz.RefCountedLinkCollection{},
		field: map[string]string{"p": "qs", "q": "ps"}}
	for _, name := range []string{"p", "q"} {
		name := name
		sd := boltz.StoreDefinition[*rcEnt]{
			EntityType:      name,
			EntityStrategy:  &rcStrategy{etype: name},
			BasePath:        []string{"stores"},
			EntityNotFoundF: func(id string) error { return boltz.NewNotFoundError(name, "id", id) },
		}
		st := boltz.NewBaseStore(sd)
		st.InitImpl(st)
		st.AddExtEntitySymbols()
		h.stores[name] = st
	}
	p, q := h.stores["p"], h.stores["q"]
	pname := p.AddSymbol("name", ast.NodeTypeString)
	q.AddSymbol("name", ast.NodeTypeString)
	pqs := p.AddFkSetSymbol("qs", q)
	qps := q.AddFkSetSymbol("ps", p)
	p.AddUniqueIndex(pname)
	h.rc["p"] = p.AddRefCountedLinkCollection(pqs, qps)
	h.rc["q"] = q.AddRefCountedLinkCollection(qps, pqs)
	err = db.Update(nil, func(ctx boltz.MutateContext) error {
		holder := &errHolder{}
		p.InitializeIndexes(ctx.Tx(), holder)
		q.InitializeIndexes(ctx.Tx(), holder)
		return holder.err
	})
	if err != nil {
		return nil, err
	}
	return h, nil
}

func (h *rcDb) close() {
	_ = h.db.Close()
	_ = os.Remove(h.path)
}

func genRcCase(r *rng) string {
	ids := []string{"a", "b", "c", c06Reserved}
	alive := map[string]map[string]bool{"p": {}, "q": {}}
	pick := func(store string, wantAlive bool) string {
		var xs []string
		for _, id := range ids {
			if alive[store][id] == wantAlive {
				xs = append(xs, id)
			}
		}
		if len(xs) == 0 || r.chance(12) {
			return ids[r.intn(len(ids))]
		}
		return xs[r.intn(len(xs))]
	}
	other := map[string]string{"p": "q", "q": "p"}
	var sb strings.Builder
	sb.WriteString("RC")
	ntx := 6 + r.intn(14)
	for t := 0; t < ntx; t++ {
		nops := 1
		if r.chance(25) {
			nops = 2 + r.intn(2)
		}
		fmt.Fprintf(&sb, " TX %d", nops)
		for k := 0; k < nops; k++ {
			store := []string{"p", "q"}[r.intn(2)]
			x := r.intn(100)
			if t < 4 {
				x = 0
			}
			switch {
			case x < 22:
				id := pick(store, false)
				alive[store][id] = true
				fmt.Fprintf(&sb, " C %s %s", store, hxs(id))
			case x < 42:
				id := pick(store, true)
				delete(alive[store], id)
				fmt.Fprintf(&sb, " D %s %s", store, hxs(id))
			case x < 75:
				fmt.Fprintf(&sb, " INC %s %s %s", store, hxs(pick(store, true)), hxs(pick(other[store], true)))
			case x < 88:
				fmt.Fprintf(&sb, " DEC %s %s %s", store, hxs(pick(store, true)), hxs(pick(other[store], true)))
			default:
				fmt.Fprintf(&sb, " SET %s %s %s %d", store, hxs(pick(store, true)), hxs(pick(other[store], true)), r.intn(4))
			}
		}
	}
	return sb.String()
}

func (h *rcDb) rcFacts() []string {
	var out []string
	_ = h.db.View(func(tx *bbolt.Tx) error {
		top := tx.Bucket([]byte("stores"))
		if top == nil {
			return nil
		}
		return top.ForEach(func(k, v []byte) error {
			name := string(k)
			b := top.Bucket(k)
			if b == nil {
				out = append(out, "JUNK:top:"+hx(k))
				return nil
			}
			if name == boltz.IndexesBucket {
				boltz.Traverse(b, "", &rcIdxVisitor{out: &out})
				return nil
			}
			return b.ForEach(func(ik, iv []byte) error {
				eb := b.Bucket(ik)
				if eb == nil {
					out = append(out, fmt.Sprintf("JUNK:E:%s:%s", name, hx(ik)))
					return nil
				}
				out = append(out, fmt.Sprintf("E:%s:%s", name, hx(ik)))
				return eb.ForEach(func(fk, fv []byte) error {
					sub := eb.Bucket(fk)
					if sub == nil || ignoredFields[string(fk)] {
						return nil
					}
					return sub.ForEach(func(mk, mv []byte) error {
						if len(mk) > 0 && boltz.FieldType(mk[0]) == boltz.TypeString {
							cnt := "?"
							if c := boltz.BytesToInt32(fieldBody(mv)); c != nil {
								cnt = fmt.Sprintf("%d", *c)
							}
							out = append(out, fmt.Sprintf("RC:%s:%s:%s:%s:%s", name, hx(ik), fk, hx(mk[1:]), cnt))
						} else {
							out = append(out, fmt.Sprintf("JUNK:RC:%s:%s:%s:%s", name, hx(ik), fk, hx(mk)))
						}
						return nil
					})
				})
			})
		})
	})
	sort.Strings(out)
	return out
}

func fieldBody(v []byte) []byte {
	if len(v) > 1 {
		return v[1:]
	}
	return nil
}

type rcIdxVisitor struct{ out *[]string }

func (v *rcIdxVisitor) VisitBucket(string, []byte, *bbolt.Bucket) bool { return true }
func (v *rcIdxVisitor) VisitKeyValue(path string, key, value []byte) bool {
	*v.out = append(*v.out, fmt.Sprintf("U:%s:%s:%s", strings.ReplaceAll(strings.TrimPrefix(path, "/"), "/", ":"), hx(key), hx(value)))
	return true
}

func runRcCase(line string, dir string) (string, error) {
	h, err := openRcDb(dir)
	if err != nil {
		return "", err
	}
	defer h.close()
	toks := strings.Fields(line)
	if len(toks) == 0 || toks[0] != "RC" {
		return "", fmt.Errorf("rc case must start with RC")
	}
	pos := 1
	next := func() string { t := toks[pos]; pos++; return t }
	var sb strings.Builder
	for pos < len(toks) {
		if next() != "TX" {
			return "", fmt.Errorf("rc case: expected TX")
		}
		var nops int
		fmt.Sscanf(next(), "%d", &nops)
		type rop struct {
			kind, store, id, other string
			count                  int
		}
		var ops []rop
		for k := 0; k < nops; k++ {
			op := rop{kind: next()}
			op.store, op.id = next(), string(unhx(next()))
			switch op.kind {
			case "INC", "DEC":
				op.other = string(unhx(next()))
			case "SET":
				op.other = string(unhx(next()))
				fmt.Sscanf(next(), "%d", &op.count)
			}
			ops = append(ops, op)
		}
		var results []string
		var deleted [][2]string
		err := h.db.Update(boltz.NewMutateContext(context.Background()), func(ctx boltz.MutateContext) error {
			for _, op := range ops {
				var e error
				st := h.stores[op.store]
				switch op.kind {
				case "C":
					ent := &rcEnt{etype: op.store, Name: op.store + "-" + op.id}
					ent.Id = op.id
					e = st.Create(ctx, ent)
				case "D":
					e = st.DeleteById(ctx, op.id)
					if e == nil {
						deleted = append(deleted, [2]string{op.store, op.id})
					}
				case "INC":
					_, e = h.rc[op.store].IncrementLinkCount(ctx.Tx(), []byte(op.id), []byte(op.other))
				case "DEC":
					_, e = h.rc[op.store].DecrementLinkCount(ctx.Tx(), []byte(op.id), []byte(op.other))
				case "SET":
					_, _, e = h.rc[op.store].SetLinkCount(ctx.Tx(), []byte(op.id), []byte(op.other), op.count)
				default:
					e = errors.New("bad rc op")
				}
				results = append(results, classify(e))
				if e != nil {
					return e
				}
			}
			return nil
		})
		sb.WriteString("TX R")
		for _, r := range results {
			sb.WriteString(" " + r)
		}
		if err == nil {
			sb.WriteString(" COMMIT")
			_ = h.db.View(func(tx *bbolt.Tx) error {
				for _, d := range deleted {
					res := "ok"
					if boltz.ValidateDeleted(tx, d[1]) != nil {
						res = "found"
					}
					fmt.Fprintf(&sb, " VD:%s:%s:%s", d[0], hxs(d[1]), res)
				}
				return nil
			})
		} else {
			sb.WriteString(" ROLLBACK")
		}
		sb.WriteString(" ST")
		for _, f := range h.rcFacts() {
			sb.WriteString(" " + f)
		}
		sb.WriteString(" | ")
	}
	return sb.String(), nil
}
