package main

// C06 - a committed delete leaves no trace of the entity's id.
//
// Sub-command "storec06" (built on the shared store harness, which it does not change):
//   * histories of profile c06: a random prefix, then churn on one entity X (patches, re-parenting,
//     link churn), a delete of X in a system context, the re-creation of X and a few more
//     transactions that keep working on X (update, links, referrers pointing at it, delete, create);
//   * after every committed transaction the repository's own oracle boltz.ValidateDeleted is run
//     for every id the transaction deleted (token VD:<root>:<id>:ok|found in front of " ST");
//   * "never existed" runs: for a third of the histories X is a reserved id that the prefix never
//     uses; the block B = create X .. churn .. delete X is cut out and the remaining history is
//     executed on a second, fresh database; the observations of the suffix (re-create and
//     continue) of both runs are written to never.txt and must be identical;
//   * a small stream over REF-COUNTED link collections (not part of the Coq store machine):
//     rc_cases.txt / rc_impl.txt, facts + ValidateDeleted after every transaction;
//   * BURST histories (section "bursts" below, wirings idx / fkc / casc / cl): the delete of X is one operation
//     of a transaction that has already written 3..6 neighbouring referrers / links / set values of X (or has
//     written to the referrers' store in another way), so that the cursor loops of the delete walk buckets
//     dirtied by the same transaction.

import (
	"context"
	"fmt"
	"os"
	"path/filepath"
	"sort"
	"strings"

	"github.com/openziti/storage/ast"
	"github.com/openziti/storage/boltz"
	"github.com/pkg/errors"
	"go.etcd.io/bbolt"
)

func init() {
	commands["storec06"] = runStoreC06
	extraWirings["cl"] = wiringC06Cl
}

// cl (bursts of C06 only; not in allWirings): a cascade wiring whose referrers also carry a set index, a unique
// index, a child store and a LINK COLLECTION with the store they cascade from, through both kinds of cascade
// (fk index with cascade delete, nullable fk constraint with CascadeDelete): link churn on a referrer is one more
// way of writing to the referrers' bucket before the delete, and the nested deletes of a cascade clean link sets
// that live inside the entity being deleted.  wf_notrace_b: Examples/C06Wirings.v cl_schema_wf.
func wiringC06Cl() *wiring {
	return &wiring{Name: "cl", Stores: []*sStore{
		{Name: "team", Fields: []sField{{Name: "name"}}, Sets: []string{"tagsx"}},
		{Name: "user", Fields: []sField{{Name: "name"}, {Name: "team"}, {Name: "lead", Ptr: true}}, Sets: []string{"roles"}},
		{Name: "agent", Parent: "user", Fields: []sField{{Name: "code", Ptr: true}}},
	}, Script: []wiringDecl{
		{Kind: "unique", Store: "team", Field: "name"},
		{Kind: "setidx", Store: "team", Field: "tagsx"},
		{Kind: "fkindexcascade", Store: "user", Field: "team", Target: "team", Back: "users"},
		{Kind: "fkcons", Store: "user", Field: "lead", Target: "team", Nullable: true, Casc: "D"},
		{Kind: "unique", Store: "user", Field: "name"},
		{Kind: "setidx", Store: "user", Field: "roles"},
		{Kind: "unique", Store: "agent", Field: "code", Nullable: true},
		{Kind: "link", Store: "user", Field: "grp", Target: "team", Back: "mem"},
	}}
}

var c06BurstWirings = []string{"idx", "fkc", "casc", "cl"}

const c06Reserved = "zq"

// ---- history tail ------------------------------------------------------------------------------


// an operation that works on entity x of store st (or refers to it)
func (g *histGen) opOn(st *sStore, x string) hOp {
	root := g.rootOf(st.Name)
	k := g.r.intn(100)
	switch {
	case k < 30: // full or patch update
		op := hOp{Kind: "UP", Store: st.Name, Id: x}
		if g.r.chance(30) {
			op.Store = root
		}
		g.fieldsValue(&op)
		if g.r.chance(55) {
			op.HasChk = true
			fields, sets := g.w.allFields(op.Store)
			for _, f := range fields {
				if g.r.chance(45) {
					op.Checker = append(op.Checker, f.Name)
				}
			}
			for _, sn := range sets {
				if g.r.chance(45) {
					op.Checker = append(op.Checker, sn)
				}
			}
		}
		return op
	case k < 55: // link churn with x as subject or as target
		if links := g.c06LinksOf(root, x); len(links) > 0 {
			lk := links[g.r.intn(len(links))]
			l := lk.l
			if g.r.chance(60) {
				op := hOp{Kind: "AL", Store: lk.store, Id: x, LinkF: l.Local}
				if g.r.chance(35) {
					op.Kind = "RL"
				}
				for i, n := 0, 1+g.r.intn(3); i < n; i++ {
					op.Targets = append(op.Targets, g.pickAlive(l.Other))
				}
				return op
			}
			op := hOp{Kind: "AL", Store: l.Other, Id: g.pickAlive(l.Other), LinkF: l.OtherField, Targets: []string{x}}
			if g.r.chance(35) {
				op.Kind = "RL"
			}
			if g.r.chance(40) {
				op.Targets = append(op.Targets, g.pickAlive(root))
			}
			return op
		}
		fallthrough
	case k < 75: // another entity starts to reference x (patch of exactly the fk field)
		var cands []wiringDecl
		for _, d := range g.w.Script {
			if (d.Kind == "fkindex" || d.Kind == "fkindexcascade" || d.Kind == "fkcons") && g.rootOf(d.Target) == root {
				cands = append(cands, d)
			}
		}
		if len(cands) > 0 {
			d := cands[g.r.intn(len(cands))]
			op := hOp{Kind: "UP", Store: d.Store, Id: g.pickAlive(d.Store)}
			g.fieldsValue(&op)
			op.F[d.Field] = sp(x)
			if g.r.chance(70) {
				op.HasChk = true
				op.Checker = []string{d.Field}
			}
			return op
		}
		fallthrough
	case k < 88:
		op := hOp{Kind: "D", Store: st.Name, Id: x}
		if g.r.chance(30) {
			op.Store = root
		}
		return op
	default:
		op := hOp{Kind: "C", Store: st.Name, Id: x, Sys: g.r.chance(g.p.pSysEntity)}
		g.fieldsValue(&op)
		return op
	}
}

// fields of a store that carry a unique index / a foreign key (from the wiring script)
func (g *histGen) uniqueFields(store string) map[string]bool {
	m := map[string]bool{}
	for _, d := range g.w.Script {
		if d.Kind == "unique" && (d.Store == store || d.Store == g.rootOf(store)) {
			m[d.Field] = true
		}
	}
	return m
}


// validCreate appends transactions that create entity id of store st with references that exist
// (creating missing targets of non-nullable references first) and mostly collision-free unique values
func (g *histGen) validCreate(txs []hTx, st *sStore, id string, depth int) []hTx {
	root := g.rootOf(st.Name)
	op := hOp{Kind: "C", Store: st.Name, Id: id, Sys: g.r.chance(g.p.pSysEntity)}
	g.fieldsValue(&op)
	uniq := g.uniqueFields(st.Name)
	fields, _ := g.w.allFields(st.Name)
	for _, f := range fields {
		owner := st.Name
		if g.fkTargetOf(owner, f.Name) == "" && st.Parent != "" {
			owner = st.Parent
		}
		if t := g.fkTargetOf(owner, f.Name); t != "" {
			troot := g.rootOf(t)
			al := g.aliveIds(troot)
			if c06ChildWirings[g.w.Name] {
				al = g.aliveIds(t) // the target may be a child store: the referenced entity must live in it
			}
			switch {
			case f.Ptr && g.r.chance(30):
				delete(op.F, f.Name)
			case len(al) == 0 && troot == root && f.Ptr:
				delete(op.F, f.Name)
			case len(al) == 0 && depth < 3 && troot != root:
				tid := g.pickId()
				txs = g.validCreate(txs, g.w.store(t), tid, depth+1)
				op.F[f.Name] = sp(tid)
			case len(al) > 0:
				op.F[f.Name] = sp(al[g.r.intn(len(al))])
			}
			continue
		}
		if uniq[f.Name] && g.r.chance(75) {
			op.F[f.Name] = sp("u" + id + st.Name[:1] + fmt.Sprint(g.r.intn(3)))
		}
	}
	g.alive[root][id] = true
	if c06ChildWirings[g.w.Name] && st.Name != root {
		g.c06MarkChild(st.Name, id)
	}
	return append(txs, hTx{Sys: g.r.chance(50), Ops: []hOp{op}})
}

// genHistoryC06 returns the history and, for "never existed" runs, the half-open range [bstart, bend)
// of the transactions that form the block create X .. delete X (-1, -1 otherwise).
func (g *histGen) genHistoryC06(never bool) ([]hTx, int, int) {
	g.p.endInDelete = false
	g.alive = map[string]map[string]bool{}
	for _, s := range g.w.Stores {
		if s.Parent == "" {
			g.alive[s.Name] = map[string]bool{}
		}
	}
	var txs []hTx
	// phase 1: populate (valid references, so that the database is not almost empty)
	for i, n := 0, 3+g.r.intn(8); i < n; i++ {
		st := g.w.Stores[g.r.intn(len(g.w.Stores))]
		id := g.pickId()
		for try := 0; try < 4 && g.alive[g.rootOf(st.Name)][id]; try++ {
			id = g.pickId()
		}
		txs = g.validCreate(txs, st, id, 0)
	}
	// phase 2: random transactions of the shared generator (collisions, failures, vetoes, deletes, link ops)
	for i, n := 0, g.r.intn(6); i < n; i++ {
		txs = append(txs, g.genTx())
	}
	st := g.w.Stores[g.r.intn(len(g.w.Stores))]
	root := g.rootOf(st.Name)
	bstart, bend := -1, -1
	var x string
	if never {
		x = c06Reserved
		bstart = len(txs)
		txs = g.validCreate(txs, st, x, 3)
		txs[len(txs)-1].Sys = true
	} else {
		x = g.pickAlive(st.Name)
	}
	// churn on x before the delete: only operations whose subject is x in a "never" run (anything that
	// changes another entity for good would make the two runs differ legitimately)
	for i, n := 0, g.r.intn(4); i < n; i++ {
		t := hTx{Sys: g.r.chance(60)}
		for j, m := 0, 1+g.r.intn(2); j < m; j++ {
			op := g.opOn(st, x)
			if never && !(op.Id == x && (op.Kind == "UP" || op.Kind == "AL" || op.Kind == "RL")) {
				continue
			}
			t.Ops = append(t.Ops, op)
		}
		if len(t.Ops) > 0 {
			txs = append(txs, t)
		}
	}
	// re-parenting: move the referrers of x elsewhere so that restrict wirings let the delete through
	if !never && g.r.chance(50) {
		for _, d := range g.w.Script {
			if (d.Kind == "fkindex" || d.Kind == "fkindexcascade" || d.Kind == "fkcons") && g.rootOf(d.Target) == root {
				f := sField{}
				for _, ff := range g.w.store(d.Store).Fields {
					if ff.Name == d.Field {
						f = ff
					}
				}
				for _, y := range g.aliveIds(g.rootOf(d.Store)) {
					if y == x && g.rootOf(d.Store) == root {
						continue
					}
					op := hOp{Kind: "UP", Store: d.Store, Id: y, HasChk: true, Checker: []string{d.Field}}
					g.fieldsValue(&op)
					var others []string
					for _, z := range g.aliveIds(root) {
						if z != x {
							others = append(others, z)
						}
					}
					switch {
					case f.Ptr && (len(others) == 0 || g.r.chance(50)):
						delete(op.F, d.Field)
					case len(others) > 0:
						op.F[d.Field] = sp(others[g.r.intn(len(others))])
					default:
						continue
					}
					txs = append(txs, hTx{Sys: true, Ops: []hOp{op}})
				}
			}
		}
	}
	txs = append(txs, hTx{Sys: true, Ops: []hOp{{Kind: "D", Store: st.Name, Id: x}}})
	delete(g.alive[root], x)
	if never {
		bend = len(txs)
	}
	// re-create it: must behave like a fresh id; then keep working on it
	if g.r.chance(70) {
		txs = g.validCreate(txs, st, x, 3)
		txs[len(txs)-1].Sys = true
	} else {
		op := hOp{Kind: "C", Store: st.Name, Id: x, Sys: g.r.chance(g.p.pSysEntity)}
		g.fieldsValue(&op)
		txs = append(txs, hTx{Sys: true, Ops: []hOp{op}})
		g.alive[root][x] = true
	}
	for i, n := 0, 1+g.r.intn(4); i < n; i++ {
		t := hTx{Sys: g.r.chance(60)}
		for j, m := 0, 1+g.r.intn(2); j < m; j++ {
			t.Ops = append(t.Ops, g.opOn(st, x))
		}
		txs = append(txs, t)
	}
	return txs, bstart, bend
}

// ---- bursts: a delete inside the transaction that wrote its referrers ---------------------------
//
// The tail above always issues the delete of X in a transaction of its own, so every cursor loop of the
// delete (cascade over the referrers, restrict lookup, link cleanup, set-index cleanup) walks pages that
// were committed earlier.  bbolt cursors behave differently on a bucket that the SAME transaction has
// already written (the leaf is an in-memory node: a delete shifts the keys under the cursor).  A burst
// history therefore puts the delete of X into a multi-operation transaction that first creates /
// re-points / updates / deletes 3..6 referrers of X with ids that are neighbours in the entities bucket
// (and optionally a second level of referrers below one of them, link churn, several set values), or
// that writes to the referrers' store in some other way before the delete (referrers committed earlier).
// The model gives the expected outcome of such a transaction; the no-trace oracle applies to everything
// the committed transaction deleted.

// ids used only by bursts: nothing of plainIds sorts between them, so they are neighbours in every bucket
var c06BurstIds = []string{"k1", "k2", "k3", "k4", "k5", "k6", "k7", "k8"}
var c06BurstIds2 = []string{"m1", "m2", "m3", "m4", "m5", "m6"}
var c06SetVals = []string{"r1", "r2", "r3", "r4", "r5", "r6"}

type c06Edge struct {
	d       wiringDecl
	cascade bool
	ptr     bool // the fk field may be nil
}

func (g *histGen) c06Edges() []c06Edge {
	var out []c06Edge
	for _, d := range g.w.Script {
		if d.Kind != "fkindex" && d.Kind != "fkindexcascade" && d.Kind != "fkcons" {
			continue
		}
		e := c06Edge{d: d, cascade: d.Kind == "fkindexcascade" || (d.Kind == "fkcons" && d.Casc == "D")}
		for _, f := range g.w.store(d.Store).Fields {
			if f.Name == d.Field {
				e.ptr = f.Ptr
			}
		}
		out = append(out, e)
	}
	return out
}

func c06CopyOp(op hOp) hOp {
	n := op
	n.F = map[string]*string{}
	n.S = map[string][]string{}
	for k, v := range op.F {
		n.F[k] = v
	}
	for k, v := range op.S {
		n.S[k] = append([]string{}, v...)
	}
	return n
}

// c06BurstCreate appends to ops a create of entity id through store st that is valid in the state the
// generator believes in: fk fields take the value fixed for them, else an existing target (a missing target
// of a non-nullable reference is created first, in the same transaction), unique fields a value derived from
// the id.  wide: the sets get 3..6 neighbouring values.
func (g *histGen) c06BurstCreate(ops []hOp, st *sStore, id string, fix map[string]*string, wide bool, depth int) []hOp {
	root := g.rootOf(st.Name)
	op := hOp{Kind: "C", Store: st.Name, Id: id, Sys: g.r.chance(8)}
	g.fieldsValue(&op)
	uniq := g.uniqueFields(st.Name)
	fields, sets := g.w.allFields(st.Name)
	for _, f := range fields {
		if v, ok := fix[f.Name]; ok {
			if v == nil {
				delete(op.F, f.Name)
			} else {
				op.F[f.Name] = v
			}
			continue
		}
		owner := st.Name
		if g.fkTargetOf(owner, f.Name) == "" && st.Parent != "" {
			owner = st.Parent
		}
		if t := g.fkTargetOf(owner, f.Name); t != "" {
			troot := g.rootOf(t)
			al := g.aliveIds(troot)
			if c06ChildWirings[g.w.Name] {
				al = g.aliveIds(t)
			}
			switch {
			case f.Ptr && (len(al) == 0 || g.r.chance(40) || (troot == root && g.r.chance(60))):
				delete(op.F, f.Name)
			case len(al) == 0 && depth < 3 && troot != root:
				tid := g.pickId()
				ops = g.c06BurstCreate(ops, g.w.store(t), tid, nil, false, depth+1)
				op.F[f.Name] = sp(tid)
			case len(al) > 0:
				op.F[f.Name] = sp(al[g.r.intn(len(al))])
			}
			continue
		}
		if uniq[f.Name] {
			if f.Ptr && g.r.chance(40) {
				delete(op.F, f.Name)
			} else {
				op.F[f.Name] = sp("w" + id)
			}
		}
	}
	for sn, l := range op.S { // an empty member makes the create fail (and with it the whole transaction)
		var keep []string
		for _, m := range l {
			if m != "" {
				keep = append(keep, m)
			}
		}
		op.S[sn] = keep
	}
	if wide {
		for _, sn := range sets {
			n := 3 + g.r.intn(4)
			from := g.r.intn(len(c06SetVals) - n + 1)
			op.S[sn] = append([]string{}, c06SetVals[from:from+n]...)
		}
	}
	g.alive[root][id] = true
	if c06ChildWirings[g.w.Name] && st.Name != root {
		g.c06MarkChild(st.Name, id)
	}
	return append(ops, op)
}

// c06Window returns n ids that are neighbours in sort order
func (g *histGen) c06Window(pool []string, n int) []string {
	if n > len(pool) {
		n = len(pool)
	}
	from := g.r.intn(len(pool) - n + 1)
	return append([]string{}, pool[from:from+n]...)
}

// c06Attach appends, for every id, the operation that makes entity id of the edge's store reference parent x:
// a create when the generator believes the id is free, a patch of exactly the fk field otherwise.  created
// collects the create operations (for later full updates).
func (g *histGen) c06Attach(ops []hOp, e c06Edge, ids []string, x string, created map[string]hOp) []hOp {
	rroot := g.rootOf(e.d.Store)
	for _, id := range ids {
		if rroot == g.rootOf(e.d.Target) && id == x {
			continue
		}
		if g.alive[rroot][id] {
			if e.d.Store != rroot && c06ChildWirings[g.w.Name] && !g.alive[e.d.Store][id] {
				continue // lives in the parent store only: the child store's fk field cannot be written for it
			}
			op := hOp{Kind: "UP", Store: e.d.Store, Id: id, HasChk: true, Checker: []string{e.d.Field}}
			g.fieldsValue(&op)
			op.F[e.d.Field] = sp(x)
			ops = append(ops, op)
			continue
		}
		st := g.w.store(e.d.Store)
		if g.r.chance(30) {
			for _, c := range g.w.Stores {
				if c.Parent == st.Name {
					st = c
				}
			}
		}
		ops = g.c06BurstCreate(ops, st, id, map[string]*string{e.d.Field: sp(x)}, g.r.chance(25), 0)
		created[id] = ops[len(ops)-1]
	}
	return ops
}

// c06Release appends the operation that stops referrer id referencing x (needed before a restrict delete)
func (g *histGen) c06Release(ops []hOp, e c06Edge, id, x string) []hOp {
	troot := g.rootOf(e.d.Target)
	var others []string
	for _, z := range g.aliveIds(troot) {
		if z != x {
			others = append(others, z)
		}
	}
	op := hOp{Kind: "UP", Store: e.d.Store, Id: id, HasChk: true, Checker: []string{e.d.Field}}
	g.fieldsValue(&op)
	switch {
	case g.r.chance(30) || (!e.ptr && len(others) == 0):
		g.markDeleted(e.d.Store, id)
		return append(ops, hOp{Kind: "D", Store: e.d.Store, Id: id})
	case e.ptr && (len(others) == 0 || g.r.chance(50)):
		delete(op.F, e.d.Field)
	default:
		op.F[e.d.Field] = sp(others[g.r.intn(len(others))])
	}
	return append(ops, op)
}

// c06Churn appends 0..3 operations on the referrers written so far: full update (same references, other plain
// values), delete of one of them, link churn between a referrer / x and entities of the linked store
func (g *histGen) c06Churn(ops []hOp, e c06Edge, ids []string, x string, created map[string]hOp) []hOp {
	rroot := g.rootOf(e.d.Store)
	for i, n := 0, g.r.intn(4); i < n && len(ids) > 0; i++ {
		id := ids[g.r.intn(len(ids))]
		switch k := g.r.intn(100); {
		case k < 40:
			if c, ok := created[id]; ok && g.alive[rroot][id] {
				op := c06CopyOp(c)
				op.Kind = "UP"
				for _, f := range g.w.store(rroot).Fields {
					if g.fkTargetOf(rroot, f.Name) == "" && !g.uniqueFields(rroot)[f.Name] {
						op.F[f.Name] = sp(g.p.vals[g.r.intn(len(g.p.vals))])
					}
				}
				ops = append(ops, op)
			}
		case k < 65:
			if g.alive[rroot][id] {
				g.markDeleted(rroot, id)
				ops = append(ops, hOp{Kind: "D", Store: e.d.Store, Id: id})
			}
		default:
			ops = g.c06LinkOps(ops, rroot, id)
			ops = g.c06LinkOps(ops, g.rootOf(e.d.Target), x)
		}
	}
	return ops
}

// c06LinkOps: entity id of root store root gets links to a window of neighbouring entities of the linked store
// (missing ones are created first), some are removed again
func (g *histGen) c06LinkOps(ops []hOp, root, id string) []hOp {
	links := g.c06LinksOf(root, id)
	if len(links) == 0 || !g.alive[root][id] {
		return ops
	}
	lk := links[g.r.intn(len(links))]
	l := lk.l
	root = lk.store // the store that declares the collection (the root store, or a child store the entity lives in)
	oroot := g.rootOf(l.Other)
	if c06ChildWirings[g.w.Name] {
		oroot = l.Other // the linked entities must live in the (child) store on the other side
	}
	pool := c06BurstIds2
	if g.r.chance(30) {
		pool = append(append([]string{}, plainIds...), c06BurstIds2...)
	}
	win := g.c06Window(pool, 3+g.r.intn(3))
	if c06ChildWirings[g.w.Name] && oroot != g.rootOf(l.Other) {
		// an id that is taken by an entity of the parent store which does not live in the child store cannot be linked
		var keep []string
		for _, t := range win {
			if !g.alive[g.rootOf(l.Other)][t] || g.alive[oroot][t] {
				keep = append(keep, t)
			}
		}
		if len(keep) == 0 {
			return ops
		}
		win = keep
	}
	for _, t := range win {
		if !g.alive[oroot][t] {
			ops = g.c06BurstCreate(ops, g.w.store(l.Other), t, nil, false, 0)
		}
	}
	if g.r.chance(50) {
		ops = append(ops, hOp{Kind: "AL", Store: root, Id: id, LinkF: l.Local, Targets: win})
	} else {
		for _, t := range win {
			ops = append(ops, hOp{Kind: "AL", Store: l.Other, Id: t, LinkF: l.OtherField, Targets: []string{id}})
		}
	}
	if g.r.chance(40) {
		ops = append(ops, hOp{Kind: "RL", Store: root, Id: id, LinkF: l.Local, Targets: []string{win[g.r.intn(len(win))]}})
	}
	return ops
}

// genBurstC06 returns the history and the index of the transaction that contains the delete of X
// The history is generated against the live database h: every transaction that is complete is executed
// at once (observations appended to obs) and the generator's belief about which ids exist is refreshed from
// the database, so that the multi-operation delete transaction is mostly valid (it is rolled back as a whole
// when one operation fails).
func (g *histGen) genBurstC06(h *harnessDb, stats map[string]int) ([]hTx, []string, int) {
	g.p.endInDelete = false
	g.alive = map[string]map[string]bool{}
	for _, s := range g.w.Stores {
		if s.Parent == "" {
			g.alive[s.Name] = map[string]bool{}
		}
	}
	var txs []hTx
	var obs []string
	sync := func() {
		for len(obs) < len(txs) {
			c06Route(g.w, &txs[len(obs)])
			obs = append(obs, h.runTxC06(&txs[len(obs)]))
		}
		g.refresh(h)
	}
	for i, n := 0, 1+g.r.intn(5); i < n; i++ {
		st := g.w.Stores[g.r.intn(len(g.w.Stores))]
		id := g.pickId()
		for try := 0; try < 4 && g.alive[g.rootOf(st.Name)][id]; try++ {
			id = g.pickId()
		}
		txs = g.validCreate(txs, st, id, 0)
	}
	for i, n := 0, g.r.intn(3); i < n; i++ {
		txs = append(txs, g.genTx())
	}
	// from here on the burst ids count as ids of the history
	sync()
	g.ids = append(append(append([]string{}, g.ids...), c06BurstIds...), c06BurstIds2...)

	edges := g.c06Edges()
	var casc []c06Edge
	for _, e := range edges {
		if e.cascade {
			casc = append(casc, e)
		}
	}
	var e c06Edge
	var restr []c06Edge
	for _, e2 := range edges {
		if !e2.cascade {
			restr = append(restr, e2)
		}
	}
	hasLinks := false
	for _, s := range g.w.Stores {
		hasLinks = hasLinks || len(s.Links) > 0
	}
	linkOnly := false
	switch k := g.r.intn(100); {
	case hasLinks && (k < 15 || (len(casc) == 0 && k < 35)):
		linkOnly = true
		stats["burst_edge_link"]++
	case len(casc) > 0 && (k < 75 || len(restr) == 0):
		e = casc[g.r.intn(len(casc))]
		stats["burst_edge_cascade"]++
	default:
		e = restr[g.r.intn(len(restr))]
		stats["burst_edge_restrict"]++
	}

	sys := !g.r.chance(15)
	if linkOnly {
		// X of a store with a link collection: linked to 3..5 neighbours that the same transaction created, deleted there
		var roots []string
		for _, s := range g.w.Stores {
			if (s.Parent == "" || c06ChildWirings[g.w.Name]) && len(s.Links) > 0 {
				roots = append(roots, s.Name)
			}
		}
		cstore := roots[g.r.intn(len(roots))] // the store that declares the collection: a root store or (child-level wirings) a child store
		root := g.rootOf(cstore)
		x := c06Reserved
		var ops []hOp
		if al := g.aliveIds(cstore); len(al) > 0 && g.r.chance(40) {
			x = al[g.r.intn(len(al))]
		} else {
			ops = g.c06BurstCreate(ops, g.w.store(cstore), x, nil, true, 0)
		}
		if g.r.chance(35) && len(ops) > 0 {
			txs = append(txs, hTx{Sys: true, Ops: ops})
			ops = nil
			sync()
		}
		ops = g.c06LinkOps(ops, root, x)
		if g.r.chance(40) {
			ops = g.c06LinkOps(ops, root, x)
		}
		if g.r.chance(30) {
			txs = append(txs, hTx{Sys: true, Ops: ops})
			ops = nil
			sync()
			ops = g.c06LinkOps(ops, root, x)
		}
		dstore := root
		if cstore != root && g.r.chance(50) {
			dstore = cstore // delete through the child store
		}
		ops = append(ops, hOp{Kind: "D", Store: dstore, Id: x})
		g.markDeleted(root, x)
		txs = append(txs, hTx{Sys: sys, Ops: ops})
		bi := len(txs) - 1
		sync()
		txs = g.validCreate(txs, g.w.store(root), x, 3)
		sync()
		for i, n := 0, g.r.intn(3); i < n; i++ {
			txs = append(txs, hTx{Sys: g.r.chance(60), Ops: []hOp{g.opOn(g.w.store(root), x)}})
		}
		sync()
		return txs, obs, bi
	}

	troot := g.rootOf(e.d.Target)
	rroot := g.rootOf(e.d.Store)
	tstore := g.w.store(e.d.Target)
	// the parent X: a new entity (created in the burst) or an existing one
	x := c06Reserved
	var ops []hOp
	if al := g.aliveIds(troot); len(al) > 0 && g.r.chance(35) {
		x = al[g.r.intn(len(al))]
	} else {
		ops = g.c06BurstCreate(ops, tstore, x, nil, g.r.chance(50), 0)
	}
	pool := c06BurstIds
	if g.r.chance(30) {
		pool = append(append([]string{}, plainIds...), c06BurstIds...)
	}
	ids := g.c06Window(pool, 3+g.r.intn(4))
	created := map[string]hOp{}
	mode := g.r.intn(4)
	stats[fmt.Sprintf("burst_mode_%d", mode)]++
	commit := func() {
		if len(ops) > 0 {
			txs = append(txs, hTx{Sys: true, Ops: ops})
			ops = nil
			sync()
		}
	}
	// an operation that writes to the referrers' store without touching the references to x
	touch := func() {
		k := g.r.intn(100)
		if len(g.w.store(rroot).Links) > 0 && g.r.chance(45) {
			// link churn on a referrer (writes inside its entity bucket) or on x
			if g.r.chance(70) {
				ops = g.c06LinkOps(ops, rroot, ids[g.r.intn(len(ids))])
			} else {
				ops = g.c06LinkOps(ops, troot, x)
			}
			return
		}
		switch {
		case k < 35:
			free := ""
			for _, c := range append(append([]string{}, c06BurstIds...), plainIds...) {
				if !g.alive[rroot][c] && !(rroot == troot && c == x) {
					free = c
				}
			}
			if free != "" {
				fix := map[string]*string{}
				if e.ptr {
					fix[e.d.Field] = nil
				} else {
					for _, z := range g.aliveIds(troot) {
						if z != x {
							fix[e.d.Field] = sp(z)
						}
					}
				}
				ops = g.c06BurstCreate(ops, g.w.store(e.d.Store), free, fix, false, 0)
			}
		case k < 60:
			if c, ok := created[ids[g.r.intn(len(ids))]]; ok && g.alive[rroot][c.Id] {
				op := c06CopyOp(c)
				op.Kind = "UP"
				ops = append(ops, op)
			}
		case k < 80:
			id := ids[g.r.intn(len(ids))]
			if g.alive[rroot][id] {
				g.markDeleted(rroot, id)
				ops = append(ops, hOp{Kind: "D", Store: e.d.Store, Id: id})
			}
		default:
			// another entity of the referrers' store (not of the window) goes away first
			for _, z := range g.aliveIds(rroot) {
				if _, in := created[z]; !in && !(rroot == troot && z == x) {
					g.markDeleted(rroot, z)
					ops = append(ops, hOp{Kind: "D", Store: rroot, Id: z})
					break
				}
			}
		}
	}
	switch mode {
	case 0: // everything in one transaction
		ops = g.c06Attach(ops, e, ids, x, created)
	case 1: // referrers committed earlier; the delete transaction first writes to their store
		ops = g.c06Attach(ops, e, ids, x, created)
		commit()
		touch()
		if g.r.chance(30) {
			touch()
		}
	case 2: // part of the referrers committed earlier, the rest written by the delete transaction
		cut := 1 + g.r.intn(len(ids)-1)
		if g.r.chance(50) {
			ops = g.c06Attach(ops, e, ids[:cut], x, created)
			commit()
			ops = g.c06Attach(ops, e, ids[cut:], x, created)
		} else {
			var even, odd []string
			for i, id := range ids {
				if i%2 == 0 {
					even = append(even, id)
				} else {
					odd = append(odd, id)
				}
			}
			ops = g.c06Attach(ops, e, even, x, created)
			commit()
			ops = g.c06Attach(ops, e, odd, x, created)
		}
	case 3: // two parents with interleaved referrers, both deleted by the same transaction
		ops = g.c06Attach(ops, e, ids, x, created)
		if g.r.chance(50) {
			commit()
		}
	}
	// a second level below one (or all) of the referrers
	var e2 *c06Edge
	for i := range casc {
		if g.rootOf(casc[i].d.Target) == rroot && g.rootOf(casc[i].d.Store) != rroot && g.r.chance(70) {
			e2 = &casc[i]
		}
	}
	if e2 != nil && e.cascade {
		stats["burst_second_level"]++
		ids2 := g.c06Window(c06BurstIds2, 3+g.r.intn(3))
		created2 := map[string]hOp{}
		if g.r.chance(60) {
			ops = g.c06Attach(ops, *e2, ids2, ids[g.r.intn(len(ids))], created2)
		} else {
			for _, id2 := range ids2 {
				ops = g.c06Attach(ops, *e2, []string{id2}, ids[g.r.intn(len(ids))], created2)
			}
		}
	}
	if g.r.chance(45) {
		ops = g.c06Churn(ops, e, ids, x, created)
	}
	if len(g.w.store(rroot).Links) > 0 && g.r.chance(45) {
		ops = g.c06LinkOps(ops, rroot, ids[g.r.intn(len(ids))])
		if g.r.chance(50) {
			ops = g.c06LinkOps(ops, troot, x)
		}
	}
	y := ""
	if mode == 3 {
		// the second parent takes over every other referrer
		for _, c := range []string{"zr", "zs"} {
			if !g.alive[troot][c] && c != x {
				y = c
			}
		}
		ops = g.c06BurstCreate(ops, tstore, y, nil, false, 0)
		for i, id := range ids {
			if i%2 == 1 && g.alive[rroot][id] {
				op := hOp{Kind: "UP", Store: e.d.Store, Id: id, HasChk: true, Checker: []string{e.d.Field}}
				g.fieldsValue(&op)
				op.F[e.d.Field] = sp(y)
				ops = append(ops, op)
			}
		}
	}
	if !e.cascade && !g.r.chance(15) {
		for _, id := range ids {
			if g.alive[rroot][id] && !(rroot == troot && id == x) {
				ops = g.c06Release(ops, e, id, x)
			}
		}
		// other referrers of x from the prefix (through any restrict edge) are left alone: the delete is then refused
	}
	dstore := e.d.Target
	if g.r.chance(20) {
		for _, c := range g.w.Stores {
			if c.Parent == troot && g.r.chance(50) {
				dstore = c.Name
			}
		}
	}
	ops = append(ops, hOp{Kind: "D", Store: dstore, Id: x})
	g.markDeleted(troot, x)
	if y != "" && g.r.chance(75) {
		if !e.cascade {
			for _, id := range ids {
				if g.alive[rroot][id] {
					ops = g.c06Release(ops, e, id, y)
				}
			}
		}
		ops = append(ops, hOp{Kind: "D", Store: e.d.Target, Id: y})
		g.markDeleted(troot, y)
	}
	if e.cascade {
		for _, id := range ids {
			g.markDeleted(rroot, id)
		}
	}
	txs = append(txs, hTx{Sys: sys, Ops: ops})
	bi := len(txs) - 1
	sync()
	// re-create X (must behave like a fresh id) and keep working on it
	if g.r.chance(70) {
		txs = g.validCreate(txs, tstore, x, 3)
		txs[len(txs)-1].Sys = true
		sync()
		for i, n := 0, g.r.intn(3); i < n; i++ {
			txs = append(txs, hTx{Sys: g.r.chance(60), Ops: []hOp{g.opOn(tstore, x)}})
		}
		sync()
	}
	return txs, obs, bi
}

// ---- execution with the repository's own oracle ---------------------------------------------------

// deletedIds returns (root store, id) of every entity whose Deleted event was delivered in the observation
// segment or whose DeleteById returned nil in a committed transaction
func deletedIn(w *wiring, t *hTx, seg string) [][2]string {
	seen := map[string]bool{}
	var out [][2]string
	add := func(store, id string) {
		root := store
		if s := w.store(store); s != nil && s.Parent != "" {
			root = s.Parent
		}
		k := root + "\x00" + id
		if !seen[k] {
			seen[k] = true
			out = append(out, [2]string{root, id})
		}
	}
	toks := strings.Fields(seg)
	commit := false
	var results []string
	for i, tk := range toks {
		if i >= 2 && (tk == "COMMIT" || tk == "ROLLBACK") {
			commit = tk == "COMMIT"
			results = toks[2:i]
			break
		}
	}
	if !commit {
		return nil
	}
	for i, r := range results {
		if i < len(t.Ops) && t.Ops[i].Kind == "D" && r == "ok" {
			add(t.Ops[i].Store, t.Ops[i].Id)
		}
	}
	for _, tk := range toks {
		if strings.HasPrefix(tk, "EV:") {
			p := strings.Split(tk, ":")
			if len(p) == 5 && p[2] == "D" {
				add(p[1], string(unhx(p[3])))
			}
		}
	}
	sort.Slice(out, func(i, j int) bool { return out[i][0]+"\x00"+out[i][1] < out[j][0]+"\x00"+out[j][1] })
	return out
}

func (h *harnessDb) runTxC06(t *hTx) string {
	seg := h.runTx(t)
	var vd strings.Builder
	_ = h.db.View(func(tx *bbolt.Tx) error {
		for _, d := range deletedIn(h.w, t, seg) {
			res := "ok"
			if err := boltz.ValidateDeleted(tx, d[1]); err != nil {
				res = "found"
			}
			fmt.Fprintf(&vd, " VD:%s:%s:%s", d[0], hxs(d[1]), res)
		}
		return nil
	})
	if vd.Len() == 0 {
		return seg
	}
	pos := strings.Index(seg, " ST ") // the token that starts the facts
	if pos < 0 {
		return seg
	}
	return seg[:pos] + vd.String() + seg[pos:]
}

func runHistoryC06(w *wiring, txs []hTx, dir string) (string, []string, error) {
	h, err := openHarnessDb(w, dir)
	if err != nil {
		return "", nil, err
	}
	defer h.close()
	var c strings.Builder
	var obs []string
	c.WriteString(w.text())
	for i := range txs {
		c.WriteString(" ")
		c.WriteString(w.txText(&txs[i]))
		obs = append(obs, h.runTxC06(&txs[i]))
	}
	return c.String(), obs, nil
}

// one case: run 1 (whole history), and when [bstart,bend) is given run 2 without that block
func c06Case(w *wiring, txs []hTx, bstart, bend int, tmp string) (string, string, string, error) {
	c, obs, err := runHistoryC06(w, txs, tmp)
	if err != nil {
		return "", "", "", err
	}
	never := "-"
	if bstart >= 0 && bend > bstart && bend <= len(txs) {
		w2 := wiringByName(w.Name)
		w2.derive()
		txs2 := append(append([]hTx{}, txs[:bstart]...), txs[bend:]...)
		_, obs2, err := runHistoryC06(w2, txs2, tmp)
		if err != nil {
			return "", "", "", err
		}
		never = fmt.Sprintf("%d %d %s", bstart, bend, strings.Join(obs2[bstart:], ""))
	}
	return c, strings.Join(obs, ""), never, nil
}

func runStoreC06(o *opts) error {
	cases := newLineWriter(o.out, "cases.txt")
	impl := newLineWriter(o.out, "impl.txt")
	nev := newLineWriter(o.out, "never.txt")
	defer cases.close()
	defer impl.close()
	defer nev.close()
	tmp := o.get("tmp", os.TempDir())
	stats := map[string]int{}
	n := 400
	if o.thorough() {
		n = 6000
	}
	if o.n > 0 || o.get("corpus", "") != "" || o.get("rccorpus", "") != "" {
		n = o.n
	}
	if cp := o.get("corpus", ""); cp != "" {
		data, err := os.ReadFile(cp)
		if err != nil {
			return err
		}
		for _, line := range strings.Split(string(data), "\n") {
			line = strings.TrimSpace(line)
			if line == "" || strings.HasPrefix(line, "#") {
				continue
			}
			bstart, bend := -1, -1
			if strings.HasPrefix(line, "NEVER ") {
				var rest string
				parts := strings.SplitN(line, " ", 4)
				if len(parts) != 4 {
					return fmt.Errorf("corpus %s: bad NEVER prefix", cp)
				}
				fmt.Sscanf(parts[1], "%d", &bstart)
				fmt.Sscanf(parts[2], "%d", &bend)
				rest = parts[3]
				line = rest
			}
			w, txs, err := parseCase(line)
			if err != nil {
				return fmt.Errorf("corpus %s: %v", cp, err)
			}
			c, obs, never, err := c06Case(w, txs, bstart, bend, tmp)
			if err != nil {
				return err
			}
			cases.line("%s", c)
			impl.line("%s", obs)
			nev.line("%s", never)
			stats["corpus"]++
		}
	}
	r := newRng(o.seed)
	for i := 0; i < n; i++ {
		prof := profileFor("c06")
		w := wiringByName(prof.wirings[i%len(prof.wirings)])
		w.derive()
		g := &histGen{r: r, w: w, p: prof, ids: prof.ids}
		never := (i/len(prof.wirings))%3 == 2
		txs, bstart, bend := g.genHistoryC06(never)
		c, obs, nv, err := c06Case(w, txs, bstart, bend, tmp)
		if err != nil {
			return err
		}
		cases.line("%s", c)
		impl.line("%s", obs)
		nev.line("%s", nv)
		stats["histories"]++
		stats["wiring_"+w.Name]++
		if never {
			stats["never_existed_runs"]++
		}
		stats["tx"] += len(txs)
		for _, t := range txs {
			stats["ops"] += len(t.Ops)
			for _, op := range t.Ops {
				stats["op_"+op.Kind]++
			}
		}
		stats["obs_commit"] += strings.Count(obs, " COMMIT")
		stats["obs_rollback"] += strings.Count(obs, " ROLLBACK")
		stats["validate_deleted_calls"] += strings.Count(obs, " VD:")
		stats["validate_deleted_found"] += strings.Count(obs, ":found")
	}
	// ---- ref-counted link collections
	nrc := o.getInt("rc", -1)
	if nrc < 0 {
		nrc = n / 4
	}
	rcc := newLineWriter(o.out, "rc_cases.txt")
	rci := newLineWriter(o.out, "rc_impl.txt")
	defer rcc.close()
	defer rci.close()
	if cp := o.get("rccorpus", ""); cp != "" {
		data, err := os.ReadFile(cp)
		if err != nil {
			return err
		}
		for _, line := range strings.Split(string(data), "\n") {
			line = strings.TrimSpace(line)
			if line == "" || strings.HasPrefix(line, "#") {
				continue
			}
			obs, err := runRcCase(line, tmp)
			if err != nil {
				return err
			}
			rcc.line("%s", line)
			rci.line("%s", obs)
			stats["rc_corpus"]++
		}
	}
	for i := 0; i < nrc; i++ {
		line := genRcCase(r)
		obs, err := runRcCase(line, tmp)
		if err != nil {
			return err
		}
		rcc.line("%s", line)
		rci.line("%s", obs)
		stats["rc_histories"]++
		stats["rc_tx"] += strings.Count(line, " TX")
	}
	// ---- bursts (generated last: the streams above are the same as without them)
	nb := o.getInt("burst", -1)
	if nb < 0 {
		nb = n / 2
		if o.thorough() {
			nb = n / 4
		}
	}
	for i := 0; i < nb; i++ {
		prof := profileFor("c06")
		w := wiringByName(c06BurstWirings[i%len(c06BurstWirings)])
		w.derive()
		g := &histGen{r: r, w: w, p: prof, ids: prof.ids}
		stats["burst_wiring_"+w.Name]++
		h, err := openHarnessDb(w, tmp)
		if err != nil {
			return err
		}
		txs, obs, bi := g.genBurstC06(h, stats)
		h.close()
		var cb strings.Builder
		cb.WriteString(w.text())
		for k := range txs {
			cb.WriteString(" ")
			cb.WriteString(w.txText(&txs[k]))
		}
		c := cb.String()
		cases.line("%s", c)
		impl.line("%s", strings.Join(obs, ""))
		nev.line("%s", "-")
		stats["burst_histories"]++
		stats["burst_tx"] += len(txs)
		stats["burst_ops_in_delete_tx"] += len(txs[bi].Ops)
		if strings.Contains(obs[bi], " COMMIT") {
			stats["burst_delete_tx_committed"]++
			stats["burst_deleted_entities"] += strings.Count(obs[bi], " VD:")
		}
		stats["validate_deleted_calls"] += strings.Count(strings.Join(obs, ""), " VD:")
	}
	// ---- child-level wirings (store_c06_child.go; generated after everything else: the streams above are unchanged)
	nch := o.getInt("child", -1)
	if nch < 0 {
		nch = n / 2
		if o.thorough() {
			nch = n / 6
		}
	}
	for i := 0; i < nch; i++ {
		prof := profileFor("c06")
		w := wiringByName(c06ChildWiringNames[i%len(c06ChildWiringNames)])
		w.derive()
		g := &histGen{r: r, w: w, p: prof, ids: prof.ids}
		stats["child_wiring_"+w.Name]++
		kind := (i / len(c06ChildWiringNames)) % 4
		var c, obsLine, nv string
		var txs []hTx
		switch kind {
		case 3: // the tail of the main stream (offline generation; every other one as a never-existed run)
			never := (i/(4*len(c06ChildWiringNames)))%2 == 1
			var bstart, bend int
			txs, bstart, bend = g.genHistoryC06(never)
			for k := range txs {
				c06Route(w, &txs[k])
			}
			var err error
			c, obsLine, nv, err = c06Case(w, txs, bstart, bend, tmp)
			if err != nil {
				return err
			}
			stats["child_tail_histories"]++
			if never {
				stats["never_existed_runs"]++
			}
		default:
			h, err := openHarnessDb(w, tmp)
			if err != nil {
				return err
			}
			var obs []string
			if kind == 2 {
				txs, obs, _ = g.genBurstC06(h, stats)
				stats["child_burst_histories"]++
			} else {
				txs, obs = g.genChildC06(h, stats)
				stats["child_subject_histories"]++
			}
			h.close()
			var cb strings.Builder
			cb.WriteString(w.text())
			for k := range txs {
				cb.WriteString(" ")
				cb.WriteString(w.txText(&txs[k]))
			}
			c, obsLine, nv = cb.String(), strings.Join(obs, ""), "-"
		}
		cases.line("%s", c)
		impl.line("%s", obsLine)
		nev.line("%s", nv)
		stats["child_histories"]++
		stats["child_tx"] += len(txs)
		stats["child_obs_commit"] += strings.Count(obsLine, " COMMIT")
		stats["child_obs_rollback"] += strings.Count(obsLine, " ROLLBACK")
		stats["validate_deleted_calls"] += strings.Count(obsLine, " VD:")
		for _, t := range txs {
			for _, op := range t.Ops {
				if s := w.store(op.Store); s != nil && s.Parent != "" {
					stats["child_op_"+op.Kind+"_through_child_store"]++
				}
			}
		}
	}
	// ---- ref-counted link collections declared on child stores (generated last)
	nrcc := o.getInt("rcchild", -1)
	if nrcc < 0 {
		nrcc = nrc / 2
	}
	for i := 0; i < nrcc; i++ {
		line := genRcChildCase(r)
		obs, err := runRcCase(line, tmp)
		if err != nil {
			return err
		}
		rcc.line("%s", line)
		rci.line("%s", obs)
		stats["rc_child_histories"]++
		stats["rc_tx"] += strings.Count(line, " TX")
	}
	// ---- link sequences: one pair linked / unlinked / probed several times inside one transaction through the single-link
	// API (store_c06_links.go; generated after everything else: the streams above are unchanged)
	nls := o.getInt("linkseq", -1)
	if nls < 0 {
		nls = n / 2
		if o.thorough() {
			nls = n / 8
		}
	}
	for i := 0; i < nls; i++ {
		prof := profileFor("c06")
		w := wiringByName(c06LinkSeqWirings[i%len(c06LinkSeqWirings)])
		w.derive()
		g := &histGen{r: r, w: w, p: prof, ids: prof.ids}
		stats["linkseq_wiring_"+w.Name]++
		h, err := openHarnessDb(w, tmp)
		if err != nil {
			return err
		}
		txs, obs := g.genLinkSeqC06(h, stats)
		h.close()
		var cb strings.Builder
		cb.WriteString(w.text())
		for k := range txs {
			cb.WriteString(" ")
			cb.WriteString(w.txText(&txs[k]))
		}
		obsLine := strings.Join(obs, "")
		cases.line("%s", cb.String())
		impl.line("%s", obsLine)
		nev.line("%s", "-")
		stats["linkseq_histories"]++
		stats["linkseq_tx"] += len(txs)
		stats["linkseq_obs_commit"] += strings.Count(obsLine, " COMMIT")
		stats["linkseq_obs_rollback"] += strings.Count(obsLine, " ROLLBACK")
		stats["linkseq_bool_observations"] += strings.Count(obsLine, " LB:")
		stats["linkseq_deleted_entities"] += strings.Count(obsLine, " VD:")
		stats["validate_deleted_calls"] += strings.Count(obsLine, " VD:")
		for _, t := range txs {
			for _, op := range t.Ops {
				switch op.Kind {
				case "AL1", "RL1", "LQ", "AL", "RL":
					stats["linkseq_op_"+op.Kind]++
				}
			}
		}
	}
	nrs := o.getInt("rcseq", -1)
	if nrs < 0 {
		nrs = nrc / 2
	}
	for i := 0; i < nrs; i++ {
		line := genRcSeqCase(r)
		obs, err := runRcCase(line, tmp)
		if err != nil {
			return err
		}
		rcc.line("%s", line)
		rci.line("%s", obs)
		stats["rc_seq_histories"]++
		stats["rc_tx"] += strings.Count(line, " TX")
	}
	// ---- equal field names in sibling child stores / at parent and child level (store_c06_names.go; generated after
	// everything else: the streams above are unchanged)
	nsn := o.getInt("samename", -1)
	if nsn < 0 {
		nsn = n * 3 / 10
		if o.thorough() {
			nsn = n / 10
		}
	}
	if err := c06NameStream(o, r, nsn, tmp, stats, func(c, obs, nv string) {
		cases.line("%s", c)
		impl.line("%s", obs)
		nev.line("%s", nv)
	}); err != nil {
		return err
	}
	// ---- fields under a path prefix (store_c06_pfx.go; generated after everything else: the streams above are unchanged)
	npf := o.getInt("pfx", -1)
	if npf < 0 {
		npf = n * 3 / 10
		if o.thorough() {
			npf = n / 10
		}
	}
	if err := c06PfxStream(r, npf, tmp, stats, func(c, obs, nv string) {
		cases.line("%s", c)
		impl.line("%s", obs)
		nev.line("%s", nv)
	}); err != nil {
		return err
	}
	writeJSON(o.out, "stats.json", stats)
	fmt.Fprintf(os.Stderr, "storec06: %d same-name histories, %d path-prefix histories\n", nsn, npf)
	fmt.Fprintf(os.Stderr, "storec06: %d histories, %d rc histories, %d burst histories, %d child-level histories, %d rc child-level histories, %d link-sequence histories, %d rc sequence histories\n", n, nrc, nb, nch, nrcc, nls, nrs)
	return nil
}

// ---- ref-counted link collections ---------------------------------------------------------------
//
// schema: root stores p and q, ref-counted link collection p.qs <-> q.ps (declared on both stores,
// like AddLinkCollection pairs), plus a plain unique index on p.name so a delete also runs a constraint.
// case line:  RC TX <nops> <op>... TX ...   with ops
//   C <store> <id> | D <store> <id> | INC <store> <id> <other> | DEC <store> <id> <other> | SET <store> <id> <other> <count>
// observation per transaction:  TX R <results> COMMIT|ROLLBACK [VD:..] ST <facts> |
// facts: E:<store>:<id>  RC:<store>:<id>:<field>:<member>:<count>  JUNK:..

type rcEnt struct {
	boltz.BaseExtEntity
	etype string
	Name  string
}

func (e *rcEnt) GetEntityType() string { return e.etype }

type rcStrategy struct{ etype string }

func (s *rcStrategy) NewEntity() *rcEnt { return &rcEnt{etype: s.etype} }
func (s *rcStrategy) FillEntity(e *rcEnt, b *boltz.TypedBucket) {
	e.LoadBaseValues(b)
	e.Name = b.GetStringOrError("name")
}
func (s *rcStrategy) PersistEntity(e *rcEnt, ctx *boltz.PersistContext) {
	e.SetBaseValues(ctx)
	ctx.SetString("name", e.Name)
}

type rcDb struct {
	db     *boltz.DbImpl
	path   string
	stores map[string]*boltz.BaseStore[*rcEnt]
	rc     map[string]boltz.RefCountedLinkCollection
	field  map[string]string
}

func openRcDb(dir string, children bool) (*rcDb, error) {
	path := filepath.Join(dir, fmt.Sprintf("rc-%d.db", os.Getpid()))
	_ = os.Remove(path)
	db, err := boltz.Open(path, "root")
	if err != nil {
		return nil, err
	}
	h := &rcDb{db: db, path: path, stores: map[string]*boltz.BaseStore[*rcEnt]{}, rc: map[string]boltz.RefCountedLinkCollection{},
		field: map[string]string{"p": "qs", "q": "ps"}}
	for _, name := range []string{"p", "q"} {
		name := name
		sd := boltz.StoreDefinition[*rcEnt]{
			EntityType:      name,
			EntityStrategy:  &rcStrategy{etype: name},
			BasePath:        []string{"stores"},
			EntityNotFoundF: func(id string) error { return boltz.NewNotFoundError(name, "id", id) },
		}
		st := boltz.NewBaseStore(sd)
		st.InitImpl(st)
		st.AddExtEntitySymbols()
		h.stores[name] = st
	}
	p, q := h.stores["p"], h.stores["q"]
	pname := p.AddSymbol("name", ast.NodeTypeString)
	q.AddSymbol("name", ast.NodeTypeString)
	pqs := p.AddFkSetSymbol("qs", q)
	qps := q.AddFkSetSymbol("ps", p)
	p.AddUniqueIndex(pname)
	h.rc["p"] = p.AddRefCountedLinkCollection(pqs, qps)
	h.rc["q"] = q.AddRefCountedLinkCollection(qps, pqs)
	if children {
		c06RcAddChildren(h)
	}
	err = db.Update(nil, func(ctx boltz.MutateContext) error {
		holder := &errHolder{}
		for _, st := range h.stores {
			st.InitializeIndexes(ctx.Tx(), holder)
		}
		return holder.err
	})
	if err != nil {
		return nil, err
	}
	return h, nil
}

func (h *rcDb) close() {
	_ = h.db.Close()
	_ = os.Remove(h.path)
}

func genRcCase(r *rng) string {
	ids := []string{"a", "b", "c", c06Reserved}
	alive := map[string]map[string]bool{"p": {}, "q": {}}
	pick := func(store string, wantAlive bool) string {
		var xs []string
		for _, id := range ids {
			if alive[store][id] == wantAlive {
				xs = append(xs, id)
			}
		}
		if len(xs) == 0 || r.chance(12) {
			return ids[r.intn(len(ids))]
		}
		return xs[r.intn(len(xs))]
	}
	other := map[string]string{"p": "q", "q": "p"}
	var sb strings.Builder
	sb.WriteString("RC")
	ntx := 6 + r.intn(14)
	burstAt := -1
	if r.chance(40) {
		burstAt = 3 + r.intn(ntx-3)
	}
	for t := 0; t < ntx; t++ {
		if t == burstAt {
			// burst: an entity gets ref-counted links to 3..5 neighbouring entities written by the same
			// transaction (some counted twice, one decremented again) and is deleted there; in a second shape the
			// links are committed first and the delete transaction starts with another write to the same stores
			store := []string{"p", "q"}[r.intn(2)]
			x := "x1"
			n := 3 + r.intn(3)
			from := r.intn(len(c06BurstIds) - n + 1)
			win := c06BurstIds[from : from+n]
			var ops []string
			ops = append(ops, fmt.Sprintf("C %s %s", store, hxs(x)))
			for _, k := range win {
				ops = append(ops, fmt.Sprintf("C %s %s", other[store], hxs(k)))
			}
			for _, k := range win {
				if r.chance(50) {
					ops = append(ops, fmt.Sprintf("INC %s %s %s", store, hxs(x), hxs(k)))
				} else {
					ops = append(ops, fmt.Sprintf("INC %s %s %s", other[store], hxs(k), hxs(x)))
				}
				if r.chance(30) {
					ops = append(ops, fmt.Sprintf("INC %s %s %s", store, hxs(x), hxs(k)))
				}
			}
			if r.chance(40) {
				ops = append(ops, fmt.Sprintf("DEC %s %s %s", store, hxs(x), hxs(win[r.intn(n)])))
			}
			if r.chance(35) {
				fmt.Fprintf(&sb, " TX %d %s", len(ops), strings.Join(ops, " "))
				ops = nil
				switch r.intn(3) {
				case 0:
					ops = append(ops, fmt.Sprintf("C %s %s", other[store], hxs("k9")))
				case 1:
					ops = append(ops, fmt.Sprintf("D %s %s", other[store], hxs(win[r.intn(n)])))
				default:
					ops = append(ops, fmt.Sprintf("SET %s %s %s %d", store, hxs(x), hxs(win[r.intn(n)]), r.intn(3)))
				}
			}
			if r.chance(50) {
				ops = append(ops, fmt.Sprintf("D %s %s", store, hxs(x)))
			} else { // the other direction: one of the neighbours goes, then the hub
				ops = append(ops, fmt.Sprintf("D %s %s", other[store], hxs(win[r.intn(n)])), fmt.Sprintf("D %s %s", store, hxs(x)))
			}
			fmt.Fprintf(&sb, " TX %d %s", len(ops), strings.Join(ops, " "))
		}
		nops := 1
		if r.chance(25) {
			nops = 2 + r.intn(2)
		}
		fmt.Fprintf(&sb, " TX %d", nops)
		for k := 0; k < nops; k++ {
			store := []string{"p", "q"}[r.intn(2)]
			x := r.intn(100)
			if t < 4 {
				x = 0
			}
			switch {
			case x < 22:
				id := pick(store, false)
				alive[store][id] = true
				fmt.Fprintf(&sb, " C %s %s", store, hxs(id))
			case x < 42:
				id := pick(store, true)
				delete(alive[store], id)
				fmt.Fprintf(&sb, " D %s %s", store, hxs(id))
			case x < 75:
				fmt.Fprintf(&sb, " INC %s %s %s", store, hxs(pick(store, true)), hxs(pick(other[store], true)))
			case x < 88:
				fmt.Fprintf(&sb, " DEC %s %s %s", store, hxs(pick(store, true)), hxs(pick(other[store], true)))
			default:
				fmt.Fprintf(&sb, " SET %s %s %s %d", store, hxs(pick(store, true)), hxs(pick(other[store], true)), r.intn(4))
			}
		}
	}
	return sb.String()
}

func (h *rcDb) rcFacts() []string {
	var out []string
	_ = h.db.View(func(tx *bbolt.Tx) error {
		top := tx.Bucket([]byte("stores"))
		if top == nil {
			return nil
		}
		return top.ForEach(func(k, v []byte) error {
			name := string(k)
			b := top.Bucket(k)
			if b == nil {
				out = append(out, "JUNK:top:"+hx(k))
				return nil
			}
			if name == boltz.IndexesBucket {
				boltz.Traverse(b, "", &rcIdxVisitor{out: &out})
				return nil
			}
			return b.ForEach(func(ik, iv []byte) error {
				eb := b.Bucket(ik)
				if eb == nil {
					out = append(out, fmt.Sprintf("JUNK:E:%s:%s", name, hx(ik)))
					return nil
				}
				out = append(out, fmt.Sprintf("E:%s:%s", name, hx(ik)))
				return eb.ForEach(func(fk, fv []byte) error {
					sub := eb.Bucket(fk)
					if sub == nil || ignoredFields[string(fk)] {
						return nil
					}
					if c06RcChildStores[string(fk)] != "" {
						c06RcChildFacts(&out, name, hx(ik), string(fk), sub)
						return nil
					}
					return sub.ForEach(func(mk, mv []byte) error {
						if len(mk) > 0 && boltz.FieldType(mk[0]) == boltz.TypeString {
							cnt := "?"
							if c := boltz.BytesToInt32(fieldBody(mv)); c != nil {
								cnt = fmt.Sprintf("%d", *c)
							}
							out = append(out, fmt.Sprintf("RC:%s:%s:%s:%s:%s", name, hx(ik), fk, hx(mk[1:]), cnt))
						} else {
							out = append(out, fmt.Sprintf("JUNK:RC:%s:%s:%s:%s", name, hx(ik), fk, hx(mk)))
						}
						return nil
					})
				})
			})
		})
	})
	sort.Strings(out)
	return out
}

func fieldBody(v []byte) []byte {
	if len(v) > 1 {
		return v[1:]
	}
	return nil
}

type rcIdxVisitor struct{ out *[]string }

func (v *rcIdxVisitor) VisitBucket(string, []byte, *bbolt.Bucket) bool { return true }
func (v *rcIdxVisitor) VisitKeyValue(path string, key, value []byte) bool {
	*v.out = append(*v.out, fmt.Sprintf("U:%s:%s:%s", strings.ReplaceAll(strings.TrimPrefix(path, "/"), "/", ":"), hx(key), hx(value)))
	return true
}

func runRcCase(line string, dir string) (string, error) {
	toks := strings.Fields(line)
	if len(toks) == 0 || (toks[0] != "RC" && toks[0] != "RCC") {
		return "", fmt.Errorf("rc case must start with RC or RCC")
	}
	h, err := openRcDb(dir, toks[0] == "RCC")
	if err != nil {
		return "", err
	}
	defer h.close()
	pos := 1
	next := func() string { t := toks[pos]; pos++; return t }
	var sb strings.Builder
	for pos < len(toks) {
		if next() != "TX" {
			return "", fmt.Errorf("rc case: expected TX")
		}
		var nops int
		fmt.Sscanf(next(), "%d", &nops)
		type rop struct {
			kind, store, id, other string
			count                  int
		}
		var ops []rop
		for k := 0; k < nops; k++ {
			op := rop{kind: next()}
			op.store, op.id = next(), string(unhx(next()))
			switch op.kind {
			case "INC", "DEC":
				op.other = string(unhx(next()))
			case "SET":
				op.other = string(unhx(next()))
				fmt.Sscanf(next(), "%d", &op.count)
			}
			ops = append(ops, op)
		}
		var results []string
		var deleted [][2]string
		err := h.db.Update(boltz.NewMutateContext(context.Background()), func(ctx boltz.MutateContext) error {
			for _, op := range ops {
				var e error
				st := h.stores[op.store]
				switch op.kind {
				case "C":
					ent := &rcEnt{etype: c06RcRoot(op.store), Name: c06RcRoot(op.store) + "-" + op.id}
					ent.Id = op.id
					e = st.Create(ctx, ent)
				case "D":
					e = st.DeleteById(ctx, op.id)
					if e == nil {
						deleted = append(deleted, [2]string{c06RcRoot(op.store), op.id})
					}
				case "INC":
					_, e = h.rc[op.store].IncrementLinkCount(ctx.Tx(), []byte(op.id), []byte(op.other))
				case "DEC":
					_, e = h.rc[op.store].DecrementLinkCount(ctx.Tx(), []byte(op.id), []byte(op.other))
				case "SET":
					_, _, e = h.rc[op.store].SetLinkCount(ctx.Tx(), []byte(op.id), []byte(op.other), op.count)
				default:
					e = errors.New("bad rc op")
				}
				results = append(results, classify(e))
				if e != nil {
					return e
				}
			}
			return nil
		})
		sb.WriteString("TX R")
		for _, r := range results {
			sb.WriteString(" " + r)
		}
		if err == nil {
			sb.WriteString(" COMMIT")
			_ = h.db.View(func(tx *bbolt.Tx) error {
				for _, d := range deleted {
					res := "ok"
					if boltz.ValidateDeleted(tx, d[1]) != nil {
						res = "found"
					}
					fmt.Fprintf(&sb, " VD:%s:%s:%s", d[0], hxs(d[1]), res)
				}
				return nil
			})
		} else {
			sb.WriteString(" ROLLBACK")
		}
		sb.WriteString(" ST")
		for _, f := range h.rcFacts() {
			sb.WriteString(" " + f)
		}
		sb.WriteString(" | ")
	}
	return sb.String(), nil
}
