package main

import (
	"fmt"
	"math"
	"os"
	"path/filepath"
	"sort"
	"strconv"
	"strings"
	"time"

	"github.com/openziti/storage/ast"
	"github.com/openziti/storage/boltz"
	"go.etcd.io/bbolt"
)

// C02 - sort order, skip, limit and total count.  Case kinds (see coq/extraction/c02_driver.ml):
//
//	D <n> <ncols> { <id> <cell>*ncols }*n                       dataset (rows in ascending id order)
//	Q <bits> <nsort> { <col|id> <type> <a|d> }* <skip> <limit>   query on the current dataset
//	X ...                                                        same, dataset contains NaN sort keys
//	G / P ...                                                    tag masks / QueryWithCursorC over a cursor provider (c02prov.go)
//
// impl line for Q/X:  query=<count>:<ids> iter=<ids> wc=<count>:<ids>   (ERR / PANIC instead of a value)
// The shared q* helpers (datasets, cells, bolt loading) are also used by c19.go.
func init() { commands["c02"] = runC02 }

// ---- cells / rows / datasets ------------------------------------------------------------------

type qCell struct {
	kind byte // 'N' 'B' 'I' 'F' 'S' 'T'
	b    bool
	i    int64
	f    uint64 // IEEE bits
	s    string
	sec  int64
	nsec int64
	// representation detail in the bolt store: a null is either an absent key or an explicit nil;
	// an int may be stored as int32
	absent bool
	as32   bool
}

func (c qCell) token() string {
	switch c.kind {
	case 'N':
		return "N"
	case 'B':
		if c.b {
			return "B1"
		}
		return "B0"
	case 'I':
		return "I" + strconv.FormatInt(c.i, 10)
	case 'F':
		return fmt.Sprintf("F%016x", c.f)
	case 'S':
		return "S" + hxs(c.s)
	case 'T':
		return fmt.Sprintf("T%d:%d", c.sec, c.nsec)
	}
	panic("bad cell")
}

type qCol struct {
	name string
	typ  byte // b i f s t
}

// field names are letters only (IDENTIFIER in ZitiQl.g4)
var qCols = []qCol{{"fs", 's'}, {"fi", 'i'}, {"fj", 'i'}, {"ff", 'f'}, {"fb", 'b'}, {"ft", 't'}, {"keep", 'b'}, {"grp", 'i'}}

const (
	qColFs = iota
	qColFi
	qColFj
	qColFf
	qColFb
	qColFt
	qColKeep
	qColGrp
)

type qRow struct {
	id    string
	cells []qCell
}

type qDataset struct {
	rows     []qRow // ascending id order
	noBucket bool   // n == 0 and the entities bucket does not exist at all
	hasNaN   bool
}

func (d *qDataset) line() string {
	var b strings.Builder
	fmt.Fprintf(&b, "D %d %d", len(d.rows), len(qCols))
	for _, r := range d.rows {
		b.WriteByte(' ')
		b.WriteString(hxs(r.id))
		for _, c := range r.cells {
			b.WriteByte(' ')
			b.WriteString(c.token())
		}
	}
	return b.String()
}

var qIdParts = []string{"a", "b", "ab", "aa", "B", "z", "a-", "a b", "0", "10", "9", "\xc3\xa9", "\x01", "\xff", "a\x00", "ba", "b.", "Z"}
var qStrings = []string{"", "a", "ab", "b", "B", "a ", "aa", "\xc3\xa9", "z", "0", "10", "9"}
var qInts = []int64{math.MinInt64, -1, 0, 1, 7, 7, math.MaxInt64, 1 << 31, -(1 << 31) - 1, 42}
var qInt32s = []int64{math.MinInt32, -1, 0, 5, 5, math.MaxInt32, 42}
var qFloats = []float64{math.Inf(-1), -2.0, math.Copysign(0, -1), 0.0, 1.5, 1.5, math.SmallestNonzeroFloat64, math.Inf(1), 1e308, -1e-300, 42}
var qTimeCluster = [][2]int64{{100, 5}, {100, 4}, {100, 5}, {99, 999999999}, {100, 0}, {101, 0}, {100, 999999999}}
var qTimes = [][2]int64{{-1, 0}, {0, 0}, {100, 5}, {100, 4}, {100, 5}, {253402300799, 999999999}, {-62135596800, 0}, {1700000000, 123456789}, {99, 999999999}}

func qGenDataset(r *rng, n int, nan bool) *qDataset {
	d := &qDataset{}
	ids := map[string]bool{}
	for len(ids) < n {
		id := r.pick(qIdParts)
		for k := r.intn(3); k > 0; k-- {
			id += r.pick(qIdParts)
		}
		ids[id] = true
	}
	var sorted []string
	for id := range ids {
		sorted = append(sorted, id)
	}
	sort.Strings(sorted) // byte order
	nullPct := []int{0, 15, 30, 60}[r.intn(4)]
	for _, id := range sorted {
		row := qRow{id: id}
		for ci, col := range qCols {
			var c qCell
			isNull := r.chance(nullPct) && ci != qColGrp
			if isNull {
				c = qCell{kind: 'N', absent: r.chance(50)}
			} else {
				switch col.typ {
				case 's':
					c = qCell{kind: 'S', s: r.pick(qStrings)}
				case 'i':
					if ci == qColGrp {
						c = qCell{kind: 'I', i: int64(r.intn(5))}
					} else if ci == qColFj {
						c = qCell{kind: 'I', i: qInt32s[r.intn(len(qInt32s))], as32: true}
					} else {
						c = qCell{kind: 'I', i: qInts[r.intn(len(qInts))]}
					}
				case 'f':
					c = qCell{kind: 'F', f: math.Float64bits(qFloats[r.intn(len(qFloats))])}
				case 'b':
					c = qCell{kind: 'B', b: r.chance(50)}
				case 't':
					t := qTimes[r.intn(len(qTimes))]
					if r.chance(40) {
						// instants within the same second (only the nanoseconds differ) and its neighbours
						t = qTimeCluster[r.intn(len(qTimeCluster))]
					}
					c = qCell{kind: 'T', sec: t[0], nsec: t[1]}
				}
			}
			row.cells = append(row.cells, c)
		}
		d.rows = append(d.rows, row)
	}
	if nan && n > 0 {
		// NaN sort keys (two different payloads) on about a third of the rows, at least one
		for i := range d.rows {
			if i == 0 || r.chance(33) {
				bits := uint64(0x7ff8000000000000)
				if r.chance(50) {
					bits = 0xfff0000000000001
				}
				d.rows[i].cells[qColFf] = qCell{kind: 'F', f: bits}
				d.hasNaN = true
			}
		}
	}
	if n == 0 {
		d.noBucket = r.chance(50)
	}
	return d
}

// qProbeDataset is a fixed dataset whose columns are each ordered *against* the id order by their
// finest distinctions (instants within one second, integers beyond 2^53, floats beyond float32
// precision, -0.0 / 0.0, string prefixes, upper/lower case), so that a comparator that loses one of
// them is caught by every run whatever the seed
func qProbeDataset() *qDataset {
	S := func(v string) qCell { return qCell{kind: 'S', s: v} }
	I := func(v int64) qCell { return qCell{kind: 'I', i: v} }
	J := func(v int64) qCell { return qCell{kind: 'I', i: v, as32: true} }
	F := func(v float64) qCell { return qCell{kind: 'F', f: math.Float64bits(v)} }
	B := func(v bool) qCell { return qCell{kind: 'B', b: v} }
	T := func(sec, nsec int64) qCell { return qCell{kind: 'T', sec: sec, nsec: nsec} }
	N := qCell{kind: 'N'}
	NA := qCell{kind: 'N', absent: true}
	d := &qDataset{}
	d.rows = []qRow{
		{"a", []qCell{S("b"), I(math.MaxInt64), J(5), F(1e308), B(true), T(101, 0), B(true), I(0)}},
		{"b", []qCell{S("ab"), I(math.MaxInt64 - 1), J(5), F(1.5000000000000002), B(false), T(100, 999999999), B(false), I(1)}},
		{"c", []qCell{S("aa"), I(1<<53 + 1), J(math.MaxInt32), F(1.5), N, T(100, 5), N, I(2)}},
		{"d", []qCell{S("a "), I(1 << 53), J(math.MinInt32), F(5e-324), B(true), T(100, 4), B(true), I(3)}},
		{"e", []qCell{S("a"), I(0), NA, F(0.0), B(false), T(100, 0), B(false), I(4)}},
		{"f", []qCell{S("B"), I(-1), J(0), F(math.Copysign(0, -1)), NA, T(99, 999999999), B(true), I(2)}},
		{"g", []qCell{S(""), I(math.MinInt64), J(-1), F(-2), B(true), T(-1, 0), NA, I(1)}},
		{"h", []qCell{NA, N, J(5), N, B(false), N, B(false), I(3)}},
	}
	return d
}

// ---- bolt side ----------------------------------------------------------------------------------

type qBolt struct {
	db   *bbolt.DB
	file string
	seq  int
}

func qOpenBolt(dir string) (*qBolt, error) {
	f := filepath.Join(dir, fmt.Sprintf("q-%d.db", os.Getpid()))
	_ = os.Remove(f)
	db, err := bbolt.Open(f, 0o600, &bbolt.Options{NoSync: true, NoFreelistSync: true, Timeout: 5 * time.Second})
	if err != nil {
		return nil, err
	}
	return &qBolt{db: db, file: f}, nil
}

func (q *qBolt) close() {
	_ = q.db.Close()
	_ = os.Remove(q.file)
}

// load writes the dataset under a fresh base path and returns a store that can query it
func (q *qBolt) load(d *qDataset) (boltz.ConfigurableStore, error) {
	q.seq++
	base := fmt.Sprintf("ds%d", q.seq)
	def := (&boltz.StoreDefinition[boltz.Entity]{EntityType: "rows"}).WithBasePath(base)
	store := boltz.NewBaseStore(*def)
	store.AddIdSymbol("id", ast.NodeTypeString)
	for _, col := range qCols {
		switch col.typ {
		case 's':
			store.AddSymbol(col.name, ast.NodeTypeString)
		case 'i':
			store.AddSymbol(col.name, ast.NodeTypeInt64)
		case 'f':
			store.AddSymbol(col.name, ast.NodeTypeFloat64)
		case 'b':
			store.AddSymbol(col.name, ast.NodeTypeBool)
		case 't':
			store.AddSymbol(col.name, ast.NodeTypeDatetime)
		}
	}
	err := q.db.Update(func(tx *bbolt.Tx) error {
		if d.noBucket {
			return nil
		}
		bucket := boltz.GetOrCreatePath(tx, base, "rows")
		for _, r := range d.rows {
			eb := bucket.GetOrCreatePath(r.id)
			for ci, c := range r.cells {
				name := qCols[ci].name
				switch c.kind {
				case 'N':
					if !c.absent {
						eb.SetNil(name)
					}
				case 'S':
					eb.SetString(name, c.s, nil)
				case 'I':
					if c.as32 {
						eb.SetInt32(name, int32(c.i), nil)
					} else {
						eb.SetInt64(name, c.i, nil)
					}
				case 'F':
					eb.SetFloat64(name, math.Float64frombits(c.f), nil)
				case 'B':
					eb.SetBool(name, c.b, nil)
				case 'T':
					t := time.Unix(c.sec, c.nsec).UTC()
					eb.SetTimeP(name, &t, nil)
				}
			}
			if eb.Err != nil {
				return eb.Err
			}
		}
		return bucket.Err
	})
	return store, err
}

// ---- queries ------------------------------------------------------------------------------------

type qSortField struct {
	col int // -1 = id
	asc bool
	// surface spelling
	spell int // 0: explicit ASC/DESC, 1: lower case, 2: direction omitted (ascending only)
}

type qQuery struct {
	filter int // index into qFilters
	sort   []qSortField
	skip   *int64
	limit  *int64 // nil = absent
	none   bool   // limit none
}

type qFilter struct {
	text  string // "" = predicate omitted
	match func(r *qRow) bool
}

var qFilters = []qFilter{
	{"true", func(*qRow) bool { return true }},
	{"keep = true", func(r *qRow) bool { c := r.cells[qColKeep]; return c.kind == 'B' && c.b }},
	{"not (keep = true)", func(r *qRow) bool { c := r.cells[qColKeep]; return !(c.kind == 'B' && c.b) }},
	{"grp >= 2", func(r *qRow) bool { return r.cells[qColGrp].i >= 2 }},
	{"", func(*qRow) bool { return true }},
	{"false", func(*qRow) bool { return false }},
	{"grp = 1 or grp = 3", func(r *qRow) bool { g := r.cells[qColGrp].i; return g == 1 || g == 3 }},
}

func (q *qQuery) text() string {
	var parts []string
	if f := qFilters[q.filter].text; f != "" {
		parts = append(parts, f)
	}
	if len(q.sort) > 0 {
		var fs []string
		for _, s := range q.sort {
			name := "id"
			if s.col >= 0 {
				name = qCols[s.col].name
			}
			switch {
			case s.asc && s.spell == 2:
			case s.asc && s.spell == 1:
				name += " asc"
			case s.asc:
				name += " ASC"
			case s.spell == 1:
				name += " desc"
			default:
				name += " DESC"
			}
			fs = append(fs, name)
		}
		kw := "sort by "
		if len(q.sort)%2 == 0 {
			kw = "SORT BY "
		}
		parts = append(parts, kw+strings.Join(fs, ", "))
	}
	if q.skip != nil {
		parts = append(parts, "skip "+strconv.FormatInt(*q.skip, 10))
	}
	if q.none {
		parts = append(parts, "limit none")
	} else if q.limit != nil {
		parts = append(parts, "limit "+strconv.FormatInt(*q.limit, 10))
	}
	if len(parts) == 0 {
		return "true"
	}
	return strings.Join(parts, " ")
}

func (q *qQuery) caseLine(kind string, d *qDataset) string {
	var b strings.Builder
	b.WriteString(kind)
	b.WriteByte(' ')
	if len(d.rows) == 0 {
		b.WriteString("e") // no rows: placeholder so the token exists
	}
	for i := range d.rows {
		if qFilters[q.filter].match(&d.rows[i]) {
			b.WriteByte('1')
		} else {
			b.WriteByte('0')
		}
	}
	fmt.Fprintf(&b, " %d", len(q.sort))
	for _, s := range q.sort {
		dir := "d"
		if s.asc {
			dir = "a"
		}
		if s.col < 0 {
			fmt.Fprintf(&b, " id s %s", dir)
		} else {
			fmt.Fprintf(&b, " %d %c %s", s.col, qCols[s.col].typ, dir)
		}
	}
	if q.skip == nil {
		b.WriteString(" -")
	} else {
		fmt.Fprintf(&b, " %d", *q.skip)
	}
	switch {
	case q.none:
		b.WriteString(" none")
	case q.limit == nil:
		b.WriteString(" -")
	default:
		fmt.Fprintf(&b, " %d", *q.limit)
	}
	return b.String()
}

func qIdsStr(ids []string) string {
	if len(ids) == 0 {
		return "-"
	}
	hs := make([]string, len(ids))
	for i, id := range ids {
		hs[i] = hxs(id)
	}
	return strings.Join(hs, ",")
}

func qGuard(f func() string) (res string) {
	defer func() {
		if r := recover(); r != nil {
			res = "PANIC"
		}
	}()
	return f()
}

// qRunBolt runs the query three ways on the real store
func qRunBolt(db *bbolt.DB, store boltz.ConfigurableStore, text string) string {
	var out []string
	_ = db.View(func(tx *bbolt.Tx) error {
		out = append(out, "query="+qGuard(func() string {
			ids, count, err := store.QueryIds(tx, text)
			if err != nil {
				return "ERR"
			}
			return fmt.Sprintf("%d:%s", count, qIdsStr(ids))
		}))
		out = append(out, "iter="+qGuard(func() string {
			query, err := ast.Parse(store, text)
			if err != nil {
				return "ERR"
			}
			var ids []string
			for c := store.IterateIds(tx, query); c.IsValid(); c.Next() {
				ids = append(ids, string(c.Current()))
				if len(ids) > 100000 {
					return "RUNAWAY"
				}
			}
			return qIdsStr(ids)
		}))
		out = append(out, "wc="+qGuard(func() string {
			query, err := ast.Parse(store, text)
			if err != nil {
				return "ERR"
			}
			bucket := store.GetEntitiesBucket(tx)
			if bucket == nil {
				return "0:-"
			}
			ids, count, err := store.QueryWithCursorC(tx, bucket.OpenCursor, query)
			if err != nil {
				return "ERR"
			}
			return fmt.Sprintf("%d:%s", count, qIdsStr(ids))
		}))
		return nil
	})
	return strings.Join(out, " ")
}

// ---- generation -----------------------------------------------------------------------------------

func qI64p(v int64) *int64 { return &v }

// qRng decorrelates consecutive seeds (the streams of newRng(k) and newRng(k+1) are the same
// sequence shifted by one step) by hashing the seed first
func qRng(seed int64, salt uint64) *rng {
	z := uint64(seed)*0xD1342543DE82EF95 + salt
	z = (z ^ (z >> 32)) * 0xDABA0B6EB09322E3
	z = (z ^ (z >> 29)) * 0x94D049BB133111EB
	return newRng(int64(z ^ (z >> 32)))
}

type qPaging struct {
	skip  *int64
	limit *int64
	none  bool
}

// the bounded-exhaustive paging grid of DESIGN.md 5 (C02), relative to the dataset size n
func qPagingGrid(n int64) []qPaging {
	skips := []*int64{nil, qI64p(0), qI64p(-1), qI64p(-5), qI64p(1), qI64p(n - 1), qI64p(n), qI64p(n + 3), qI64p(1 << 62), qI64p(math.MinInt64), qI64p(math.MaxInt64)}
	limits := []qPaging{{}, {none: true}, {limit: qI64p(0)}, {limit: qI64p(1)}, {limit: qI64p(n)}, {limit: qI64p(-1)}, {limit: qI64p(-7)}, {limit: qI64p(1 << 62)}, {limit: qI64p(math.MaxInt64)}}
	var grid []qPaging
	for _, s := range skips {
		for _, l := range limits {
			grid = append(grid, qPaging{skip: s, limit: l.limit, none: l.none})
		}
	}
	return grid
}

// c02ExtremePaging: paging parameters at the numeric extremes, relative to the dataset size n.  Three
// families of (skip, limit) pairs, every value a legal int64:
//   - a small skip s with a finite limit near MaxInt64: MaxInt64-1, MaxInt64-2, MaxInt64-n, the limit
//     that makes s+limit exactly MaxInt64 (largest sum without overflow) and exactly 2^63 (first
//     overflowing sum), limits around 2^62 and the most negative limits;
//   - a skip near MaxInt64 / around 2^62 with absent, none, tiny, n-sized and near-MaxInt64 limits
//     (sum far beyond MaxInt64, or wrapping back to a small non-negative number);
//   - the most negative skips with the same limits.
func c02ExtremePaging(n int64) []qPaging {
	const max = math.MaxInt64
	const min = math.MinInt64
	seen := map[[2]string]bool{}
	var out []qPaging
	add := func(skip *int64, l qPaging) {
		key := [2]string{"-", "-"}
		if skip != nil {
			key[0] = strconv.FormatInt(*skip, 10)
		}
		if l.none {
			key[1] = "none"
		} else if l.limit != nil {
			key[1] = strconv.FormatInt(*l.limit, 10)
		}
		if seen[key] {
			return
		}
		seen[key] = true
		out = append(out, qPaging{skip: skip, limit: l.limit, none: l.none})
	}
	lim := func(v int64) qPaging { return qPaging{limit: qI64p(v)} }
	var smallSkips []*int64
	smallSkips = append(smallSkips, nil)
	for _, s := range []int64{0, 1, 2, 3, n - 1, n, n + 1} {
		if s >= 0 {
			smallSkips = append(smallSkips, qI64p(s))
		}
	}
	for _, sp := range smallSkips {
		var s int64
		if sp != nil {
			s = *sp
		}
		for _, l := range []int64{max - 1, max - 2, max - n, max - n - 1, max - s, max - 1000, 1<<62 + 1, 1<<62 - 1, 1 << 62, min, min + 1, -(1 << 62)} {
			add(sp, lim(l))
		}
		if s > 0 {
			add(sp, lim(max-s+1)) // s + limit = 2^63
			add(sp, lim(max-s-1))
		}
		if s > 1 {
			add(sp, lim(max-s+2))
		}
	}
	hugeSkips := []int64{max - 1, max - 2, max - n, max - n - 1, 1<<62 + 1, 1<<62 - 1, max - 1<<62, max - 1<<62 + 1}
	for _, s := range hugeSkips {
		sp := qI64p(s)
		for _, l := range []qPaging{{}, {none: true}, lim(-1), lim(0), lim(1), lim(2), lim(n), lim(n + 1), lim(max), lim(max - 1), lim(max - n),
			lim(1 << 62), lim(1<<62 + 1), lim(max - s), lim(min)} {
			add(sp, l)
		}
		add(sp, lim(max-s+1)) // s + limit = 2^63 (the wrapped sum of two non-negative int64 is always negative)
	}
	for _, s := range []int64{min, min + 1, -(1 << 62), -(max)} {
		sp := qI64p(s)
		for _, l := range []qPaging{{}, {none: true}, lim(0), lim(1), lim(n), lim(max), lim(max - 1), lim(min), lim(min + 1)} {
			add(sp, l)
		}
	}
	return out
}

// c02NearExtreme draws a paging value close to one of the int64 landmarks
func c02NearExtreme(r *rng, n int) int64 {
	d := int64(r.intn(n + 4))
	switch r.intn(7) {
	case 0:
		return math.MaxInt64 - d
	case 1:
		return math.MinInt64 + d
	case 2:
		return 1<<62 + d
	case 3:
		return 1<<62 - d
	case 4:
		return math.MaxInt64 - 1<<62 - d + 2
	case 5:
		return -(1 << 62) - d
	default:
		return d
	}
}

func qRandomSort(r *rng, maxLen int) []qSortField {
	n := r.intn(maxLen + 1)
	var fs []qSortField
	for i := 0; i < n; i++ {
		col := r.intn(len(qCols)+1) - 1
		if i == 0 && r.chance(70) && col < 0 {
			col = r.intn(len(qCols)) // most multi-key specs should reach the sorting scanner
		}
		f := qSortField{col: col, asc: r.chance(55), spell: r.intn(3)}
		fs = append(fs, f)
	}
	return fs
}

// qTwinDataset duplicates every row under a second id (same cells)
func qTwinDataset(d *qDataset) *qDataset {
	out := &qDataset{hasNaN: d.hasNaN}
	for _, r := range d.rows {
		out.rows = append(out.rows, r)
	}
	for _, r := range d.rows {
		out.rows = append(out.rows, qRow{id: r.id + "~twin", cells: append([]qCell{}, r.cells...)})
	}
	sort.Slice(out.rows, func(i, j int) bool { return out.rows[i].id < out.rows[j].id })
	return out
}

// every single-key specification, the empty one and id-first combinations
func qSystematicSorts() [][]qSortField {
	out := [][]qSortField{nil}
	for col := -1; col < len(qCols); col++ {
		out = append(out, []qSortField{{col: col, asc: true, spell: 2}}, []qSortField{{col: col, asc: false}})
	}
	out = append(out,
		[]qSortField{{col: -1, asc: false}, {col: qColFs, asc: true}},
		[]qSortField{{col: -1, asc: true, spell: 1}, {col: qColFi, asc: false, spell: 1}},
		[]qSortField{{col: qColFb, asc: true}, {col: qColFs, asc: false}, {col: qColFf, asc: true}, {col: qColFt, asc: false}, {col: qColFi, asc: true}},
		[]qSortField{{col: qColFs, asc: true}, {col: -1, asc: false}},
	)
	return out
}

func qSkipClass(p qPaging, n int64) string {
	switch {
	case p.skip == nil:
		return "absent"
	case *p.skip <= -(1<<62):
		return "negative-huge"
	case *p.skip < 0:
		return "negative"
	case *p.skip == 0:
		return "zero"
	case *p.skip < n:
		return "inside"
	case *p.skip == n:
		return "at-end"
	case *p.skip == math.MaxInt64:
		return "max"
	case *p.skip >= math.MaxInt64-(1<<20):
		return "near-max"
	case *p.skip >= 1<<62-(1<<20):
		return "huge"
	default:
		return "beyond-end"
	}
}

func qLimitClass(p qPaging, n int64) string {
	switch {
	case p.none:
		return "none"
	case p.limit == nil:
		return "absent"
	case *p.limit <= -(1<<62):
		return "negative-huge"
	case *p.limit < 0:
		return "negative"
	case *p.limit == 0:
		return "zero"
	case *p.limit == math.MaxInt64:
		return "max"
	case *p.limit >= math.MaxInt64-(1<<20):
		return "near-max"
	case *p.limit >= 1<<62-(1<<20):
		return "huge"
	case *p.limit >= n:
		return "all"
	default:
		return "inside"
	}
}

// c02SumClass: where skip+limit (after the normalisation of the property: negative skip = 0,
// absent/negative/none limit = unbounded) lies relative to MaxInt64
func c02SumClass(p qPaging) string {
	var s int64
	if p.skip != nil && *p.skip > 0 {
		s = *p.skip
	}
	if p.none || p.limit == nil || *p.limit < 0 {
		if s > 0 {
			return "unbounded-limit+skip"
		}
		return "unbounded-limit"
	}
	l := *p.limit
	switch {
	case s > math.MaxInt64-l && l == math.MaxInt64:
		return "overflow-limit-max"
	case s > math.MaxInt64-l:
		return "overflow-finite-limit"
	case s+l == math.MaxInt64:
		return "exactly-max"
	case s+l >= 1<<62:
		return "huge-no-overflow"
	default:
		return "ordinary"
	}
}

func runC02(o *opts) error {
	cases := newLineWriter(o.out, "cases.txt")
	impl := newLineWriter(o.out, "impl.txt")
	defer cases.close()
	defer impl.close()
	qb, err := qOpenBolt(o.out)
	if err != nil {
		return err
	}
	defer qb.close()

	stats := map[string]map[string]int{"rows": {}, "sort_keys": {}, "skip": {}, "limit": {}, "filter": {}, "kind": {}, "skip_plus_limit": {}, "strategy_x_sum": {}}
	bump := func(group, key string) {
		if stats[group] == nil {
			stats[group] = map[string]int{}
		}
		stats[group][key]++
	}
	em := &c02Emitter{qb: qb, cases: cases, impl: impl, objs: c02NewObjects(), bump: bump}

	if rp := o.get("replaycase", ""); rp != "" {
		return c02Replay(o, qb, rp, cases, impl)
	}

	r := qRng(o.seed, 0xC02)
	nData, nSortsPer := 5, 8
	if o.thorough() {
		nData, nSortsPer = 80, 10
	}
	systematic := qSystematicSorts()
	sysNext := 0
	emit := func(d *qDataset, store boltz.ConfigurableStore, kind string, q *qQuery) {
		cases.line("%s", q.caseLine(kind, d))
		impl.line("%s", qRunBolt(qb.db, store, q.text()))
		n := int64(len(d.rows))
		pg := qPaging{skip: q.skip, limit: q.limit, none: q.none}
		bump("kind", kind)
		bump("sort_keys", strconv.Itoa(len(q.sort)))
		bump("skip", qSkipClass(pg, n))
		bump("limit", qLimitClass(pg, n))
		bump("filter", qFilters[q.filter].text)
		bump("skip_plus_limit", c02SumClass(pg))
		strat := "sorting"
		if len(q.sort) == 0 {
			strat = "id-forward"
		} else if q.sort[0].col < 0 && q.sort[0].asc {
			strat = "id-forward"
		} else if q.sort[0].col < 0 {
			strat = "id-reverse"
		}
		bump("strategy_x_sum", strat+"/"+c02SumClass(pg))
	}
	for di := 0; di < nData; di++ {
		var n int
		switch {
		case di == 0:
			n = 7
		case di == 1:
			n = 0
		case di == 2:
			n = 1
		default:
			n = 2 + r.intn(11)
		}
		nan := di%5 == 4
		d := qGenDataset(r, n, nan)
		if di == 0 {
			d = qProbeDataset()
			n = len(d.rows)
		}
		if di == 3 {
			// twins: every row occurs twice under different ids with identical cells, so that rows tie on
			// EVERY sort key (also on exactly SortMax keys) and only the implicit id tie-breaker separates them
			d = qTwinDataset(qGenDataset(r, 4, false))
			n = len(d.rows)
		}
		store, err := qb.load(d)
		if err != nil {
			return err
		}
		cases.line("%s", d.line())
		impl.line("D")
		bump("rows", strconv.Itoa(n))
		kind := "Q"
		if d.hasNaN {
			kind = "X"
		}
		grid := qPagingGrid(int64(n))
		for si := 0; si < nSortsPer; si++ {
			var fs []qSortField
			if si%2 == 0 {
				fs = systematic[sysNext%len(systematic)]
				sysNext++
			} else {
				fs = qRandomSort(r, 5)
				if r.chance(4) {
					fs = append(fs, qRandomSort(r, 2)...) // occasionally more than SortMax keys
				}
			}
			filter := r.intn(len(qFilters))
			if si == 0 {
				filter = 0
			}
			for _, pg := range grid {
				emit(d, store, kind, &qQuery{filter: filter, sort: fs, skip: pg.skip, limit: pg.limit, none: pg.none})
			}
		}
		// every systematic specification on every dataset, with a few representative pages
		short := []qPaging{{}, {skip: qI64p(1)}, {skip: qI64p(1), limit: qI64p(2)}, {skip: qI64p(-1), limit: qI64p(int64(n))},
			{none: true}, {skip: qI64p(int64(n) - 1)}, {limit: qI64p(int64(n) - 1)}}
		for _, fs := range systematic {
			filter := 0
			if r.chance(30) {
				filter = r.intn(len(qFilters))
			}
			for _, pg := range short {
				emit(d, store, kind, &qQuery{filter: filter, sort: fs, skip: pg.skip, limit: pg.limit, none: pg.none})
			}
		}
		// paging parameters at the numeric extremes: every pair on every systematic specification of the
		// probe dataset; on the other datasets on a rotating third of them plus a random specification
		// (always at least one specification per scan strategy: sorting, id forward, id reverse)
		extremes := c02ExtremePaging(int64(n))
		var exSorts [][]qSortField
		for si, fs := range systematic {
			if di == 0 || si%3 == di%3 {
				exSorts = append(exSorts, fs)
			}
		}
		if di != 0 {
			exSorts = append(exSorts, []qSortField{{col: qColFi + r.intn(5), asc: r.chance(50)}},
				[]qSortField{{col: -1, asc: false}}, nil, qRandomSort(r, 5))
		}
		for _, fs := range exSorts {
			filter := 0
			if r.chance(40) {
				filter = r.intn(len(qFilters))
			}
			for _, pg := range extremes {
				emit(d, store, kind, &qQuery{filter: filter, sort: fs, skip: pg.skip, limit: pg.limit, none: pg.none})
			}
		}
		// random values next to the int64 landmarks (MaxInt64, MinInt64, +-2^62, MaxInt64-2^62)
		for k := 0; k < 40; k++ {
			q := &qQuery{filter: r.intn(len(qFilters)), sort: qRandomSort(r, 5)}
			if r.chance(85) {
				q.skip = qI64p(c02NearExtreme(r, n))
			}
			switch r.intn(6) {
			case 0:
			case 1:
				q.none = true
			default:
				q.limit = qI64p(c02NearExtreme(r, n))
			}
			emit(d, store, kind, q)
		}
		// random paging values around the boundaries, random everything else
		for k := 0; k < 40; k++ {
			q := &qQuery{filter: r.intn(len(qFilters)), sort: qRandomSort(r, 5)}
			if r.chance(75) {
				q.skip = qI64p(int64(r.intn(n+4)) - 2)
			}
			switch r.intn(4) {
			case 0:
			case 1:
				q.none = true
			default:
				q.limit = qI64p(int64(r.intn(n+3)) - 1)
			}
			emit(d, store, kind, q)
		}
		// one compiled query object executed several times (and mutated by the caller in between)
		if !d.hasNaN {
			fam := c02PlainFamily(d, store)
			em.view = c02View{}
			em.objs.setEntities(fam, em.view)
			em.programs(r, fam, 40)
		}
	}
	// parent / child / grandchild stores (plain and extended) over one entities bucket with a mixed population
	nFam := 3
	if o.thorough() {
		nFam = 24
	}
	for fi := 0; fi < nFam; fi++ {
		var fam *c02Family
		switch fi {
		case 0:
			fam = c02ProbeFamily()
		case 1:
			fam = c02MakeFamily(r, qTwinDataset(qGenDataset(r, 4, false)))
		default:
			fam = c02MakeFamily(r, qGenDataset(r, 1+r.intn(11), false))
		}
		if err := qb.c02LoadFamily(fam); err != nil {
			return err
		}
		cases.line("%s", fam.d.line())
		impl.line("D")
		cases.line("%s", fam.layoutLine())
		impl.line("L")
		bump("family_rows", strconv.Itoa(len(fam.d.rows)))
		em.familyQueries(r, fam, o.thorough())
	}
	// sort specifications longer than SortMax over rows that tie on the leading fields (c19long.go)
	if err := c19LongEmitC02(o, qb, cases, impl, bump, emit); err != nil {
		return err
	}
	// QueryWithCursorC over every cursor provider of the library (c02prov.go; random stream of its own)
	if err := c02pEmit(o, qb, cases, impl, bump); err != nil {
		return err
	}
	writeJSON(o.out, "stats.json", stats)
	return nil
}

// c02Replay re-runs one case (a D line followed by Q/X lines) on the current tree
func c02Replay(o *opts, qb *qBolt, path string, cases, impl *lineWriter) error {
	data, err := os.ReadFile(path)
	if err != nil {
		return err
	}
	var d *qDataset
	var store boltz.ConfigurableStore
	var fam *c02Family // set by an L line: the dataset is shared by a chain of stores
	view := c02View{}
	objs := c02NewObjects()
	var prov *c02pWorld // set by a G line: the rows carry tags and were created through the library
	for _, line := range strings.Split(string(data), "\n") {
		f := strings.Fields(line)
		if len(f) == 0 {
			continue
		}
		switch f[0] {
		case "D":
			d, err = qParseDataset(f)
			if err != nil {
				return err
			}
			if store, err = qb.load(d); err != nil {
				return err
			}
			fam, view = c02PlainFamily(d, store), c02View{}
			objs.setEntities(fam, view)
			prov = nil
			cases.line("%s", line)
			impl.line("D")
		case "G":
			if d == nil || len(f) != 2 {
				return fmt.Errorf("tag masks before dataset")
			}
			masks, err := c02pParseMasks(f[1], len(d.rows))
			if err != nil {
				return err
			}
			if prov, err = qb.c02pLoad(d, masks); err != nil {
				return err
			}
			cases.line("%s", line)
			impl.line("G")
		case "P":
			res, text, err := c02pReplayQuery(qb, prov, f)
			if err != nil {
				return err
			}
			cases.line("%s", line)
			impl.line("%s", res)
			fmt.Fprintf(os.Stderr, "replay query text: %s\n", text)
		case "L":
			if d == nil || len(f) != 3 {
				return fmt.Errorf("layout before dataset")
			}
			fam = &c02Family{d: d}
			if fam.levels, err = c02ParseDigits(f[1], len(d.rows)); err != nil {
				return err
			}
			if fam.owners, err = c02ParseDigits(f[2], len(qCols)); err != nil {
				return err
			}
			if err = qb.c02LoadFamily(fam); err != nil {
				return err
			}
			objs.setEntities(fam, view)
			cases.line("%s", line)
			impl.line("L")
		case "V":
			if fam == nil || len(f) != 3 {
				return fmt.Errorf("view before dataset")
			}
			tier, _ := strconv.Atoi(f[1])
			view = c02View{tier: tier, ext: f[2] == "1"}
			if fam.stores[view] == nil {
				return fmt.Errorf("the dataset has no %s store (layout line missing)", view.name())
			}
			objs.setEntities(fam, view)
			cases.line("%s", line)
			impl.line("V")
		case "Q", "X":
			if d == nil {
				return fmt.Errorf("query before dataset")
			}
			q, err := qQueryFromCase(f)
			if err != nil {
				return err
			}
			if q.filter, err = c02FilterFromBits(fam, view, f[1]); err != nil {
				return err
			}
			cases.line("%s", line)
			impl.line("%s", qRunBolt(qb.db, fam.stores[view], q.text()))
			fmt.Fprintf(os.Stderr, "replay query text: %s\n", q.text())
		case "R":
			if d == nil {
				return fmt.Errorf("program before dataset")
			}
			q, ops, err := c02ParseProgram(f, fam, view)
			if err != nil {
				return err
			}
			cases.line("%s", line)
			impl.line("%s", c02RunProgram(qb.db, fam.stores[view], objs, q.text(), ops))
			fmt.Fprintf(os.Stderr, "replay query text: %s\n", c02ProgramText(q, ops))
		}
	}
	return nil
}

func qParseCell(t string) (qCell, error) {
	if t == "" {
		return qCell{}, fmt.Errorf("empty cell")
	}
	rest := t[1:]
	switch t[0] {
	case 'N':
		return qCell{kind: 'N'}, nil
	case 'B':
		return qCell{kind: 'B', b: rest == "1"}, nil
	case 'I':
		v, err := strconv.ParseInt(rest, 10, 64)
		return qCell{kind: 'I', i: v, as32: false}, err
	case 'F':
		v, err := strconv.ParseUint(rest, 16, 64)
		return qCell{kind: 'F', f: v}, err
	case 'S':
		return qCell{kind: 'S', s: string(unhx(rest))}, nil
	case 'T':
		p := strings.Split(rest, ":")
		if len(p) != 2 {
			return qCell{}, fmt.Errorf("bad time %q", t)
		}
		s, err1 := strconv.ParseInt(p[0], 10, 64)
		n, err2 := strconv.ParseInt(p[1], 10, 64)
		if err1 != nil {
			return qCell{}, err1
		}
		return qCell{kind: 'T', sec: s, nsec: n}, err2
	}
	return qCell{}, fmt.Errorf("bad cell %q", t)
}

func qParseDataset(f []string) (*qDataset, error) {
	n, _ := strconv.Atoi(f[1])
	nc, _ := strconv.Atoi(f[2])
	if nc != len(qCols) || len(f) != 3+n*(nc+1) {
		return nil, fmt.Errorf("malformed dataset line")
	}
	d := &qDataset{}
	pos := 3
	for i := 0; i < n; i++ {
		row := qRow{id: string(unhx(f[pos]))}
		pos++
		for c := 0; c < nc; c++ {
			cell, err := qParseCell(f[pos])
			if err != nil {
				return nil, err
			}
			if cell.kind == 'F' && math.IsNaN(math.Float64frombits(cell.f)) {
				d.hasNaN = true
			}
			// the int32-backed column is stored as int32 whenever the value fits
			if cell.kind == 'I' && c == qColFj && cell.i >= math.MinInt32 && cell.i <= math.MaxInt32 {
				cell.as32 = true
			}
			row.cells = append(row.cells, cell)
			pos++
		}
		d.rows = append(d.rows, row)
	}
	return d, nil
}

// qQueryFromCase parses the sort / skip / limit part of a Q line (fields: kind, bits, nsort, ...);
// the filter is left as "predicate omitted"
func qQueryFromCase(f []string) (*qQuery, error) {
	q := &qQuery{filter: 4}
	if len(f) < 3 {
		return nil, fmt.Errorf("short query line")
	}
	ns, _ := strconv.Atoi(f[2])
	pos := 3
	if len(f) != 3+3*ns+2 {
		return nil, fmt.Errorf("malformed query line")
	}
	for i := 0; i < ns; i++ {
		sf := qSortField{col: -1, asc: f[pos+2] == "a"}
		if f[pos] != "id" {
			sf.col, _ = strconv.Atoi(f[pos])
		}
		q.sort = append(q.sort, sf)
		pos += 3
	}
	if f[pos] != "-" {
		v, err := strconv.ParseInt(f[pos], 10, 64)
		if err != nil {
			return nil, err
		}
		q.skip = &v
	}
	switch f[pos+1] {
	case "-":
	case "none":
		q.none = true
	default:
		v, err := strconv.ParseInt(f[pos+1], 10, 64)
		if err != nil {
			return nil, err
		}
		q.limit = &v
	}
	return q, nil
}

// qTextFromCase rebuilds a query text for a replayed case: the filter is recovered from the match
// bits (first catalogue filter producing exactly these bits)
func qTextFromCase(f []string, d *qDataset) (string, error) {
	q, err := qQueryFromCase(f)
	if err != nil {
		return "", err
	}
	bits := f[1]
	q.filter = -1
	for fi := range qFilters {
		ok := true
		for i := range d.rows {
			want := bits[i] == '1'
			if qFilters[fi].match(&d.rows[i]) != want {
				ok = false
				break
			}
		}
		if ok {
			q.filter = fi
			break
		}
	}
	if q.filter < 0 {
		return "", fmt.Errorf("no catalogue filter produces match bits %s", bits)
	}
	return q.text(), nil
}
