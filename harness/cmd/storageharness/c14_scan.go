package main

import (
	"context"
	"fmt"
	"path/filepath"
	"strings"

	"github.com/openziti/foundation/v2/errorz"
	"github.com/openziti/storage/ast"
	"github.com/openziti/storage/boltz"
	"go.etcd.io/bbolt"
)

// C14 - seekable cursors that are SCANNERS layered over a set cursor (boltz/query_scanners.go uniqueIndexScanner,
// boltz/store_query.go IterateIds / IterateValidIds / ValidIdsCursors / QueryWithCursorC).
//
// The scanner reads one element ahead: while the client stands on an element the wrapped cursor is already on the
// next one - or exhausted, when the client stands on the LAST accepted element (a one-entity store: right after the
// constructor).  Every Next/Seek program of the other cursor families is therefore driven through them as well, and in
// addition "walk" programs N^k S<t> N for every k up to past the end (seek from every position: last element,
// exhausted) over stores of 0..5 entities.
//
// Case lines (see coq/extraction/c14_driver.ml):
//   I <kind> <fw> <flt> <skip> <limit> <nP> P.. <nC> C.. <nF> F.. <nops> ops..
//     P    ids of the root store (the keys of the entities bucket the scanner runs over), ascending
//     C    ids that also have the child store's data (child kinds; ignored otherwise)
//     F    ids (of the universe) the filter accepts
//     flt  T ast.BoolNodeTrue | R `anyOf(roles) = "r<F>"` | N `not (anyOf(roles) = "r<~F>")`   (parsed on the store)
//     skip / limit   paging carried by the filter (an ast.Query), "-" = none
//     kinds   ids / vids      root store   IterateIds / IterateValidIds
//             cids / cvids    child store  (skips parent entities without child data)
//             xids / xvids    Extended() child store: IterateIds runs over ALL parent ids, IterateValidIds puts
//                             ValidIdsCursors on top, which skips the ones without child data
//             <kind>0         the same on a store whose entities bucket does not exist (ast.EmptyCursor)
//             qc / qcc / qcx  Store.QueryWithCursorC(provider = entities bucket OpenCursor, query) on root / child /
//                             extended child; qci / qca / qct: provider = set index value cursor (typed) /
//                             IteratorMatchingAllOf (filtered typed) / IteratorMatchingAnyOf (tree); fw = 0: `sort by id desc`
//     Observation: as for C lines; q* kinds: the ids returned as V.. tokens, padded with I to nops+1 tokens, then #<count>.
//     Paged cursors (skip/limit present) with Seek operations have no set the property speaks about (the counters
//     are a budget of the stream, not a set): they are compared with the model only (specification side "~").

type c14sEnt struct {
	Id    string
	Roles []string
}

func (e *c14sEnt) GetId() string         { return e.Id }
func (e *c14sEnt) SetId(id string)       { e.Id = id }
func (e *c14sEnt) GetEntityType() string { return "sitems" }

type c14sStore struct {
	*boltz.BaseStore[*c14sEnt]
}

type c14sRootStrategy struct{}

func (c14sRootStrategy) NewEntity() *c14sEnt { return new(c14sEnt) }
func (c14sRootStrategy) FillEntity(e *c14sEnt, b *boltz.TypedBucket) {
	e.Roles = b.GetStringList("roles")
}
func (c14sRootStrategy) PersistEntity(e *c14sEnt, ctx *boltz.PersistContext) {
	ctx.SetStringList("roles", e.Roles)
}

type c14sKidStrategy struct{ parent *c14sStore }

func (c14sKidStrategy) NewEntity() *c14sEnt                       { return new(c14sEnt) }
func (c14sKidStrategy) FillEntity(*c14sEnt, *boltz.TypedBucket) {}
func (s c14sKidStrategy) PersistEntity(e *c14sEnt, ctx *boltz.PersistContext) {
	s.parent.GetEntityStrategy().PersistEntity(e, ctx.GetParentContext())
	ctx.SetString("mark", "k")
}

type c14sFamily struct {
	root *c14sStore
	kid  *c14sStore
	idx  boltz.SetReadIndex
}

// one root store with one child store (plain or Extended()) below base
func c14sNewFamily(base string, ext bool) *c14sFamily {
	f := &c14sFamily{}
	f.root = &c14sStore{BaseStore: boltz.NewBaseStore(boltz.StoreDefinition[*c14sEnt]{
		EntityType:      "sitems",
		EntityStrategy:  c14sRootStrategy{},
		BasePath:        []string{base},
		EntityNotFoundF: func(id string) error { return boltz.NewNotFoundError("sitems", "id", id) },
	})}
	f.root.InitImpl(f.root)
	f.root.AddIdSymbol("id", ast.NodeTypeString)
	roles := f.root.AddSetSymbol("roles", ast.NodeTypeString)
	f.idx = f.root.AddSetIndex(roles)
	f.kid = &c14sStore{BaseStore: boltz.NewBaseStore(boltz.StoreDefinition[*c14sEnt]{
		EntityStrategy:  c14sKidStrategy{parent: f.root},
		BasePath:        []string{"kid"},
		Parent:          f.root,
		ParentMapper:    func(e boltz.Entity) boltz.Entity { return e },
		EntityNotFoundF: func(id string) error { return boltz.NewNotFoundError("sitems", "id", id) },
	})}
	if ext {
		f.kid.Extended()
	}
	f.kid.InitImpl(f.kid)
	f.root.GrantSymbols(f.kid)
	return f
}

type c14sWorld struct {
	plain *c14sFamily // root + plain child
	ext   *c14sFamily // root + extended child
	pmask int
	cmask int
}

func c14sRolesOf(i int) []string {
	var roles []string
	for m := 0; m < 32; m++ {
		if m&(1<<uint(i)) != 0 {
			roles = append(roles, fmt.Sprintf("r%02d", m))
		}
	}
	return roles
}

// c14sBuild creates the world (pmask, cmask) below base: ids subset(pmask) in both root stores, the ones in
// subset(cmask) through the child stores; id i carries role r<m> for every mask m that contains i.
// bucket = false: nothing is written at all (the entities buckets do not exist).
func c14sBuild(tx *bbolt.Tx, base string, pmask, cmask int, bucket bool) *c14sWorld {
	w := &c14sWorld{plain: c14sNewFamily(base+"p", false), ext: c14sNewFamily(base+"x", true), pmask: pmask, cmask: cmask}
	if !bucket {
		return w
	}
	ctx := boltz.NewTxMutateContext(context.Background(), tx)
	for _, f := range []*c14sFamily{w.plain, w.ext} {
		eh := &errorz.ErrorHolderImpl{}
		f.root.InitializeIndexes(tx, eh)
		f.kid.InitializeIndexes(tx, eh)
		c14Must(eh.GetError())
		for i, id := range c14IdU {
			if pmask&(1<<uint(i)) == 0 {
				continue
			}
			e := &c14sEnt{Id: id, Roles: c14sRolesOf(i)}
			if cmask&(1<<uint(i)) != 0 {
				c14Must(f.kid.Create(ctx, e))
			} else {
				c14Must(f.root.Create(ctx, e))
			}
		}
		if pmask == 0 {
			// an entities bucket that exists and is empty
			c14Must(f.root.Create(ctx, &c14sEnt{Id: "zz"}))
			c14Must(f.root.DeleteById(ctx, "zz"))
		}
	}
	return w
}

type c14sKind struct {
	name   string
	child  bool // the child store's own presence check applies (C matters)
	nobkt  bool
	cursor func(w *c14sWorld, tx *bbolt.Tx, flt ast.BoolNode) ast.SetCursor
	store  func(w *c14sWorld) *c14sStore
}

var c14sKinds = map[string]*c14sKind{}

func init() {
	add := func(name string, child bool, store func(w *c14sWorld) *c14sStore, valid bool) {
		for _, nb := range []bool{false, true} {
			n := name
			if nb {
				n += "0"
			}
			c14sKinds[n] = &c14sKind{name: n, child: child, nobkt: nb, store: store,
				cursor: func(w *c14sWorld, tx *bbolt.Tx, flt ast.BoolNode) ast.SetCursor {
					if valid {
						return store(w).IterateValidIds(tx, flt)
					}
					return store(w).IterateIds(tx, flt)
				}}
		}
	}
	root := func(w *c14sWorld) *c14sStore { return w.plain.root }
	kid := func(w *c14sWorld) *c14sStore { return w.plain.kid }
	xkid := func(w *c14sWorld) *c14sStore { return w.ext.kid }
	add("ids", false, root, false)
	add("vids", false, root, true)
	add("cids", true, kid, false)
	add("cvids", true, kid, true)
	add("xids", false, xkid, false)
	add("xvids", true, xkid, true)
}

// the filter of a case: flt token, accepted mask, paging (-1 = none)
type c14sFilter struct {
	flt   string
	fmask int
	skip  int
	limit int
	desc  bool
}

func (f c14sFilter) paged() bool { return f.skip >= 0 || f.limit >= 0 }

func (f c14sFilter) text() string {
	var t string
	switch f.flt {
	case "T":
		t = "true"
	case "R":
		t = fmt.Sprintf(`anyOf(roles) = "r%02d"`, f.fmask)
	case "N":
		t = fmt.Sprintf(`not (anyOf(roles) = "r%02d")`, 31^f.fmask)
	}
	if f.desc {
		t += " sort by id desc"
	}
	if f.skip >= 0 {
		t += fmt.Sprintf(" skip %d", f.skip)
	}
	if f.limit >= 0 {
		t += fmt.Sprintf(" limit %d", f.limit)
	}
	return t
}

type c14sParseKey struct {
	store *c14sStore
	text  string
}

var c14sParsed = map[c14sParseKey]ast.Query{}

func (f c14sFilter) node(store *c14sStore) ast.BoolNode {
	if f.flt == "T" && !f.paged() && !f.desc {
		return ast.BoolNodeTrue
	}
	return f.query(store)
}

func (f c14sFilter) query(store *c14sStore) ast.Query {
	key := c14sParseKey{store, f.text()}
	if q, ok := c14sParsed[key]; ok {
		return q
	}
	q, err := ast.Parse(store, key.text)
	if err != nil {
		panic(fmt.Sprintf("c14 scan: filter %q does not parse: %v", key.text, err))
	}
	c14sParsed[key] = q
	return q
}

func c14sPg(n int) string {
	if n < 0 {
		return "-"
	}
	return fmt.Sprint(n)
}

func c14sLine(kind string, fw bool, f c14sFilter, ops []c14Op, pmask, cmask int) string {
	d := 1
	if !fw {
		d = 0
	}
	fm := f.fmask
	if f.flt == "T" {
		fm = 31
	}
	return fmt.Sprintf("I %s %d %s %s %s %s %s %s %s", kind, d, f.flt, c14sPg(f.skip), c14sPg(f.limit),
		c14Set(c14Subset(c14IdU, pmask)), c14Set(c14Subset(c14IdU, cmask)), c14Set(c14Subset(c14IdU, fm)), c14OpsString(ops))
}

func c14sHasSeek(ops []c14Op) bool {
	for _, o := range ops {
		if o.seek {
			return true
		}
	}
	return false
}

func (o *c14Out) idsCase(k *c14sKind, w *c14sWorld, tx *bbolt.Tx, f c14sFilter, ops []c14Op) {
	stat := k.name
	if f.paged() {
		stat += "-paged"
		if c14sHasSeek(ops) {
			stat += "-seek"
		}
	}
	node := f.node(k.store(w))
	o.emit(stat, c14sLine(k.name, true, f, ops, w.pmask, w.cmask)+c14pSuffix(len(ops)),
		c14RunOps(func() ast.SetCursor { return k.cursor(w, tx, node) }, ops, c14SeekPlain))
	// the same program under observation protocols (c14_proto.go): nothing looked at before the end; Current before IsValid
	if c14pProto == nil && !f.paged() && len(ops) >= 1 && len(ops) <= 2 {
		for _, proto := range c14pThin(len(ops) + 1) {
			c14pProto = proto
			o.emit(stat, c14sLine(k.name, true, f, ops, w.pmask, w.cmask)+c14pSuffix(len(ops)),
				c14RunOps(func() ast.SetCursor { return k.cursor(w, tx, node) }, ops, c14SeekPlain))
		}
		c14pProto = nil
	}
}

// ---- QueryWithCursorC ---------------------------------------------------------------------------------------

func c14sProvider(kind string, w *c14sWorld) (store *c14sStore, provider ast.SetCursorProvider) {
	fam := w.plain
	store = fam.root
	switch kind {
	case "qcc":
		store = fam.kid
	case "qcx":
		fam = w.ext
		store = fam.kid
	}
	root := fam.root
	switch kind {
	case "qci":
		provider = func(tx *bbolt.Tx, fw bool) ast.SetCursor { return fam.idx.OpenValueCursor(tx, []byte("r31"), fw) }
	case "qca":
		provider = root.IteratorMatchingAllOf(fam.idx, []string{"r31"})
	case "qct":
		provider = root.IteratorMatchingAnyOf(fam.idx, []string{"r31", "r00"})
	default:
		provider = func(tx *bbolt.Tx, fw bool) ast.SetCursor {
			b := root.GetEntitiesBucket(tx)
			if b == nil {
				return nil
			}
			return b.OpenCursor(tx, fw)
		}
	}
	return store, provider
}

func c14sQueryRun(store *c14sStore, tx *bbolt.Tx, provider ast.SetCursorProvider, q ast.Query, nops int) (res string) {
	defer func() {
		if r := recover(); r != nil {
			res = strings.TrimSpace(strings.Repeat("P ", nops+2))
		}
	}()
	ids, count, err := store.QueryWithCursorC(tx, provider, q)
	if err != nil {
		return strings.TrimSpace(strings.Repeat("E ", nops+2))
	}
	var toks []string
	for _, id := range ids {
		toks = append(toks, "V"+hxs(id))
	}
	for len(toks) < nops+1 {
		toks = append(toks, "I")
	}
	toks = append(toks, fmt.Sprintf("#%d", count))
	return strings.Join(toks, " ")
}

func (o *c14Out) queryCase(kind string, w *c14sWorld, tx *bbolt.Tx, f c14sFilter) {
	store, provider := c14sProvider(kind, w)
	ops := c14NextOnly(len(c14Subset(c14IdU, w.pmask)) + 1)
	o.emit(kind, c14sLine(kind, !f.desc, f, ops, w.pmask, w.cmask),
		c14sQueryRun(store, tx, provider, f.query(store), len(ops)))
}

// ---- programs -----------------------------------------------------------------------------------------------

// N^k S<t> N for every k = 0 .. n+1 and every target: a seek from every position, the last one and exhaustion included
func c14sWalks(n int, targets []string) [][]c14Op {
	var out [][]c14Op
	for k := 0; k <= n+1; k++ {
		for _, t := range targets {
			ops := make([]c14Op, 0, k+2)
			for i := 0; i < k; i++ {
				ops = append(ops, c14Op{})
			}
			ops = append(ops, c14Op{seek: true, v: t}, c14Op{})
			out = append(out, ops)
		}
	}
	return out
}

func c14sPopcount(m int) int {
	n := 0
	for ; m != 0; m &= m - 1 {
		n++
	}
	return n
}

func c14sSubmasks(m int) []int {
	var out []int
	for s := 0; s < 32; s++ {
		if s&m == s {
			out = append(out, s)
		}
	}
	return out
}

var c14sPagings = [][2]int{{0, -1}, {1, -1}, {2, -1}, {-1, 0}, {-1, 1}, {-1, 2}, {0, 0}, {1, 1}, {1, 2}, {2, 1}, {3, 5}}

func c14Scan(dir string, out *c14Out, thorough bool) error {
	db, err := bbolt.Open(filepath.Join(dir, "scan.db"), 0o600, nil)
	if err != nil {
		return err
	}
	defer db.Close()
	dTrue, dSel, dChild := 3, 2, 2
	if thorough {
		dTrue, dSel, dChild = 4, 3, 3
	}
	seqsTrue := c14Seqs(c14Targets, dTrue)
	seqsSel := c14Seqs(c14Targets, dSel)
	seqsChild := c14Seqs(c14Targets, dChild)
	seqs2 := c14Seqs(c14Targets, 2)
	seqs1 := c14Seqs(c14Targets, 1)
	kind := func(n string) *c14sKind { return c14sKinds[n] }
	tf := c14sFilter{flt: "T", fmask: 31, skip: -1, limit: -1}
	for pmask := 0; pmask < 32; pmask++ {
		np := c14sPopcount(pmask)
		walks := c14sWalks(np, c14Targets)
		for _, cmask := range c14sSubmasks(pmask) {
			var w *c14sWorld
			base := fmt.Sprintf("s%02d-%02d", pmask, cmask)
			c14Must(db.Update(func(tx *bbolt.Tx) error {
				w = c14sBuild(tx, base, pmask, cmask, true)
				return nil
			}))
			c14Must(db.View(func(tx *bbolt.Tx) error {
				selective := func(flt string, fm int) c14sFilter { return c14sFilter{flt: flt, fmask: fm, skip: -1, limit: -1} }
				if cmask == 0 {
					// root store: the child data plays no role
					for _, ops := range seqsTrue {
						out.idsCase(kind("ids"), w, tx, tf, ops)
					}
					for _, ops := range seqs1 {
						out.idsCase(kind("ids"), w, tx, tf, ops)
						out.idsCase(kind("vids"), w, tx, tf, ops)
					}
					for _, ops := range walks {
						out.idsCase(kind("ids"), w, tx, tf, ops)
						out.idsCase(kind("vids"), w, tx, tf, ops)
					}
					for _, fm := range c14sSubmasks(pmask) {
						if fm == pmask && pmask != 0 {
							continue // accepts everything: the T cases
						}
						r, n := selective("R", fm), selective("N", fm)
						for _, ops := range seqsSel {
							out.idsCase(kind("ids"), w, tx, r, ops)
						}
						for _, ops := range walks {
							out.idsCase(kind("ids"), w, tx, r, ops)
							out.idsCase(kind("ids"), w, tx, n, ops)
							out.idsCase(kind("vids"), w, tx, r, ops)
						}
						// paging, Next only: the page; and with the queries
						for _, pg := range c14sPagings {
							p := c14sFilter{flt: "R", fmask: fm, skip: pg[0], limit: pg[1]}
							out.idsCase(kind("ids"), w, tx, p, c14NextOnly(np+1))
							for _, desc := range []bool{false, true} {
								p.desc = desc
								out.queryCase("qc", w, tx, p)
							}
						}
						for _, desc := range []bool{false, true} {
							out.queryCase("qc", w, tx, c14sFilter{flt: "R", fmask: fm, skip: -1, limit: -1, desc: desc})
						}
					}
					for _, pg := range c14sPagings {
						p := c14sFilter{flt: "T", fmask: 31, skip: pg[0], limit: pg[1]}
						out.idsCase(kind("ids"), w, tx, p, c14NextOnly(np+1))
						out.idsCase(kind("vids"), w, tx, p, c14NextOnly(np+1))
						// paged AND sought: compared with the model only
						if np <= 2 || thorough {
							for _, ops := range seqs2 {
								if c14sHasSeek(ops) {
									out.idsCase(kind("ids"), w, tx, p, ops)
								}
							}
						}
						for _, ops := range walks {
							out.idsCase(kind("ids"), w, tx, p, ops)
						}
						for _, desc := range []bool{false, true} {
							p.desc = desc
							for _, q := range []string{"qc", "qci", "qca", "qct"} {
								out.queryCase(q, w, tx, p)
							}
						}
					}
					for _, desc := range []bool{false, true} {
						for _, q := range []string{"qc", "qci", "qca", "qct"} {
							out.queryCase(q, w, tx, c14sFilter{flt: "T", fmask: 31, skip: -1, limit: -1, desc: desc})
						}
					}
				}
				// child stores
				for _, ops := range seqsChild {
					out.idsCase(kind("cids"), w, tx, tf, ops)
					out.idsCase(kind("xvids"), w, tx, tf, ops)
				}
				for _, ops := range seqs1 {
					out.idsCase(kind("cids"), w, tx, tf, ops)
					out.idsCase(kind("cvids"), w, tx, tf, ops)
					out.idsCase(kind("xvids"), w, tx, tf, ops)
				}
				for _, ops := range walks {
					out.idsCase(kind("cids"), w, tx, tf, ops)
					out.idsCase(kind("cvids"), w, tx, tf, ops)
					out.idsCase(kind("xvids"), w, tx, tf, ops)
					if cmask == 0 || cmask == pmask {
						out.idsCase(kind("xids"), w, tx, tf, ops)
					}
				}
				for _, fm := range []int{21, 10, 6} {
					r := selective("R", fm)
					for _, ops := range walks {
						out.idsCase(kind("cids"), w, tx, r, ops)
						out.idsCase(kind("xvids"), w, tx, r, ops)
						if cmask == 0 || cmask == pmask {
							out.idsCase(kind("xids"), w, tx, r, ops)
						}
					}
					if thorough {
						for _, ops := range seqs2 {
							out.idsCase(kind("cids"), w, tx, r, ops)
							out.idsCase(kind("xvids"), w, tx, r, ops)
							out.idsCase(kind("cvids"), w, tx, r, ops)
						}
					}
				}
				for _, pg := range c14sPagings {
					p := c14sFilter{flt: "T", fmask: 31, skip: pg[0], limit: pg[1]}
					out.idsCase(kind("cids"), w, tx, p, c14NextOnly(np+1))
					for _, desc := range []bool{false, true} {
						p.desc = desc
						out.queryCase("qcc", w, tx, p)
						out.queryCase("qcx", w, tx, p)
					}
				}
				for _, desc := range []bool{false, true} {
					out.queryCase("qcc", w, tx, c14sFilter{flt: "T", fmask: 31, skip: -1, limit: -1, desc: desc})
					out.queryCase("qcc", w, tx, c14sFilter{flt: "R", fmask: 21, skip: -1, limit: -1, desc: desc})
					out.queryCase("qcx", w, tx, c14sFilter{flt: "T", fmask: 31, skip: -1, limit: -1, desc: desc})
				}
				return nil
			}))
			// parsed filters are bound to the stores of this world
			c14sParsed = map[c14sParseKey]ast.Query{}
		}
	}
	// stores whose entities bucket does not exist
	var w0 *c14sWorld
	c14Must(db.Update(func(tx *bbolt.Tx) error {
		w0 = c14sBuild(tx, "nobucket", 0, 0, false)
		return nil
	}))
	return db.View(func(tx *bbolt.Tx) error {
		for _, kn := range []string{"ids0", "vids0", "cids0", "cvids0", "xids0", "xvids0"} {
			for _, f := range []c14sFilter{tf, {flt: "R", fmask: 21, skip: -1, limit: -1}, {flt: "T", fmask: 31, skip: 1, limit: 2}} {
				for _, ops := range seqs2 {
					if f.paged() && c14sHasSeek(ops) {
						continue
					}
					out.idsCase(kind(kn), w0, tx, f, ops)
				}
			}
		}
		return nil
	})
}

// ---- replay -------------------------------------------------------------------------------------------------

func c14sMaskOf(set []string) (int, error) {
	m := 0
	for _, e := range set {
		found := false
		for i, u := range c14IdU {
			if u == e {
				m |= 1 << uint(i)
				found = true
			}
		}
		if !found {
			return 0, fmt.Errorf("id %q is not in the id universe", e)
		}
	}
	return m, nil
}

func c14ReplayScan(dir string, out *c14Out, line string) error {
	f := strings.Fields(line)
	pos := 1
	next := func() string { pos++; return f[pos-1] }
	readSet := func() []string {
		n := 0
		fmt.Sscan(next(), &n)
		var s []string
		for i := 0; i < n; i++ {
			s = append(s, string(unhx(next())))
		}
		return s
	}
	pg := func(s string) int {
		if s == "-" {
			return -1
		}
		n := 0
		fmt.Sscan(s, &n)
		return n
	}
	kn := next()
	fw := next() == "1"
	flt := c14sFilter{flt: next()}
	flt.skip = pg(next())
	flt.limit = pg(next())
	flt.desc = !fw
	pmask, err := c14sMaskOf(readSet())
	if err != nil {
		return err
	}
	cmask, err := c14sMaskOf(readSet())
	if err != nil {
		return err
	}
	if flt.fmask, err = c14sMaskOf(readSet()); err != nil {
		return err
	}
	nops := 0
	fmt.Sscan(next(), &nops)
	ops := make([]c14Op, nops)
	for i := range ops {
		ops[i] = c14ParseOp(next())
	}
	db, err := bbolt.Open(filepath.Join(dir, "scan.db"), 0o600, nil)
	if err != nil {
		return err
	}
	defer db.Close()
	k := c14sKinds[kn]
	var w *c14sWorld
	c14Must(db.Update(func(tx *bbolt.Tx) error {
		w = c14sBuild(tx, "r", pmask, cmask, k == nil || !k.nobkt)
		return nil
	}))
	return db.View(func(tx *bbolt.Tx) error {
		if k != nil {
			node := flt.node(k.store(w))
			out.emit(kn, line, c14RunOps(func() ast.SetCursor { return k.cursor(w, tx, node) }, ops, c14SeekPlain))
			return nil
		}
		switch kn {
		case "qc", "qcc", "qcx", "qci", "qca", "qct":
			store, provider := c14sProvider(kn, w)
			out.emit(kn, line, c14sQueryRun(store, tx, provider, flt.query(store), len(ops)))
			return nil
		}
		return fmt.Errorf("unknown kind %q", kn)
	})
}
