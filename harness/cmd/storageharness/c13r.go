package main

import (
	"fmt"
	"strconv"
	"strings"

	"github.com/openziti/storage/boltz"
)

// C13: the REPRESENTATION of the field checker handed to the library (coq/theories/Codec/CheckerRepr.v).
// boltz.FieldChecker is an interface; a selection of field names can reach ProceedWithSet as
//
//	*                       the nil interface (no restriction)
//	c <n> <name>{n}         an allocated boltz.MapFieldChecker
//	r mn 0                  var m boltz.MapFieldChecker - a nil map inside the interface: selects nothing
//	r ma <n> ..             boltz.MapFieldChecker{...} (as c)
//	r pm <n> ..             *boltz.MapFieldChecker pointing at a nil (n = 0) or allocated map
//	r em <n> ..             a struct embedding boltz.MapFieldChecker (nil for n = 0)
//	r pp <n> ..             a pointer-receiver implementation, non-nil pointer
//	r pn 0                  the typed nil pointer of that type (IsUpdated works on the nil receiver: false)
//	r sv <n> ..             a struct value with a value receiver
//	r sl <n> .. / r sn 0    a slice type, allocated / nil
//	r fn <n> .. / r f0 0    a func type, non-nil / nil
//	r mb <n> ..             a map[string]bool type (nil for n = 0)
//	o <n> (<from> <to>){n} <checker>   MappedFieldChecker around <checker>; on <checker>: with a nil mappings map
//
// The model reads all of them as the predicate "name is one of the names" (a nil map, pointer,
// slice, func: the predicate false).

type c13rPtrChecker struct{ names map[string]struct{} }

func (p *c13rPtrChecker) IsUpdated(name string) bool {
	if p == nil {
		return false
	}
	_, ok := p.names[name]
	return ok
}

type c13rValChecker struct{ names map[string]struct{} }

func (v c13rValChecker) IsUpdated(name string) bool {
	_, ok := v.names[name]
	return ok
}

type c13rSliceChecker []string

func (l c13rSliceChecker) IsUpdated(name string) bool {
	for _, n := range l {
		if n == name {
			return true
		}
	}
	return false
}

type c13rFuncChecker func(string) bool

func (f c13rFuncChecker) IsUpdated(name string) bool { return f != nil && f(name) }

type c13rBoolMapChecker map[string]bool

func (m c13rBoolMapChecker) IsUpdated(name string) bool { return m[name] }

type c13rEmbedChecker struct{ boltz.MapFieldChecker }

func c13rNameSet(names []string) map[string]struct{} {
	if len(names) == 0 {
		return nil
	}
	m := map[string]struct{}{}
	for _, n := range names {
		m[n] = struct{}{}
	}
	return m
}

// c13rIsMapFieldChecker: the representations whose ToSlice is observed
func c13rIsMapFieldChecker(repr string) bool { return repr == "mn" || repr == "ma" }

func c13rBuild(repr string, names []string) boltz.FieldChecker {
	needEmpty := func() {
		if len(names) != 0 {
			panic("c13: representation " + repr + " holds no names")
		}
	}
	switch repr {
	case "mn":
		needEmpty()
		var m boltz.MapFieldChecker
		return m
	case "ma":
		m := boltz.MapFieldChecker{}
		for _, n := range names {
			m[n] = struct{}{}
		}
		return m
	case "pm":
		p := new(boltz.MapFieldChecker)
		if set := c13rNameSet(names); set != nil {
			*p = set
		}
		return p
	case "em":
		return c13rEmbedChecker{MapFieldChecker: c13rNameSet(names)}
	case "pp":
		return &c13rPtrChecker{names: c13rNameSet(names)}
	case "pn":
		needEmpty()
		var p *c13rPtrChecker
		return p
	case "sv":
		return c13rValChecker{names: c13rNameSet(names)}
	case "sl":
		return append(c13rSliceChecker{}, names...)
	case "sn":
		needEmpty()
		var l c13rSliceChecker
		return l
	case "fn":
		set := c13rNameSet(names)
		return c13rFuncChecker(func(name string) bool { _, ok := set[name]; return ok })
	case "f0":
		needEmpty()
		var f c13rFuncChecker
		return f
	case "mb":
		if len(names) == 0 {
			var m c13rBoolMapChecker
			return m
		}
		m := c13rBoolMapChecker{}
		for _, n := range names {
			m[n] = true
		}
		return m
	}
	panic("c13: bad checker representation " + repr)
}

// representations of the empty selection, of any selection
var c13rEmptyReprs = []string{"mn", "pn", "sn", "f0", "mb", "em", "pm", "sv", "pp", "sl", "fn", "ma"}
var c13rAnyReprs = []string{"ma", "pm", "em", "pp", "sv", "sl", "fn", "mb"}

// c13rRender: a plain selection in a representation drawn by the second generator (the case
// stream of the first one stays what it was)
func (g *c13Gen) c13rRender(names []string) string {
	plain := "c " + strconv.Itoa(len(names)) + c13Join(names)
	if g.r2 == nil || !g.r2.chance(40) {
		return plain
	}
	var repr string
	if len(names) == 0 && g.r2.chance(70) {
		repr = c13rEmptyReprs[g.r2.intn(len(c13rEmptyReprs))]
	} else {
		repr = c13rAnyReprs[g.r2.intn(len(c13rAnyReprs))]
	}
	return "r " + repr + " " + strconv.Itoa(len(names)) + c13Join(names)
}

// c13rBoundary: small systematic cases, no randomness; the shortest first (they become the replays)
func (g *c13Gen) c13rBoundary() {
	emit := func(stat string, format string, a ...interface{}) {
		g.emit(format, a...)
		g.stats[stat]++
	}
	// one stored string, one SetString under a checker selecting nothing
	for _, repr := range c13rEmptyReprs {
		for _, api := range []string{"b", "c"} {
			emit("repr_minimal", "S D 1 61 L 0578 1 P %s r %s 0 1 str 61 6e6577 R 1 61", api, repr)
		}
	}
	// every setter under every empty selection, on an entity holding every field (a string; a string
	// list under k, l; a map under m; a list under n): nothing may change
	fields := "D 14 61 L 0578 62 L 0578 63 L 0578 64 L 0578 65 L 0578 66 L 0578 67 L 0578 68 L 0578 69 L 0578 6a L 0578 " +
		"6b D 1 0578 L - 6c D 1 0578 L - 6d D 1 6b L 0578 6e D 2 0200000000 L 0578 " + hxs(c13Marker) + " L 0201000000"
	ops := []string{"str 61 6e6577", "strp 62 n", "strp 62 s -", "bool 63 1", "i32 64 -1", "i64 65 -1", "f64 66 3ff0000000000000",
		"time 67 63000000000 7 z3600", "timep 68 n", "timep 68 t 63000000000 7 u", "gss 69 6e6577", "req 6a 6e6577",
		"slist 6b 0", "gsl 6c 2 61 62", "map 6d 1 0", "map 6d 0 1 6b n", "list 6e 0"}
	reads := "R 14 61 62 63 64 65 66 67 68 69 6a 6b 6c 6d 6e"
	wrappers := []string{"%s", "o 1 61 62 %s", "on %s", "o 0 %s", "o 1 61 62 o 1 62 63 %s", "on on %s", "o 2 61 6d 6d 61 %s"}
	for _, repr := range c13rEmptyReprs {
		for wi, wr := range wrappers {
			for _, api := range []string{"b", "c"} {
				if wi > 0 && repr != "mn" && repr != "pn" && repr != "ma" && api == "b" {
					continue
				}
				chk := fmt.Sprintf(wr, "r "+repr+" 0")
				emit("repr_all_setters", "S %s 1 P %s %s %d %s %s", fields, api, chk, len(ops), strings.Join(ops, " "), reads)
			}
		}
	}
	// one name selected, in every representation and under wrappers: a, b stored; both written
	for _, repr := range c13rAnyReprs {
		for _, sel := range []string{"61", "62", "7a"} {
			for _, wr := range []string{"%s", "o 1 62 61 %s", "on %s", "o 1 61 62 o 1 62 7a %s"} {
				for _, api := range []string{"b", "c"} {
					chk := fmt.Sprintf(wr, "r "+repr+" 1 "+sel)
					emit("repr_one_name", "S D 2 61 L 0578 62 L 0579 1 P %s %s 3 str 61 6e6577 i64 62 7 strp 7a n R 3 61 62 7a", api, chk)
				}
			}
		}
	}
	// wrappers around the plain map checker: nil mappings, nested twice, chains of renames
	for _, chk := range []string{"on c 1 61", "on c 0", "on on c 1 62", "o 1 61 62 o 1 62 63 c 1 63", "o 1 61 62 o 1 62 63 c 1 62", "o 1 61 62 o 1 61 63 c 1 63",
		"o 1 61 62 on c 1 62", "on o 1 61 62 c 1 62", "o 1 61 62 o 1 62 61 c 1 61", "on *", "o 1 61 62 on *"} {
		for _, api := range []string{"b", "c"} {
			emit("repr_wrappers", "S D 3 61 L 0578 62 L 0579 63 L 057a 1 P %s %s 3 str 61 6e6577 str 62 6e6577 str 63 6e6577 R 3 61 62 63", api, chk)
		}
	}
	// persists over two stores: parent field a, child field c, parent part written through the derived
	// context; every representation of {}, {a}, {c}, {a, c}
	x2 := "X 2 1 657874 0 6531 D 2 61 L 0578 657874 D 1 63 L 0579"
	for _, order := range []string{"3 s 0 str 63 6e6577 g 0 s 1 str 61 6a756e6b", "3 g 0 s 1 str 61 6a756e6b s 0 str 63 6e6577"} {
		for _, repr := range c13rEmptyReprs {
			emit("repr_persist", "%s 1 P 0 r %s 0 %s R 2 0 63 1 61", x2, repr, order)
		}
		for _, repr := range c13rAnyReprs {
			for _, sel := range []string{"1 61", "1 63", "2 61 63"} {
				emit("repr_persist", "%s 1 P 0 r %s %s %s R 2 0 63 1 61", x2, repr, sel, order)
			}
		}
	}
	// ... with overrides on the store's context / the derived one (allocated and nil mappings), every
	// PersistContext-only call, a create; under the empty selections and one selecting c
	progs := []string{
		"4 w 0 1 61 63 g 0 s 1 str 61 7a s 0 str 63 79",
		"4 g 0 w 1 1 61 63 s 1 str 61 7a s 0 str 63 79",
		"4 g 0 wn 1 s 1 str 61 7a s 0 str 63 79",
		"5 wn 0 w 0 1 61 63 g 0 s 1 str 61 7a s 0 str 63 79",
		"6 w 0 1 61 63 w 0 1 63 61 g 0 w 1 1 61 63 s 1 str 61 7a s 0 str 63 79",
		"7 g 0 s 1 links " + hxs(c13xLinkField) + " 2 7031 7032 s 1 isc 61 63 75 s 0 id 63 s 0 tx 63 s 1 req 61 76 s 1 gss 61 76",
		"5 g 0 s 1 gsl 61 2 62 61 s 1 timep 61 n s 0 map 63 1 1 6b s 76 s 0 strp 63 n",
	}
	chks := []string{"r mn 0", "r pn 0", "r sn 0", "r f0 0", "r pm 0", "c 0", "r pp 1 63", "r fn 1 63", "on r mn 0", "o 1 63 61 r mn 0"}
	for _, prog := range progs {
		for _, chk := range chks {
			for _, create := range []int{0, 1} {
				emit("repr_persist_calls", "%s 1 P %d %s %s R 3 0 63 1 61 1 %s", x2, create, chk, prog, hxs(c13xLinkField))
			}
		}
	}
	// the same mappings in several contexts and several persists (stores keep them in package level
	// variables: one map object): phases 1 and 2 are the same persist, phase 3 another one
	for _, chk := range []string{"c 1 63", "c 1 61", "r mn 0", "r pp 1 62", "*"} {
		p1 := "6 w 0 1 61 63 g 0 w 1 1 62 61 w 0 1 62 63 s 1 str 61 7a s 0 str 62 79"
		p3 := "5 g 0 w 1 1 62 61 s 1 str 62 78 s 1 str 61 77 s 0 str 61 76"
		emit("repr_shared_mappings", "X 2 1 657874 0 6531 D 3 61 L 0578 62 L 0578 657874 D 3 61 L 0579 62 L 0579 63 L 0579 3 P 0 %s %s P 0 %s %s P 0 %s %s R 5 0 61 0 62 0 63 1 61 1 62",
			chk, p1, chk, p1, chk, p3)
	}
	// three stores, the checker handed down twice
	for _, chk := range []string{"r mn 0", "r pn 0", "r em 0", "r sl 1 61", "r mb 1 62", "on r mn 0"} {
		for _, ch := range [][][]string{{{"ext", "sub"}, {"ext"}, {}}, {{"g"}, {"ext"}, {}}} {
			dump := c13xNewBucket()
			for l, p := range ch {
				dump.at(p).kids["a"] = &c13xNode{leaf: []byte{5, byte('0' + l)}}
				dump.at(p).kids["b"] = &c13xNode{leaf: []byte{5, byte('5' + l)}}
			}
			emit("repr_persist3", "X %s 6531 %s 1 P 0 %s 8 g 0 g 1 s 2 str 61 7a s 1 str 61 79 s 0 str 61 78 s 0 i32 62 7 s 1 bool 62 1 s 2 strp 62 n R 6 0 61 0 62 1 61 1 62 2 61 2 62",
				c13xChainTok(ch), dump.dump(), chk)
		}
	}
}
