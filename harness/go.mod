module verif/harness

go 1.23.0

require (
	github.com/openziti/storage v0.0.0
	github.com/antlr4-go/antlr/v4 v4.13.1
	github.com/biogo/store v0.0.0-20190426020002-884f370e325d
	github.com/google/go-cmp v0.7.0
	github.com/google/uuid v1.6.0
	github.com/michaelquigley/pfxlog v0.6.10
	github.com/openziti/foundation/v2 v2.0.59
	github.com/pkg/errors v0.9.1
	github.com/stretchr/testify v1.10.0
	go.etcd.io/bbolt v1.4.0
	github.com/davecgh/go-spew v1.1.1 // indirect
	github.com/mattn/go-colorable v0.1.12 // indirect
	github.com/mattn/go-isatty v0.0.14 // indirect
	github.com/mgutz/ansi v0.0.0-20200706080929-d51e80ef957d // indirect
	github.com/pmezard/go-difflib v1.0.0 // indirect
	github.com/sirupsen/logrus v1.8.1 // indirect
	golang.org/x/crypto v0.1.0 // indirect
	golang.org/x/exp v0.0.0-20240506185415-9bf2ced13842 // indirect
	golang.org/x/sys v0.31.0 // indirect
	golang.org/x/term v0.30.0 // indirect
	gopkg.in/yaml.v3 v3.0.1 // indirect
)

replace github.com/openziti/storage => /repo
