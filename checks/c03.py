"""C03 - unique and set indexes mirror entity state; uniqueness is enforced."""
import json

import storefam
import vlib

PID = "C03"
FILES = ["theories/Properties/C03.v", "theories/Examples/C03Examples.v"]
FACTS = ("E", "F", "S", "C", "CF", "U", "X", "XK", "JUNK")


def compare(a, b):
    if storefam.proj_results(a) != storefam.proj_results(b):
        return "results impl %s vs model %s" % (storefam.proj_results(a), storefam.proj_results(b))
    fa, fb = storefam.proj_facts(a, FACTS), storefam.proj_facts(b, FACTS)
    if fa != fb:
        return "entity/index facts differ: only impl %s ; only model %s" % (sorted(set(fa) - set(fb))[:6], sorted(set(fb) - set(fa))[:6])
    return None


def nonnull_oracle(sch, facts):
    """C03 (theorem nonnull_unique_never_empty): every entity of a root store holds a non-empty string in
    each field carrying a NON-nullable unique index."""
    probs = []
    ents, fvals = {}, {}
    for f in facts:
        p = f.split(":")
        if p[0] == "E":
            ents.setdefault(p[1], set()).add(p[2])
        elif p[0] == "F":
            fvals[(p[1], p[2], p[3])] = p[4]
    for sname in sch.order:
        sd = sch.stores[sname]
        if sd["parent"]:
            continue
        for c in sd["cons"]:
            if c[0] == "U" and not c[2]:
                for i in sorted(ents.get(sname, ())):
                    v = fvals.get((sname, i, c[1]), "absent")
                    if not (v.startswith("s") and v != "s-"):
                        probs.append("unique index %s.%s does not allow empty values but entity %s holds %s" % (sname, c[1], i, v))
    return probs


def oracle(sch, txs, io, mo):
    out = []
    prev = []
    for k, a in enumerate(io):
        if a["commit"]:
            nn = nonnull_oracle(sch, a["facts"])
            if nn:
                out.append(("C03:nonnull-unique-empty", "after a committed transaction: " + "; ".join(nn[:3]), k))
                break
            probs = storefam.index_oracle(sch, a["facts"])
            if probs:
                kind = "unique" if probs[0].startswith("unique") else ("set" if probs[0].startswith("set") else "junk")
                out.append(("C03:index-mirror-" + kind, "after a committed transaction: " + "; ".join(probs[:3]), k))
                break
        else:
            fa, fp = storefam.proj_facts(a, FACTS), tuple(f for f in prev if f.split(":", 1)[0] in FACTS)
            if fa != fp:
                out.append(("C03:rejected-op-changed-state", "a rejected operation changed entities or indexes: +%s -%s" % (
                    sorted(set(fa) - set(fp))[:4], sorted(set(fp) - set(fa))[:4]), k))
                break
        prev = a["facts"]
    return out


def main(argv):
    c = vlib.Check(PID, argv)
    c.assumptions = ["bbolt rollback restores the previous content (trusted; observed by the full traversal after every transaction)"]
    proof_ok = c.proof_step(FILES)
    storefam.run_family(c, "c03", 1200, 20000, compare, oracle,
                        "seeded histories (1-7 transactions x 1-3 ops: create / full update / field-checker update / delete / link ops, through parent "
                        "and child stores, 6 ids x 5 values incl. the empty string so collisions, value hand-over, swaps and re-creation are the norm) over "
                        "wirings with nullable and non-nullable unique indexes, set indexes, fk indexes, cascades and child stores; after every "
                        "transaction the bolt file is traversed; op results and entity/index facts are compared with the extracted machine and the "
                        "index-mirrors-entities oracle is evaluated directly on the implementation's facts. Every second history is a WARM one "
                        "(store_c03s.go): the stores are first populated (fk targets first, distinct unique values), then short mostly-valid "
                        "transactions perturb string sets (add / drop / replace one member keeping the others, re-order, duplicate, empty), hand "
                        "unique values over or collide on purpose, delete and re-create - so index maintenance on populated stores commits often.",
                        command="store_c03s")
    if not proof_ok:
        c.violation(PID + ":proof", "proof obligation no longer checks: %s" % json.dumps(c.proof_broken)[:600],
                    dict(broken=c.proof_broken), no_input=True)
    return c.finish()
