"""C03 - unique and set indexes mirror entity state; uniqueness is enforced."""
import json

import storefam
import vlib

PID = "C03"
FILES = ["theories/Properties/C03.v", "theories/Examples/C03Examples.v"]
FACTS = ("E", "F", "S", "C", "CF", "U", "X", "XK", "JUNK")


def compare(a, b):
    if storefam.proj_results(a) != storefam.proj_results(b):
        return "results impl %s vs model %s" % (storefam.proj_results(a), storefam.proj_results(b))
    fa, fb = storefam.proj_facts(a, FACTS), storefam.proj_facts(b, FACTS)
    if fa != fb:
        return "entity/index facts differ: only impl %s ; only model %s" % (sorted(set(fa) - set(fb))[:6], sorted(set(fb) - set(fa))[:6])
    return None


def oracle(sch, txs, io, mo):
    out = []
    prev = []
    for k, a in enumerate(io):
        if a["commit"]:
            probs = storefam.index_oracle(sch, a["facts"])
            if probs:
                kind = "unique" if probs[0].startswith("unique") else ("set" if probs[0].startswith("set") else "junk")
                out.append(("C03:index-mirror-" + kind, "after a committed transaction: " + "; ".join(probs[:3]), k))
                break
        else:
            fa, fp = storefam.proj_facts(a, FACTS), tuple(f for f in prev if f.split(":", 1)[0] in FACTS)
            if fa != fp:
                out.append(("C03:rejected-op-changed-state", "a rejected operation changed entities or indexes: +%s -%s" % (
                    sorted(set(fa) - set(fp))[:4], sorted(set(fp) - set(fa))[:4]), k))
                break
        prev = a["facts"]
    return out


def main(argv):
    c = vlib.Check(PID, argv)
    c.assumptions = ["bbolt rollback restores the previous content (trusted; observed by the full traversal after every transaction)"]
    proof_ok = c.proof_step(FILES)
    storefam.run_family(c, "c03", 1200, 20000, compare, oracle,
                        "seeded histories (1-7 transactions x 1-3 ops: create / full update / field-checker update / delete / link ops, through parent "
                        "and child stores, 6 ids x 5 values incl. the empty string so collisions, value hand-over, swaps and re-creation are the norm) over "
                        "wirings with nullable and non-nullable unique indexes, set indexes, fk indexes, cascades and child stores; after every "
                        "transaction the bolt file is traversed; op results and entity/index facts are compared with the extracted machine and the "
                        "index-mirrors-entities oracle is evaluated directly on the implementation's facts.")
    if not proof_ok:
        c.violation(PID + ":proof", "proof obligation no longer checks: %s" % json.dumps(c.proof_broken)[:600],
                    dict(broken=c.proof_broken), no_input=True)
    return c.finish()
