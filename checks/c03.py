"""C03 - unique and set indexes mirror entity state; uniqueness is enforced."""
import json
import re

import storefam
import storefamx
import vlib

PID = "C03"
FILES = ["theories/Properties/C03.v", "theories/Examples/C03Examples.v", "theories/Examples/C03Wirings.v"]
FACTS = ("E", "F", "S", "C", "CF", "U", "X", "XK", "JUNK")


def compare(a, b):
    if storefam.proj_results(a) != storefam.proj_results(b):
        return "results impl %s vs model %s" % (storefam.proj_results(a), storefam.proj_results(b))
    fa, fb = storefam.proj_facts(a, FACTS), storefam.proj_facts(b, FACTS)
    if fa != fb:
        return "entity/index facts differ: only impl %s ; only model %s" % (sorted(set(fa) - set(fb))[:6], sorted(set(fb) - set(fa))[:6])
    return None


def nonnull_oracle(sch, facts):
    """C03 (theorem nonnull_unique_never_empty): every entity of a root store holds a non-empty string in
    each field carrying a NON-nullable unique index."""
    probs = []
    ents, fvals = {}, {}
    for f in facts:
        p = f.split(":")
        if p[0] == "E":
            ents.setdefault(p[1], set()).add(p[2])
        elif p[0] == "F":
            fvals[(p[1], p[2], p[3])] = p[4]
    for sname in sch.order:
        sd = sch.stores[sname]
        if sd["parent"]:
            continue
        for c in sd["cons"]:
            if c[0] == "U" and not c[2]:
                for i in sorted(ents.get(sname, ())):
                    v = fvals.get((sname, i, c[1]), "absent")
                    if not (v.startswith("s") and v != "s-"):
                        probs.append("unique index %s.%s does not allow empty values but entity %s holds %s" % (sname, c[1], i, v))
    return probs


def _unhex(h):
    if h == "-":
        return ""
    try:
        return bytes.fromhex(h).decode("latin-1")
    except ValueError:
        return "?" + h


def _declared_indexes(sch):
    """-> {(entity type, field): "U" | "SI"} : where the schema puts an index bucket (<base>/indexes/<type>/<symbol>)"""
    decl = {}
    for sname in sch.order:
        for c in sch.stores[sname]["cons"]:
            if c[0] in ("U", "SI"):
                decl[(sch.root(sname), c[1])] = c[0]
    return decl


def misplaced_index_oracle(sch, facts, other=()):
    """Every index entry found by the raw traversal lies in the bucket of an index the schema declares for that entity
    type and symbol, and has the shape of that kind of index (unique: value -> id ; set: value -> bucket of ids).
    An entry elsewhere is an index written to the wrong place: the index it belongs to does not mirror the entities
    and the index it landed in holds a value no entity has in that field."""
    decl = _declared_indexes(sch)
    roots = set(sch.root(s) for s in sch.order)
    probs = []
    for t in other:
        if t.startswith("IXTOP:"):
            probs.append("bucket %s at the top of the database file, outside the stores' base path" % _unhex(t[6:]))
    strange = set()
    for f in facts:
        p = f.split(":")
        if p[0] in ("E", "F", "S", "C", "CF") and len(p) >= 3 and p[1] not in roots and p[1] not in strange:
            strange.add(p[1])
            probs.append("bucket %s next to the store buckets is not a store of the schema (first entry %s)" % (p[1], f))
        if p[0] in ("U", "X", "XK") and len(p) >= 4:
            kind = decl.get((p[1], p[2]))
            want = "U" if p[0] == "U" else "SI"
            if p[0] == "U":
                what = "unique-index entry %s -> %s" % (_unhex(p[3]), _unhex(p[4]) if len(p) > 4 else "?")
            elif p[0] == "X":
                what = "set-index entry %s -> {%s}" % (_unhex(p[3]), _unhex(p[4]) if len(p) > 4 else "?")
            else:
                what = "set-index key %s" % _unhex(p[3])
            if kind is None:
                probs.append("%s found under indexes/%s/%s where the schema declares no index" % (what, p[1], p[2]))
            elif kind != want:
                probs.append("%s found in the bucket of the %s index %s.%s" % (what, "unique" if kind == "U" else "set", p[1], p[2]))
    return probs


def index_read_oracle(sch, tx):
    """The read API of the indexes (tokens of store_c03s.go c03IndexReads) against the entities of the same observation:
    ReadIndex.Read(v) is the one entity holding v in THAT field or nil; SetReadIndex.Read(v) visits exactly the entities
    whose set contains v; ReadKeys lists exactly the values somebody holds."""
    toks = tx.get("other", ())
    probed = None
    uread, sread, skeys = {}, {}, {}
    for t in toks:
        p = t.split(":")
        if p[0] == "IXP":
            probed = p[1].split(",")
        elif p[0] == "IXU":
            uread[(p[1], p[2], p[3])] = p[4]
        elif p[0] == "IXS":
            sread[(p[1], p[2], p[3])] = set(p[4].split(","))
        elif p[0] == "IXK":
            skeys[(p[1], p[2])] = set(p[3].split(","))
        elif p[0] == "IXPANIC":
            return ["reading the indexes through their API panicked: %s" % _unhex(p[1])]
    if probed is None:
        if any(t.startswith("IX") for t in toks):
            return ["index reads without a probe list"]
        probed = []
    facts = tx["facts"]
    ents, fvals, setm, child = {}, {}, {}, set()
    for f in facts:
        p = f.split(":")
        if p[0] == "E":
            ents.setdefault(p[1], set()).add(p[2])
        elif p[0] == "F":
            fvals[(p[1], p[2], p[3])] = p[4]
        elif p[0] == "CF":
            fvals[(p[1], p[2], p[3] + "." + p[4])] = p[5]
        elif p[0] == "S":
            setm.setdefault((p[1], p[2], p[3]), set()).add(p[4])
        elif p[0] == "C":
            child.add((p[1], p[2], p[3]))
    probs = []
    for sname in sch.order:
        sd = sch.stores[sname]
        root = sch.root(sname)
        for c in sd["cons"]:
            if c[0] == "U":
                field = c[1]
                holders = {}
                for i in ents.get(root, ()):
                    if sd["parent"]:
                        if (root, i, sname) not in child:
                            continue
                        v = fvals.get((root, i, sname + "." + field), "absent")
                    else:
                        v = fvals.get((root, i, field), "absent")
                    if v.startswith("s") and v != "s-":
                        holders.setdefault(v[1:], []).append(i)
                for v in probed:
                    got = uread.get((sname, field, v))
                    hs = holders.get(v, [])
                    if len(hs) > 1:
                        continue  # uniqueness itself is broken: reported by the mirror oracle
                    want = hs[0] if hs else None
                    if got != want:
                        probs.append("unique index %s.%s: Read(%s) returns %s but %s" % (
                            sname, field, _unhex(v), "entity " + _unhex(got) if got else "nil",
                            ("entity %s holds that value" % _unhex(want)) if want else "no entity has that value in this field"))
                for (s2, f2, v), got in sorted(uread.items()):
                    if (s2, f2) == (sname, field) and v not in probed:
                        probs.append("unique index %s.%s: Read(%s) = %s for a value that was not probed" % (sname, field, v, got))
            elif c[0] == "SI":
                setf = c[1]
                want = {}
                for i in ents.get(root, ()):
                    if sd["parent"] and (root, i, sname) not in child:
                        continue  # a set index owned by a child store lists the entities that live in that child store
                    for m in setm.get((root, i, setf), ()):
                        want.setdefault(m, set()).add(i)
                for v in probed:
                    got = sread.get((sname, setf, v), set())
                    w = want.get(v, set()) if v != "-" else set()
                    if got != w:
                        probs.append("set index %s.%s: Read(%s) visits %s but the entities whose set contains it are %s" % (
                            sname, setf, _unhex(v), sorted(_unhex(x) for x in got), sorted(_unhex(x) for x in w)))
                gk = skeys.get((sname, setf), set())
                wk = set(k for k in want if k != "-")
                if gk != wk:
                    probs.append("set index %s.%s: ReadKeys lists %s but the values held are %s" % (
                        sname, setf, sorted(_unhex(x) for x in gk), sorted(_unhex(x) for x in wk)))
    return probs


class _RootIndexView:
    """the schema without the set indexes owned by child stores (storefam.index_oracle reads a set index as one over
    all entities of the root store)"""

    def __init__(self, sch):
        self.order = sch.order
        self.root = sch.root
        self.stores = {}
        for n, sd in sch.stores.items():
            self.stores[n] = dict(sd, cons=[c for c in sd["cons"] if not (c[0] == "SI" and sd["parent"])]) if sd["parent"] else sd


def child_set_index_oracle(sch, facts):
    """A set index owned by a CHILD store c over the string list f (of the parent): rows exactly for the entities that
    live in c, under exactly the members of their list; no rows for deleted entities, no stale members, no empty keys."""
    owned = [(n, c[1]) for n in sch.order if sch.stores[n]["parent"] for c in sch.stores[n]["cons"] if c[0] == "SI"]
    if not owned:
        return []
    ents, setm, child = {}, {}, set()
    for f in facts:
        p = f.split(":")
        if p[0] == "E":
            ents.setdefault(p[1], set()).add(p[2])
        elif p[0] == "S":
            setm.setdefault((p[1], p[2], p[3]), set()).add(p[4])
        elif p[0] == "C":
            child.add((p[1], p[2], p[3]))
    probs = []
    for cname, setf in owned:
        root = sch.root(cname)
        if any(c[0] == "SI" and c[1] == setf for n in sch.order if n != cname and sch.root(n) == root for c in sch.stores[n]["cons"]):
            continue  # two stores of the family share the bucket: not a shape the property speaks about
        want = set((m, i) for i in ents.get(root, ()) if (root, i, cname) in child for m in setm.get((root, i, setf), ()))
        have, keys = set(), set()
        for f in facts:
            p = f.split(":")
            if p[0] == "X" and p[1] == root and p[2] == setf:
                have.add((p[3], p[4]))
            elif p[0] == "XK" and p[1] == root and p[2] == setf:
                keys.add(p[3])
        for m, i in sorted(have - want):
            if i not in ents.get(root, ()):
                probs.append("set index %s.%s: entry %s -> %s for an entity that does not exist" % (cname, setf, m, i))
            elif (root, i, cname) not in child:
                probs.append("set index %s.%s: entry %s -> %s for an entity that does not live in %s" % (cname, setf, m, i, cname))
            else:
                probs.append("set index %s.%s: stale entry %s -> %s" % (cname, setf, m, i))
        for m, i in sorted(want - have):
            probs.append("set index %s.%s: entity %s holds %s but is not indexed" % (cname, setf, i, m))
        for k in sorted(keys - set(m for m, _ in have)):
            probs.append("set index %s.%s: empty index key %s left behind" % (cname, setf, k))
    return probs


def mirror_oracle(sch, facts):
    """index mirrors entities, for every index of every store of the schema (root and child stores)"""
    probs = storefam.index_oracle(_RootIndexView(sch), facts) + child_set_index_oracle(sch, facts)
    ents = set(tuple(f.split(":")[1:3]) for f in facts if f.startswith("E:"))
    out = []
    for pr in probs:
        m = _STALE_UNIQUE.match(pr)
        if m and m.group(1) in sch.stores and (sch.root(m.group(1)), m.group(4)) not in ents:
            pr = "unique index %s.%s: entry %s -> %s for an entity that does not exist" % m.groups()
        out.append(pr)
    return out


_STALE_UNIQUE = re.compile(r"^unique index ([^.]+)\.([^:]+): stale entry (\S+) -> (\S+)$")


def bogus_duplicate_oracle(sch, tx_toks, results, before):
    """A create / update is refused with UniqueIndexDuplicateError only if it would give two entities the same unique
    value (theorems unique_duplicate_only_when_held_update / _create).  Evaluated when the FIRST operation of a transaction is the one
    refused with that error, so that the facts observed before the transaction are the state it ran in: some unique
    index of the operation's store family must then map a non-empty value the operation supplies for its field to
    ANOTHER entity (fields the field checker leaves alone keep their value, which by the mirror property nobody else
    holds, so ignoring the checker only makes this oracle more lenient)."""
    if results != ["dup"]:
        return []
    try:
        ops = storefamx.parse_ops(tx_toks)[3]
    except (IndexError, ValueError):
        return []
    if not ops or ops[0].get("kind") not in ("C", "UP"):
        return []
    op = ops[0]
    root = sch.root(op["store"])
    ents, fvals, child = set(), {}, set()
    for f in before:
        p = f.split(":")
        if p[0] == "E" and p[1] == root:
            ents.add(p[2])
        elif p[0] == "F" and p[1] == root:
            fvals[(p[2], p[3])] = p[4]
        elif p[0] == "CF" and p[1] == root:
            fvals[(p[2], p[3] + "." + p[4])] = p[5]
        elif p[0] == "C" and p[1] == root:
            child.add((p[2], p[3]))
    uniques = []
    for sname in sch.order:
        if sch.root(sname) != root:
            continue
        for c in sch.stores[sname]["cons"]:
            if c[0] == "U":
                uniques.append((sname, c[1]))
    for sname, field in uniques:
        v = op["fv"].get(field, "N")
        if v in ("N", "-"):
            continue
        key = field if not sch.stores[sname]["parent"] else sname + "." + field
        for j in ents:
            if j != op["id"] and fvals.get((j, key)) == "s" + v and (not sch.stores[sname]["parent"] or (j, sname) in child):
                return []
    supplied = ", ".join("%s.%s=%s" % (sn, f, op["fv"].get(f, "N")) for sn, f in uniques)
    return ["%s of %s %s is refused with UniqueIndexDuplicateError although no other entity holds any of the unique values it "
            "supplies (%s)" % ("create" if op["kind"] == "C" else "update", op["store"], _unhex(op["id"]), supplied)]


def _typed_note(sch):
    if getattr(sch, "wiring", "").startswith("c03typ"):
        return (" [wiring %s has int64/int32/bool/float64/datetime fields: values are shown in their storage encoding = index "
                "key (integers and floats little endian, bool 00/01, datetime = time.MarshalBinary)]" % sch.wiring)
    return ""


def oracle(sch, txs, io, mo):
    out = _oracle(sch, txs, io, mo)
    note = _typed_note(sch)
    return [(key, desc + note, k) for key, desc, k in out] if note else out


def _oracle(sch, txs, io, mo):
    out = []
    prev = []
    full_txs = txs
    for k, a in enumerate(io):
        if a["commit"]:
            mp = misplaced_index_oracle(sch, a["facts"], a.get("other", ()))
            if mp:
                cons = mirror_oracle(sch, a["facts"])
                out.append(("C03:index-misplaced", "after a committed transaction: " + "; ".join(mp[:3]) +
                            ((" -- hence " + "; ".join(cons[:2])) if cons else ""), k))
                break
            nn = nonnull_oracle(sch, a["facts"])
            if nn:
                out.append(("C03:nonnull-unique-empty", "after a committed transaction: " + "; ".join(nn[:3]), k))
                break
            probs = mirror_oracle(sch, a["facts"])
            if probs:
                kind = "unique" if probs[0].startswith("unique") else ("set" if probs[0].startswith("set") else "junk")
                out.append(("C03:index-mirror-" + kind, "after a committed transaction: " + "; ".join(probs[:3]), k))
                break
            rp = index_read_oracle(sch, a)
            if rp:
                out.append(("C03:index-read", "after a committed transaction: " + "; ".join(rp[:3]), k))
                break
        else:
            fa, fp = storefam.proj_facts(a, FACTS), tuple(f for f in prev if f.split(":", 1)[0] in FACTS)
            if fa != fp:
                out.append(("C03:rejected-op-changed-state", "a rejected operation changed entities or indexes: +%s -%s" % (
                    sorted(set(fa) - set(fp))[:4], sorted(set(fp) - set(fa))[:4]), k))
                break
            bd = bogus_duplicate_oracle(sch, txs[k] if k < len(txs) else [], a["results"], prev)
            if bd:
                out.append(("C03:duplicate-error-without-duplicate", "; ".join(bd), k))
                break
        pan = [t for t in a.get("other", ()) if t.startswith("OPPANIC:")]
        if pan:
            # store_c03s.go c03RunHistory: the transaction after this one made the code under test panic; the index oracles
            # above found nothing wrong in the state it started in
            out.append(("C03:operation-panics", "the next transaction of the history (%s) panics inside boltz: %s" % (
                " ".join(full_txs[k + 1])[:300] if k + 1 < len(full_txs) else "cut from the case", _unhex(pan[0][8:])[:300]), k))
            break
        prev = a["facts"]
    return out


def _minimal_prefix(c):
    """replays of failing histories keep only the transactions up to the one at which the oracle fired (the executor is
    deterministic, a history prefix behaves the same); the untruncated history stays in the replay as full_case"""
    report = c.violation

    def violation(key, what, replay_obj, no_input=False):
        if isinstance(replay_obj, dict) and "case" in replay_obj and isinstance(replay_obj.get("tx"), int):
            k = replay_obj["tx"]
            parts = replay_obj["case"].split(" TX ")
            keep = k + 3 if key.endswith(":operation-panics") else k + 2  # the panicking transaction stays in the replay
            if len(parts) > keep:
                replay_obj = dict(replay_obj, full_case=replay_obj["case"], case=" TX ".join(parts[:keep]))
                for side in ("impl", "model"):
                    segs = replay_obj.get(side, "").split(" | ")
                    replay_obj[side] = " | ".join(segs[:k + 1]) + " | "
        return report(key, what, replay_obj, no_input)

    c.violation = violation


def _family_wirings_in_sync(c):
    """the family / bare-child schemas of Examples/C03Wirings.v (wf_* checked there by computation) are the text the
    harness prints from the wirings it runs (store_c03f.go c03fCoqText, store_c03b.go c03bCoqText, left in the work
    directory by every store_c03s run)"""
    import os
    if c.replay:
        return None
    text = open(os.path.join(vlib.VERIF, "coq", "theories", "Examples", "C03Wirings.v")).read()
    for fname, cmd, src in (("c03f_wirings.v", "store_c03f_coq", "store_c03f.go"), ("c03b_wirings.v", "store_c03b_coq", "store_c03b.go")):
        gen = os.path.join(c.work, fname)
        if not os.path.exists(gen):
            continue
        a, b = "(* BEGIN generated by storageharness %s *)\n" % cmd, "(* END generated by storageharness %s *)" % cmd
        if a not in text or b not in text:
            return "Examples/C03Wirings.v has no generated section for the wirings of %s" % src
        if text.split(a, 1)[1].split(b, 1)[0] != open(gen).read():
            return ("the schemas in Examples/C03Wirings.v differ from the wirings the harness runs (%s): "
                    "regenerate the section with `storageharness %s`" % (src, cmd))
    return None


def main(argv):
    c = vlib.Check(PID, argv)
    _minimal_prefix(c)
    c.assumptions = ["bbolt rollback restores the previous content (trusted; observed by the full traversal after every transaction)"]
    proof_ok = c.proof_step(FILES)
    storefam.run_family(c, "c03", 1200, 20000, compare, oracle,
                        "seeded histories (1-7 transactions x 1-3 ops: create / full update / field-checker update / delete / link ops, through parent "
                        "and child stores, 6 ids x 5 values incl. the empty string so collisions, value hand-over, swaps and re-creation are the norm) over "
                        "wirings with nullable and non-nullable unique indexes, set indexes, fk indexes, cascades and child stores; after every "
                        "transaction the bolt file is traversed; op results and entity/index facts are compared with the extracted machine and the "
                        "index-mirrors-entities oracle is evaluated directly on the implementation's facts. Every second history is a WARM one "
                        "(store_c03s.go): the stores are first populated (fk targets first, distinct unique values), then short mostly-valid "
                        "transactions perturb string sets (add / drop / replace one member keeping the others, re-order, duplicate, empty), hand "
                        "unique values over or collide on purpose, delete and re-create - so index maintenance on populated stores commits often. "
                        "A further third of the histories (own random stream) runs on stores whose BasePath has 1-4 elements, with exact capacity "
                        "or as one shared slice with spare capacity, that carry several unique and set indexes per store (root and child store, "
                        "different registration orders) plus the stock idx/casc shapes 3 and 4 levels deep; their warm histories move values "
                        "that one indexed field holds into ANOTHER indexed or plain field of the same store family (unique->unique, unique->set, "
                        "set->unique, set->set). After every transaction every unique and set index is also read through its API "
                        "(ReadIndex.Read, SetReadIndex.Read/ReadKeys) with every string stored anywhere in the database, and compared with the "
                        "entities; index entries the raw traversal finds in a bucket the schema declares no index (of that kind) for are reported. "
                        "A further quarter of the histories (third random stream, store_c03t.go) runs on wirings whose harness entity has int64 / "
                        "int32 / bool / float64 / datetime fields - persisted and read with the typed setters / getters, given to the machine as the "
                        "byte strings of their storage encoding, which are the index keys - with unique indexes on them (nullable and not, root and "
                        "child store, symbol name != key, base path depth 1-3) and per-type value universes at the type boundaries (0, -1, min, max, "
                        "-0.0, NaN, +-Inf, zero time, times 1 ns apart, a time without RFC 3339 text, numbers whose raw bytes are the decimal text of "
                        "another member); their warm histories also change a unique value by FULL updates. A transaction whose first operation is "
                        "refused with UniqueIndexDuplicateError is checked against the facts observed before it: some unique index of the family must "
                        "map a value the operation supplies to another entity (unique_duplicate_only_when_held_update / _create). "
                        "A further third of the histories (fourth random stream, store_c03f.go) runs on store FAMILIES: one parent store with two or three "
                        "child stores, plain and Extended(), in every registration order (extended first / in the middle / last), unique indexes on "
                        "every level, the parent's set index, a set index owned by a child store, cascades from an owner store through the parent and "
                        "through a child store; besides live and warm histories, systematic family histories create an entity through each store of "
                        "the family and delete it through each store of the family (or by the cascade), with an update in between, and create the same "
                        "unique values and set members again. The Coq schemas of these wirings (wf_unique_b / wf_cunique_b / wf_setidx_b by computation "
                        "in Examples/C03Wirings.v) are printed by the harness and compared with that file on every run. "
                        "A further quarter of the histories (fifth random stream, store_c03b.go) draws every field value and set member from a universe "
                        "built over ONE separator per history (comma, space, NUL, slash, nothing, ', ', colon, the type-tag bytes 01-07, newline, tab, "
                        "0xff, ...): fragments a b c d, their joins over 2 and 3 neighbours, the separator alone and as a prefix - so different sets "
                        "and unique-value pairs are re-groupings of one character sequence ({a<sep>b, c} vs {a, b<sep>c}: same size, same text under a "
                        "join); regrouping histories replace the string lists (and a pair of unique values) of a populated entity by another grouping "
                        "through field-restricted and full updates, regroup again, delete and re-create. Half of these histories run on wirings whose "
                        "child stores (plain, Extended(), one without fields, one beside a sibling with an index, one family cascade-deleted from an "
                        "owner) declare NO index or constraint while the parent carries unique and set indexes; family histories create / update / "
                        "delete through each of them.",
                        command="store_c03s")
    stale = _family_wirings_in_sync(c)
    if stale:
        c.violation(PID + ":proof", stale, dict(broken="Examples/C03Wirings.v vs harness wirings"), no_input=True)
    if not proof_ok:
        c.violation(PID + ":proof", "proof obligation no longer checks: %s" % json.dumps(c.proof_broken)[:600],
                    dict(broken=c.proof_broken), no_input=True)
    return c.finish()
