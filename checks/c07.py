"""C07 - transactions are all-or-nothing and every failure reaches the caller."""
import json

import storefam
import vlib

PID = "C07"
FILES = ["theories/Properties/C07.v", "theories/Properties/C07Derived.v", "theories/Properties/C07ErrFlow.v",
         "theories/Examples/C07Examples.v", "theories/Examples/C07Wirings.v",
         "theories/Properties/C07Ctx.v", "theories/Examples/C07Ctx.v",
         "theories/Properties/C07Quiet.v", "theories/Examples/C07Quiet.v",
         "theories/Properties/C07Panic.v", "theories/Examples/C07Panic.v"]


def hexs(s):
    return "".join("%02x" % b for b in s.encode()) or "-"


def unhex(h):
    return "" if h == "-" else bytes.fromhex(h).decode("utf-8", "replace")


def tx_vetoes(t):
    """t = token list of one transaction (without the leading TX) -> [(store, change, id)]"""
    n = int(t[2])
    return [(t[3 + 3 * k], t[4 + 3 * k], unhex(t[5 + 3 * k])) for k in range(n)]


def veto_mode(t):
    """(stage, kind) of the pseudo veto @c07v of the transaction, or None: the vetoes are then raised at the given stage
    (P = entity constraint ProcessPreCommit, IB / IA = index constraint before / after) with an error of the given kind"""
    for s, _, i in tx_vetoes(t):
        if s == "@c07v" and ":" in i:
            return tuple(i.split(":", 1))
    return None


def panic_marks(t):
    """where the harness makes code panic in this transaction (harness/cmd/storageharness/store_c07_panic.go; model
    Store/TxPanic.v): list of human-readable descriptions, empty = no panicking step"""
    out = []
    for s, _, i in tx_vetoes(t):
        if s == "@c07pn":
            p = i.split(":")
            if p[0] == "fail" and len(p) == 2:
                j = "" if p[1] == "-" else p[1]
                out.append("the caller's function panics where it would return an error" +
                           (" (inside nested %s)" % " -> ".join({"U": "db.Update(ctx, ..)", "B": "db.Batch(ctx, ..)"}.get(ch, ch) for ch in j) if j else ""))
            elif p[0] == "persist" and len(p) == 3:
                out.append("PersistEntity of %s panics during operation %d" % (p[2], int(p[1]) + 1))
        elif s == "@c07v" and i.endswith(":panic"):
            out.append("the vetoing constraint panics in %s" % {"P": "ProcessPreCommit", "IB": "ProcessBeforeUpdate / ProcessAfterUpdate (create) / ProcessBeforeDelete",
                                                                 "IA": "ProcessAfterUpdate / ProcessBeforeDelete"}.get(i.split(":")[0], i))
        elif s == "@c07pc" and i.endswith(":p"):
            out.append("a pre-commit action panics")
    return out


def panic_raised(a):
    return sorted(x.split(":", 1)[1] for x in a.get("other", ()) if x.startswith("PANIC-RAISED:"))


RAISED_TEXT = {"fn": "the caller's function", "persist": "the entity strategy's PersistEntity", "precommit": "a pre-commit action",
               "constraint-P": "a constraint's ProcessPreCommit", "constraint-IB": "a constraint's ProcessBeforeUpdate / ProcessAfterUpdate / ProcessBeforeDelete",
               "constraint-IA": "a constraint's ProcessAfterUpdate / ProcessBeforeDelete"}


STEP_TEXT = {"s": ".GetSystemContext()", "n": " -> boltz.NewSystemMutateContext(c)", "u": ".UpdateContext(f)",
             "U": " -> db.Update(c, func(c2))", "B": " -> db.Batch(c, func(c2))",
             "x": " -> boltz.NewTxMutateContext(c.Context(), c.Tx())"}


def ctx_program(t):
    """the context program of a transaction (harness/cmd/storageharness/store_c07_ctx.go): (open mode, [(site, path, kind)])
    with site = -1 for a registration made on the context object before Db.Update / Db.Batch; the path holds only the
    steps that are derivations at that site"""
    opn = ""
    for s, _, i in tx_vetoes(t):
        if s == "@c07open":
            opn = i
    # "@c07open" may follow the registrations in the token list
    out = []
    for s, _, i in tx_vetoes(t):
        if s == "@c07pc" and i.count(":") == 2:
            site, path, kind = i.split(":")
            path = "" if path == "-" else path
            st = (0 if opn == "nil" else -1) if site == "pre" else int(site)
            if st < 0:
                path = "".join(ch for ch in path if ch in "snu")
            out.append((st, path, kind))
    return opn, out


def reg_text(reg, nops):
    site, path, kind = reg
    where = ("on the context object before the transaction" if site < 0 else
             "at the start of the function" if site == 0 else
             "after the last operation" if site >= nops else "before operation %d of the function" % site)
    via = "ctx" + "".join(STEP_TEXT.get(ch, "?") for ch in path)
    what = {"f": "AddPreCommitAction(failing)", "o": "AddPreCommitAction(succeeding)", "c": "AddCommitAction",
            "p": "AddPreCommitAction(panicking)"}.get(kind, kind)
    return "%s: %s . %s" % (where, via, what)


# hooks observed by harness/cmd/storageharness/store_c07_hooks.go (HK:<kind>:<n> tokens; model: Store/TxQuiet.v)
HOOK_TEXT = {"ts": "AddEntityEventListener listener (synchronous change type)", "ta": "AddEntityEventListener listener (asynchronous change type)",
             "fs": "AddEntityEventListenerF function (synchronous)", "fa": "AddEntityEventListenerF function (asynchronous)",
             "us": "AddListener function (synchronous)", "ua": "AddListener function (asynchronous)",
             "is": "AddEntityIdListener function (synchronous)", "ia": "AddEntityIdListener function (asynchronous)",
             "c": "ProcessPostCommit of an AddEntityConstraint constraint", "uc": "ProcessPostCommit of an AddUntypedEntityConstraint constraint",
             "mt": "AddEntityEventListener listener registered for three change types", "mf": "AddEntityEventListenerF function registered for three change types",
             "mu": "AddListener function registered for three change types", "mi": "AddEntityIdListener function registered for three change types",
             "tc": "Db.AddTxCompleteListener listener"}


def hook_tokens(a):
    return sorted(x for x in a.get("other", ()) if x.startswith("HK:"))


def hooks_marked(t):
    return any(s == "@c07hk" for s, _, _ in tx_vetoes(t))


def hooks_text(toks):
    out = []
    for x in toks:
        _, kind, n = x.split(":")
        out.append("%s x %s" % (n, HOOK_TEXT.get(kind, kind)))
    return "; ".join(out)


def failure_text(t, a):
    """why the (failed) transaction failed, from the inputs and the implementation's own results"""
    res = a["results"]
    bad = [k for k, r in enumerate(res) if r != "ok"]
    raised = panic_raised(a)
    if raised or "PANICKED" in a.get("other", ()):
        how = "the panic reached the caller" if "PANICKED" in a.get("other", ()) else "the caller received an error"
        if raised:
            at = ("during operation %d of %d" % (bad[0] + 1, len(res))) if bad else "after every operation of the function succeeded (%s)" % (" ".join(res) or "no operation")
            return "panic:" + "+".join(raised), "%s panicked %s; %s" % (" and ".join(RAISED_TEXT.get(r, r) for r in raised), at, how)
        return "panic", "an operation panicked"
    if "panic" in res:
        return "panic", "an operation panicked"
    if bad:
        nops = len(split_tx(t)[3])
        if a["vetoed"]:
            m = veto_mode(t)
            return "veto:" + (m[0] if m else "P"), "operation %d of %d was vetoed by a constraint (%s)" % (bad[0] + 1, nops, res[bad[0]])
        if "FAIL" in t and res[bad[0]] == "err" and bad[0] < nops and split_tx(t)[3][bad[0]][0] == "FAIL":
            return "caller-error", "the caller's function returned an error at step %d of %d" % (bad[0] + 1, nops)
        if any(x.startswith("RAISED:persist:") for x in a.get("other", ())):
            return "storage-error", "operation %d of %d was refused while the entity was persisted (%s)" % (bad[0] + 1, nops, res[bad[0]])
        return "rejected-op:" + res[bad[0]], "operation %d of %d was rejected (%s)" % (bad[0] + 1, nops, res[bad[0]])
    return "precommit-after-successful-body", ("every operation of the function succeeded (%s) and a pre-commit action failed"
                                                % (" ".join(res) or "no operation"))


SILENCE_CHECKED = {}


def coarse(results):
    return tuple("ok" if r == "ok" else "error" for r in results)


def compare(a, b, typed=False, hooks=False):
    ra, rb = storefam.proj_results(a), storefam.proj_results(b)
    # typed also covers transactions with panicking steps: whether a step fails by returning an error or by panicking is
    # irrelevant (Properties/C07Panic.v failure_kind_is_irrelevant) - failed / ok is compared
    if typed:
        # the vetoes of this transaction carry an error kind of their own and are raised at another stage than the
        # model's (which knows one veto stage and one kind): C07 is about error-or-nil, compare that
        ra, rb = coarse(ra[:-1]) + ra[-1:], coarse(rb[:-1]) + rb[-1:]
    if ra != rb:
        return "results impl %s vs model %s" % (storefam.proj_results(a), storefam.proj_results(b))
    if a["facts"] != b["facts"]:
        return "state facts differ: only impl %s ; only model %s" % (
            sorted(set(a["facts"]) - set(b["facts"]))[:6], sorted(set(b["facts"]) - set(a["facts"]))[:6])
    if a["events"] != b["events"]:
        return "delivered events differ: impl %s model %s" % (a["events"], b["events"])
    if hooks and hook_tokens(a) != hook_tokens(b):
        return "hook executions differ (listeners of every style, constraints, tx-complete listeners): impl %s model %s" % (
            hook_tokens(a), hook_tokens(b))
    return None


ORACLE_HITS = {}


def oracle(sch, txs, io, mo):
    out = oracle_(sch, txs, io, mo)
    for k, _, _ in out:
        ORACLE_HITS[k] = ORACLE_HITS.get(k, 0) + 1
    return out


def oracle_(sch, txs, io, mo):
    out = []
    prev = []
    for k, (t, a) in enumerate(zip(txs, io)):
        precommit_fails = t[1] == "1"
        opn, regs = ctx_program(t)
        nops = len(split_tx(t)[3]) if regs else 0
        # a failing pre-commit action registered through a context that BELONGS to the transaction: no step of the
        # derivation builds a new context object (design/C07.md section 8; Properties/C07Ctx.v)
        live_fail = [r for r in regs if r[2] in "fp" and "x" not in r[1]]
        dead_fail = [r for r in regs if r[2] == "f" and "x" in r[1]]
        ca_after = [x for x in a.get("other", ()) if x.startswith("CA-AFTER-ROLLBACK:")]
        has_fail_op = "FAIL" in t or "FAILT" in t
        raised = sorted(x.split(":", 2)[2] for x in a.get("other", ()) if x.startswith("RAISED:persist:"))
        mode = veto_mode(t)
        praised = panic_raised(a)
        panicked = "PANICKED" in a.get("other", ())
        call = "Db.Batch" if any(v[0] == "@batch" for v in tx_vetoes(t)) else "Db.Update"
        if praised and a["commit"]:
            # code inside the transaction panicked and the caller was told the transaction succeeded
            added, gone = sorted(set(a["facts"]) - set(prev)), sorted(set(prev) - set(a["facts"]))
            hk = hook_tokens(a)
            out.append(("C07:panic-committed", "%s panicked inside the transaction (results %s), yet %s returned nil: the caller was told the "
                        "transaction succeeded%s%s" % (
                            " and ".join(RAISED_TEXT.get(r, r) for r in praised), a["results"], call,
                            (" and what the function had written up to the panic is committed (+%s -%s)" % (added[:4], gone[:4])) if added or gone
                            else " (nothing had been written)",
                            ("; hooks ran: " + hooks_text(hk)) if hk else ""), k))
        elif (panicked or "panic" in a["results"]) and not praised:
            out.append(("C07:operation-panicked", "the library panicked inside the transaction although the harness made nothing panic (results %s%s); "
                        "on the pinned tree this only happens after an earlier transaction committed a half-applied change" % (
                            a["results"], ", the panic reached the caller" if panicked else ""), k))
        elif a["vetoed"] and a["commit"]:
            stage = {None: "ProcessPreCommit", "P": "ProcessPreCommit of an entity constraint",
                     "IB": "an index constraint (ProcessBeforeUpdate / ProcessAfterUpdate of a create / ProcessBeforeDelete)",
                     "IA": "an index constraint (ProcessAfterUpdate / ProcessBeforeDelete)"}[mode[0] if mode else None]
            kind = {"err": "a plain error", "notfound": "a RecordNotFoundError", "refexists": "a ReferenceExistsError",
                    "dup": "a UniqueIndexDuplicateError", "panic": "a panic"}[mode[1] if mode else "err"]
            out.append(("C07:veto-swallowed", "a constraint vetoed a change with %s in %s (vetoes %s), yet every operation returned nil "
                        "and the transaction committed (results %s)" % (
                            kind, stage, [v for v in tx_vetoes(t) if not v[0].startswith("@")], a["results"]), k))
        elif raised and a["commit"]:
            out.append(("C07:storage-error-swallowed", "PersistEntity of %s ended with an error latched in the bucket it wrote to (required "
                        "string, unusable list key or refused tag value), yet every operation returned nil and the transaction "
                        "committed (results %s)" % ("/".join(raised), a["results"]), k))
        elif any(r != "ok" for r in a["results"]) and a["commit"]:
            out.append(("C07:commit-after-error", "an operation returned an error but Db.Update committed", k))
        elif precommit_fails and a["commit"]:
            out.append(("C07:precommit-ignored", "a pre-commit action failed but the transaction committed", k))
        elif live_fail and a["commit"]:
            out.append(("C07:derived-context-precommit-ignored",
                        "a failing pre-commit action was registered through a context that belongs to the transaction (%s%s) but it "
                        "never failed the transaction: %s returned nil and the data committed (results %s)" % (
                            reg_text(live_fail[0], nops),
                            {"nil": "; transaction opened with a nil context", "plain": "; transaction opened with the plain context"}.get(opn, ""),
                            "Db.Batch" if any(v[0] == "@batch" for v in tx_vetoes(t)) else "Db.Update", a["results"]), k))
        elif has_fail_op and a["commit"]:
            what = ("a create carrying a tag value the storage layer rejects (nested map among nil tags) reported success"
                    if "FAILT" in t else "the caller's function returned an error")
            out.append(("C07:failing-step-committed", what + " but the transaction committed (results %s)" % a["results"], k))
        if dead_fail and not live_fail and not precommit_fails and a["commit"]:
            ORACLE_HITS["candidate:precommit-on-new-tx-context-never-run"] = ORACLE_HITS.get("candidate:precommit-on-new-tx-context-never-run", 0) + 1
        if not a["commit"]:
            fk, ftext = failure_text(t, a)
            SILENCE_CHECKED[fk] = SILENCE_CHECKED.get(fk, 0) + 1
            hk = hook_tokens(a)
            if hk:
                out.append(("C07:listener-after-rollback", "%s returned an error (%s) and the database is unchanged, yet hooks ran for the "
                            "failed transaction: %s" % ("Db.Batch" if any(v[0] == "@batch" for v in tx_vetoes(t)) else "Db.Update",
                                                        ftext, hooks_text(hk)), k))
            if ca_after:
                out.append(("C07:commit-action-after-rollback", "%s commit action(s) registered through a context of the transaction ran although "
                            "the transaction failed (registrations: %s)" % (
                                ca_after[0].split(":")[1], "; ".join(reg_text(r, nops) for r in regs if r[2] == "c")), k))
            if a["facts"] != prev:
                out.append(("C07:partial-rollback", "a failed transaction changed the database: +%s -%s" % (
                    sorted(set(a["facts"]) - set(prev))[:5], sorted(set(prev) - set(a["facts"]))[:5]), k))
            if a["events"]:
                out.append(("C07:events-after-rollback", "listeners ran for a rolled-back transaction: %s" % a["events"][:4], k))
        elif all(r == "ok" for r in a["results"]) is False:
            pass
        if a["commit"]:
            # a committed state that only a swallowed rejection can produce: a foreign key the schema guards against
            # dangling (fk index, fk constraint) references an entity that does not exist
            for prob in storefam.fk_oracle(sch, a["facts"]):
                if "references missing" in prob:
                    out.append(("C07:rejected-change-committed", "the transaction committed (results %s) although one of its steps "
                                "must have been refused - afterwards %s" % (a["results"], prob), k))
                    break
        prev = a["facts"]
    return out


# ------------------------------------------------------------------ shrinking a violating history
def split_tx(t):
    """token list of one transaction (without TX) -> (sys, precommit, [veto token triples], [op token lists])"""
    pos = [2]

    def nxt():
        x = t[pos[0]]
        pos[0] += 1
        return x

    vetoes = [[nxt(), nxt(), nxt()] for _ in range(int(nxt()))]

    def fvsv():
        for _ in range(int(nxt())):
            nxt(), nxt()
        for _ in range(int(nxt())):
            nxt()
            for _ in range(int(nxt())):
                nxt()

    ops = []
    for _ in range(int(nxt())):
        start = pos[0]
        k = nxt()
        if k == "G":
            nxt()
            for _ in range(int(nxt())):
                nxt(), nxt()
            k = nxt()
        if k == "C":
            nxt(), nxt(), nxt()
            fvsv()
        elif k == "UP":
            nxt(), nxt()
            fvsv()
            c = nxt()
            if c != "-":
                for _ in range(int(c)):
                    nxt()
        elif k in ("D", "FAILT"):
            nxt(), nxt()
        elif k == "DW":
            nxt()
            if nxt() == "EQ":
                nxt(), nxt()
        elif k in ("AL", "RL"):
            nxt(), nxt(), nxt()
            for _ in range(int(nxt())):
                nxt()
        elif k != "FAIL":
            raise ValueError("unknown op " + k)
        ops.append(t[start:pos[0]])
    return t[0], t[1], vetoes, ops


def join_tx(sys_, pcf, vetoes, ops):
    toks = ["TX", sys_, pcf, str(len(vetoes))]
    for v in vetoes:
        toks += v
    toks.append(str(len(ops)))
    for o in ops:
        toks += o
    return " ".join(toks)


class Shrinker:
    """greedy reduction of a violating history: drop transactions, operations and vetoes while the implementation,
    re-run on the reduced history, still violates the property with the same key"""

    def __init__(self, c, budget=120):
        self.c = c
        self.budget = budget
        self.harness, _ = vlib.build_harness()
        self.model = vlib.build_model("Store")
        self.n = 0

    def keys(self, case):
        import os
        self.n += 1
        d = os.path.join(self.c.work, "shrink")
        os.makedirs(d, exist_ok=True)
        rin = os.path.join(d, "in.txt")
        with open(rin, "w") as f:
            f.write(case + "\n")
        rc, out = vlib.run([self.harness, "storec07", "--out", d, "--tmp", d, "--n", "0", "--corpus", rin], timeout=120)
        if rc != 0:
            return set(), None
        cases = vlib.read_lines(os.path.join(d, "cases.txt"))
        impl = vlib.read_lines(os.path.join(d, "impl.txt"))
        modl = vlib.run_model(self.model, "store", os.path.join(d, "cases.txt"), os.path.join(d, "model.txt"))
        sch, txs = storefam.split_case(cases[0])
        io, mo = storefam.parse_obs(impl[0]), storefam.parse_obs(modl[0])
        found = oracle(sch, txs, io, mo)
        return set(k for k, _, _ in found), (cases[0], impl[0], modl[0], found)

    def shrink(self, case, key, k):
        head = case.split(" TX ")[0]
        txs = [split_tx(p.split()) for p in case.split(" TX ")[1:]][:k + 1]
        best = None

        def text(txs):
            return head + "".join(" " + join_tx(*t) for t in txs)

        def ok(cand):
            nonlocal best
            if self.n >= self.budget or not cand:
                return False
            ks, res = self.keys(text(cand))
            if key in ks:
                best = res
                return True
            return False

        if not ok(txs):
            return None
        changed = True
        while changed and self.n < self.budget:
            changed = False
            for j in range(len(txs) - 2, -1, -1):           # whole transactions in front of the violating one
                cand = txs[:j] + txs[j + 1:]
                if ok(cand):
                    txs, changed = cand, True
            for j in range(len(txs)):                       # operations
                for o in range(len(txs[j][3]) - 1, -1, -1):
                    s_, p_, v_, ops = txs[j]
                    if len(ops) == 1:
                        continue
                    cand = txs[:j] + [(s_, p_, v_, ops[:o] + ops[o + 1:])] + txs[j + 1:]
                    if ok(cand):
                        txs, changed = cand, True
            for j in range(len(txs)):                       # over-long values that do not matter
                for o in range(len(txs[j][3])):
                    for q, tok in enumerate(txs[j][3][o]):
                        if len(tok) > 200:
                            s_, p_, v_, ops = txs[j]
                            op2 = ops[o][:q] + ["7a"] + ops[o][q + 1:]
                            cand = txs[:j] + [(s_, p_, v_, ops[:o] + [op2] + ops[o + 1:])] + txs[j + 1:]
                            if ok(cand):
                                txs, changed = cand, True
            for j in range(len(txs)):                       # context programs: shorter derivations, earlier sites
                for o in range(len(txs[j][2])):
                    if txs[j][2][o][0] != "@c07pc":
                        continue
                    site, path, kind = unhex(txs[j][2][o][2]).split(":")
                    cands = [(site, path[:q] + path[q + 1:] or "-", kind) for q in range(len(path))] if path != "-" else []
                    if site not in ("pre", "0"):
                        cands.append(("0", path, kind))
                    for cand_reg in cands:
                        s_, p_, v_, ops = txs[j]
                        v2 = v_[:o] + [["@c07pc", "C", hexs(":".join(cand_reg))]] + v_[o + 1:]
                        cand = txs[:j] + [(s_, p_, v2, ops)] + txs[j + 1:]
                        if ok(cand):
                            txs, changed = cand, True
                            break
            for j in range(len(txs)):                       # vetoes and pseudo vetoes
                for o in range(len(txs[j][2]) - 1, -1, -1):
                    s_, p_, v_, ops = txs[j]
                    cand = txs[:j] + [(s_, p_, v_[:o] + v_[o + 1:], ops)] + txs[j + 1:]
                    if ok(cand):
                        txs, changed = cand, True
        return best


def shrink_violations(c):
    """rewrite the replay of the first violation of every key with a reduced history"""
    import os
    seen = set()
    sh = None
    for key, path, no_input in c.violations:
        if no_input or key in seen:
            continue
        seen.add(key)
        full = os.path.join(vlib.VERIF, path)
        try:
            rp = json.load(open(full))
            if "case" not in rp or "tx" not in rp:
                continue
            sh = sh or Shrinker(c)
            sh.n = 0
            res = sh.shrink(rp["case"], key, rp["tx"])
            if not res:
                continue
            case, impl, modl, found = res
            what = [d for k2, d, _ in found if k2 == key][0]
            tx = [t for k2, _, t in found if k2 == key][0]
            ntx, nops = case.count(" TX "), sum(len(split_tx(p.split())[3]) for p in case.split(" TX ")[1:])
            rp.update(case=case, impl=impl, model=modl, tx=tx, what=what, shrunk=dict(transactions=ntx, operations=nops, runs=sh.n,
                      original_transactions=rp["case"].count(" TX ")))
            with open(full, "w") as f:
                json.dump(rp, f, indent=1, sort_keys=True)
            vlib.log("  minimal replay %s: %d transaction(s), %d operation(s): %s" % (path, ntx, nops, describe(case)))
        except Exception as e:   # shrinking is a convenience; the unshrunk replay stays valid
            vlib.log("  (replay %s not reduced: %s)" % (path, e))


def describe(case):
    """short human-readable rendering of a (small) history"""
    out = []
    for p in case.split(" TX ")[1:]:
        s_, p_, vetoes, ops = split_tx(p.split())
        parts = []
        for o in ops:
            g = ""
            if o[0] == "G":
                g = "[bad tags] " if o[1] == "1" else ""
                o = o[3 + 2 * int(o[2]):]
            if o[0] in ("C", "UP"):
                vals = []
                i = 4 if o[0] == "C" else 3
                nf = int(o[i])
                i += 1
                for _ in range(nf):
                    vals.append("%s=%s" % (o[i], "nil" if o[i + 1] == "N" else short(unhex(o[i + 1]))))
                    i += 2
                ns = int(o[i])
                i += 1
                for _ in range(ns):
                    name, kk = o[i], int(o[i + 1])
                    vals.append("%s=[%s]" % (name, ",".join(short(unhex(x)) for x in o[i + 2:i + 2 + kk])))
                    i += 2 + kk
                chk = ""
                if o[0] == "UP" and o[i] != "-":
                    chk = " checker{%s}" % ",".join(o[i + 1:i + 1 + int(o[i])])
                parts.append("%s%s %s/%s {%s}%s" % (g, {"C": "Create", "UP": "Update"}[o[0]], o[1], unhex(o[2]), " ".join(vals), chk))
            elif o[0] == "D":
                parts.append("DeleteById %s/%s" % (o[1], unhex(o[2])))
            elif o[0] == "DW":
                parts.append("DeleteWhere %s `%s`" % (o[1], "true" if o[2] == "T" else '%s = "%s"' % (o[3], unhex(o[4]))))
            elif o[0] in ("AL", "RL"):
                parts.append("%s %s/%s.%s %s" % ({"AL": "AddLinks", "RL": "RemoveLinks"}[o[0]], o[1], unhex(o[2]), o[3],
                                                 [unhex(x) for x in o[5:]]))
            elif o[0] == "FAILT":
                parts.append("Create %s/%s with a refused tag value" % (o[1], unhex(o[2])))
            else:
                parts.append("caller error")
        vt = ["%s/%s/%s" % (a, b, unhex(i)) for a, b, i in vetoes if a not in ("@c07pc", "@c07open", "@c07hk", "@c07pn", "@batch")]
        pm = panic_marks(p.split())
        opn, regs = ctx_program(p.split())
        ctxp = ""
        if regs or opn:
            ctxp = " [%s%s]" % ({"nil": "opened with nil; ", "plain": "opened with the plain context; "}.get(opn, ""),
                                "; ".join(reg_text(r, len(ops)) for r in regs))
        if pm:
            ctxp += " [PANICS: %s]" % "; ".join(pm)
            parts = [x.replace("caller error", "caller code panics") if any("caller's function" in m for m in pm) else x for x in parts]
        out.append("%s%s%s%s%s { %s }" % ("Db.Batch" if any(a == "@batch" for a, _, _ in vetoes) else "Db.Update",
                                          " [system ctx]" if s_ == "1" else "", " [failing pre-commit action]" if p_ == "1" else "",
                                          " vetoes %s" % vt if vt else "", ctxp, "; ".join(parts)))
    return " ;; ".join(out)


def short(s):
    return s if len(s) <= 24 else "%s..(%d bytes)" % (s[:6], len(s))


def compare_case(sch, txs):
    def cmp(a, b, k):
        return compare(a, b, typed=veto_mode(txs[k]) is not None or bool(panic_marks(txs[k])), hooks=hooks_marked(txs[k]))
    return cmp


def main(argv):
    c = vlib.Check(PID, argv)
    c.assumptions = ["bbolt rollback restores the previous content (trusted; observed by the full traversal after every transaction)",
                     "Go's panic unwinding skips every statement after the panicking call and runs deferred functions only (Store/TxPanic.v transcribes "
                     "DbImpl.Update / bbolt DB.Update under it; observed: the panic reaches the harness's recover around Db.Update / Db.Batch)",
                     "one MutateContext per transaction (re-using a context across transactions is documented misuse)"]
    proof_ok = c.proof_step(FILES, translators=["errflow"])
    storefam.run_family(c, "c07", 1600, 20000, compare, oracle,
                        "seeded histories of 1-7 transactions x 1-5 operations (create, update, delete, DeleteWhere with filter true / field = value, "
                        "link changes) over five schema wirings (C07cr twice in the rotation) (idx, fkc, casc; C07cr = refusing constraints on child stores only, required strings, "
                        "unindexed string list; C07tree = self-referencing cascade) with injected faults: caller error at a random position, failing "
                        "pre-commit action (registered on the context before the transaction or - a quarter of the transactions carry a context program - through "
                        "contexts derived from the transaction's context: GetSystemContext / NewSystemMutateContext wrappers, UpdateContext, joined nested "
                        "Db.Update / Db.Batch, NewTxMutateContext, at any position of the function, transactions opened with a plain, system or nil "
                        "context; succeeding pre-commit actions and commit actions likewise), constraint vetoes of four error kinds raised at the pre-commit stage or inside the index constraints of the "
                        "store / its parent / its children, duplicates, missing fk targets, unusable keys (empty set-index value, blank id, over-long "
                        "index keys and list elements at the bbolt limit), empty required strings and refused tag values at parent and child level; "
                        "16 % of the transactions carry a step that PANICS (real nil dereference) instead of returning an error - the caller's function (also inside "
                        "nested joined db.Update / db.Batch), a constraint in ProcessPreCommit / ProcessBeforeUpdate / ProcessAfterUpdate / ProcessBeforeDelete, the entity "
                        "strategy's PersistEntity, a pre-commit action registered through any context of the transaction - at any position, through Db.Update and Db.Batch; "
                        "the panic is observed by a recover outside the library call and the transaction is then checked like any failed one; "
                        "after every transaction the bolt file is traversed and compared with the model state, results and delivered events included.",
                        command="storec07", compare_case=compare_case)
    c.cov["oracle_hits"] = dict(ORACLE_HITS)
    # failed transactions on which the silence of every hook kind was checked, by failure kind
    c.cov["silence_checked_failed_tx"] = dict(SILENCE_CHECKED)
    if c.violations and not c.replay:
        vlib.log("  oracle hits per key (all histories): %s" % json.dumps(ORACLE_HITS, sort_keys=True))
        shrink_violations(c)
    if not proof_ok:
        # name the rows of the regenerated error-plumbing table that break generated_errflow_ok
        bad = []
        try:
            import re, os
            for line in open(os.path.join(vlib.COQ, "theories", "Gen", "GenErrFlow.v")):
                m = re.search(r'mkRow "([^"]*)" "([^"]*)" (\d+) (DSwallow|DDiscard) "([^"]*)"', line)
                if m and not (m.group(4) == "DDiscard" and m.group(5).startswith("call fmt.")):
                    bad.append("%s %s #%s %s (%s)" % m.groups())
        except Exception:
            pass
        c.violation(PID + ":proof", "proof obligation no longer checks (%s): %s" % (
            "; ".join(bad) if bad else "see broken", json.dumps(c.proof_broken)[:400]),
                    dict(broken=c.proof_broken, errflow_rows=bad,
                         theorem="generated_errflow_ok" if bad else None), no_input=True)
    return c.finish()
