"""C07 - transactions are all-or-nothing and every failure reaches the caller."""
import json

import storefam
import vlib

PID = "C07"
FILES = ["theories/Properties/C07.v", "theories/Properties/C07ErrFlow.v", "theories/Examples/C07Examples.v"]


def compare(a, b):
    if storefam.proj_results(a) != storefam.proj_results(b):
        return "results impl %s vs model %s" % (storefam.proj_results(a), storefam.proj_results(b))
    if a["facts"] != b["facts"]:
        return "state facts differ: only impl %s ; only model %s" % (
            sorted(set(a["facts"]) - set(b["facts"]))[:6], sorted(set(b["facts"]) - set(a["facts"]))[:6])
    if a["events"] != b["events"]:
        return "delivered events differ: impl %s model %s" % (a["events"], b["events"])
    return None


def oracle(sch, txs, io, mo):
    out = []
    prev = []
    for k, (t, a) in enumerate(zip(txs, io)):
        precommit_fails = t[1] == "1"
        has_fail_op = "FAIL" in t
        if a["vetoed"] and a["commit"]:
            out.append(("C07:veto-swallowed", "a constraint vetoed a change in ProcessPreCommit, yet every operation returned nil and "
                        "the transaction committed (results %s)" % a["results"], k))
        elif any(r != "ok" for r in a["results"]) and a["commit"]:
            out.append(("C07:commit-after-error", "an operation returned an error but Db.Update committed", k))
        elif (precommit_fails or has_fail_op) and a["commit"] and all(r == "ok" for r in a["results"]) and \
                (precommit_fails or len(a["results"]) > t.index("FAIL") - 999):
            if precommit_fails:
                out.append(("C07:precommit-ignored", "a pre-commit action failed but the transaction committed", k))
        if not a["commit"]:
            if a["facts"] != prev:
                out.append(("C07:partial-rollback", "a failed transaction changed the database: +%s -%s" % (
                    sorted(set(a["facts"]) - set(prev))[:5], sorted(set(prev) - set(a["facts"]))[:5]), k))
            if a["events"]:
                out.append(("C07:events-after-rollback", "listeners ran for a rolled-back transaction: %s" % a["events"][:4], k))
        elif all(r == "ok" for r in a["results"]) is False:
            pass
        prev = a["facts"]
    return out


def main(argv):
    c = vlib.Check(PID, argv)
    c.assumptions = ["bbolt rollback restores the previous content (trusted; observed by the full traversal after every transaction)",
                     "one MutateContext per transaction (re-using a context across transactions is documented misuse)"]
    proof_ok = c.proof_step(FILES, translators=["errflow"])
    storefam.run_family(c, "c07", 1500, 20000, compare, oracle,
                        "seeded histories of 1-7 transactions x 1-4 operations over three schema wirings with injected faults: caller error at a random "
                        "position (20%), failing pre-commit action (15%), constraint veto on create/update/delete or on the parent/child event (20%), "
                        "duplicates, missing fk targets, unusable keys (empty set-index value, blank id); after every transaction the bolt file is "
                        "traversed and compared with the model state, results and delivered events included.")
    if not proof_ok:
        # name the rows of the regenerated error-plumbing table that break generated_errflow_ok
        bad = []
        try:
            import re, os
            for line in open(os.path.join(vlib.COQ, "theories", "Gen", "GenErrFlow.v")):
                m = re.search(r'mkRow "([^"]*)" "([^"]*)" (\d+) (DSwallow|DDiscard) "([^"]*)"', line)
                if m and not (m.group(4) == "DDiscard" and m.group(5).startswith("call fmt.")):
                    bad.append("%s %s #%s %s (%s)" % m.groups())
        except Exception:
            pass
        c.violation(PID + ":proof", "proof obligation no longer checks (%s): %s" % (
            "; ".join(bad) if bad else "see broken", json.dumps(c.proof_broken)[:400]),
                    dict(broken=c.proof_broken, errflow_rows=bad,
                         theorem="generated_errflow_ok" if bad else None), no_input=True)
    return c.finish()
