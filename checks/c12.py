"""C12 - boolean connectives group as written: parentheses, precedence, case, spacing.
Proof: coq/theories/Properties/C12.v (models Lang/Lexer.v, Lang/BoolGrammar.v, Lang/Listener.v;
specification Lang/BoolSurface.v).
Correspondence: for ALL boolean skeletons over <= 4 (thorough: 5) atoms, every truth assignment:
truth table of the really parsed filter (ast.Parse + EvalBool) vs. the extracted model vs. the
surface semantics; token kinds of the real lexer vs. the model lexer; re-spellings (keyword case,
white space, redundant parentheses), the same skeletons over comparisons and constants.
Stream k (harness c12kw.go): queries over a real boltz store whose atoms use every keyword / word operator
(in, between, contains, icontains and their not-forms, true/false/null, anyOf/allOf/count/isEmpty, from..where,
sort by/asc/desc/skip/limit/none) re-spelled in letter case and in the white space at every place the grammar has
WS+ / WS* / the single WS of `not in` - Store.QueryIds of the re-spelling vs. the canonical spelling; the model
(Lang/WordOps.v: lex_full + norm, op_negated) says the two texts are the same token stream up to spelling.
Streams d / l / n (harness c12w3.go): d = skeletons whose atoms REPEAT (labellings of the exhaustive skeletons with
repeating names; connectives whose two operands are groupings of one and the same clause sequence); l = LONG filters
(up to thousands of leaves / tens of thousands of tokens) and their white-space / redundant-parenthesis re-spellings;
n = real comparisons on fields of a store that are nil / unset on some rows: a skeleton must select exactly the rows
its surface semantics gives under the valuation "what the code answers for the atom alone on that row" - `not` is the
exact complement of its operand (theorems not_selects_complement, selection_is_rowwise, same_reading_different_meaning,
redundant_parens_many in Properties/C12.v).
Stream n4 (harness c12w9.go): a comparison of the entity's own `id` (equality with an existing id, an absent id, != in
ordering contains) at EVERY leaf position of EVERY skeleton over two / three leaves (<= 2 parenthesis pairs, <= 2 nots) next
to ordinary atoms, two id comparisons in one filter, a slice followed by sort by / limit none - through Store.QueryIds
(the scanners know `id`: whatever they conclude from the place of an id comparison must agree with the grouping as written).
Every case on store things (n1-n4) is also evaluated through Store.IterateIds over the typed predicate (filtered id cursor):
same oracle, key C12:iterate-ids.
Stream m (harness c12w5.go): clauses of ONE operator family on SEVERAL symbols of one type with shared literals
(`s = "x" or sn = "x" or sn = "xy"`, `i >= 1 and j < 9`, ...) over a 64-row store: every 3-clause sequence of every family in
ALL groupings, longer chains, random skeletons over walks through the pool; oracle as for n, plus the other groupings of
the same clauses and the same skeleton over opaque atoms (theorems chain_in_any_grouping, chain_regrouping_irrelevant,
one_clause_decides).
Stream e (harness c12w7.go): every valid skeleton over <= 3 atoms (+ a slice of the 4-atom ones, re-spellings, longer chains;
atoms as symbols / comparisons / constants) through EVERY parsing entry point: ast.Parse (truth table) and zitiql.Parse,
zitiql.ParseWithDebug(debug=false / true) with a bare and with the ast listener (acceptance), then ast.Parse again (pooled
parser instances) - a valid skeleton is accepted by all of them (compared, not modelled: the model has one parser).
Stream q (harness c12w7.go): atoms whose sub-queries nest 2-3 levels (fams -> kids -> toys -> parts, a store-typed symbol
table with linked sets) at every leaf position; families of filters that the property makes equal - the same operands in
every order, every grouping, with redundant parentheses, at the top level and inside the middle sub-query - must all be
accepted and select the same rows (theorems operands_commute, chain_in_any_order, chain_in_any_grouping)."""
import json
import os
import re

import vlib

PID = "C12"
FILES = ["theories/Properties/C12.v", "theories/Examples/C12Examples.v"]


def unhex(h):
    return b"" if h == "-" else bytes.fromhex(h)


def features(pre):
    """classify a prefix-form expression: which statement of the property it exercises"""
    has_not = "!" in pre
    # mixed and/or at one chain level without parentheses between them
    mixed = False
    and_then_or = False
    depth_ops = {}
    depth = 0
    i = 0
    while i < len(pre):
        ch = pre[i]
        if ch == "(":
            depth += 1
            depth_ops[depth] = []
        elif ch == ")":
            depth_ops.pop(depth, None)
            depth -= 1
        elif ch == "!":
            depth += 1          # a not starts a fresh chain that lasts to the end of the enclosing group
            depth_ops[depth] = []
        elif ch in "&|":
            ops = depth_ops.setdefault(depth, [])
            if ops and ch not in ops:
                mixed = True
            if ch == "|" and "&" in ops:
                and_then_or = True
            ops.append(ch)
        elif ch == "<":
            i = pre.index(">", i)
        i += 1
    return has_not, mixed, and_then_or


def pure_chain_key(cf):
    """N case: (store, atom texts in order, connective) when the skeleton is a chain of ONE connective over all its
    atoms, each used once in order, possibly cut into parenthesised groups, without `not`; else None"""
    pre = cf[5]
    if "!" in pre or ("&" in pre and "|" in pre) or not ("&" in pre or "|" in pre):
        return None
    names = cf[6].split(",")
    leaves = [unhex(h).decode("latin-1") for h in re.findall(r"<([0-9a-f]*)>", pre)]
    if leaves != names:
        return None
    return (cf[2], cf[7], "&" if "&" in pre else "|")


CLAUSE = re.compile(r"^((?:anyOf|allOf|count)\([A-Za-z_.]+\)|[A-Za-z_.]+)\s+(.*)$")


def same_shape_other_symbol(t1, t2):
    """two atom texts that are the same operator and literal on different symbols"""
    m1, m2 = CLAUSE.match(t1), CLAUSE.match(t2)
    return bool(m1 and m2 and m1.group(2) == m2.group(2) and m1.group(1) != m2.group(1))


def show_result(r):
    """<count>:<hex id>,... -> readable"""
    if ":" not in r:
        return {"E": "rejected", "P": "panic"}.get(r, r)
    cnt, ids = r.split(":", 1)
    names = [unhex(x).decode("latin-1") for x in ids.split(",")] if ids not in ("", "-") else []
    return "count=%s ids=[%s]" % (cnt, ",".join(names))


W_KEYS = {"lw": ("C12:whitespace", "white space where the grammar allows it"),
          "lp": ("C12:redundant-parens", "redundant parentheses"),
          "lb": ("C12:respelling", "white space and redundant parentheses"),
          "w": ("C12:redundant-parens", "one redundant pair of parentheses"),
          "r": ("C12:respelling", "letter case of and/or/not and white space")}


E_NAMES = ["zitiql.Parse", "zitiql.ParseWithDebug(debug=false)", "zitiql.ParseWithDebug(debug=true)",
           "zitiql.Parse directly after a ParseWithDebug(debug=true) run", "zitiql.Parse with the ast.NewListener() listener",
           "zitiql.ParseWithDebug(debug=true) with the ast.NewListener() listener", "ast.Parse against the store"]


def entry_report(letters):
    """(entry points that do not accept, entry points that accept) of an entry-point letter string"""
    bad = ["%s %s" % (E_NAMES[k], "panics" if ch == "P" else "rejects it") for k, ch in enumerate(letters) if ch != "A"]
    good = [E_NAMES[k] for k, ch in enumerate(letters) if ch == "A"]
    return bad, good


def q2_relation(m1, m2):
    """how two members of a q2 family (stream field q2:<family>:<operand order>:<grouping>) differ -> (key, words)"""
    a, b = m1.split(":"), m2.split(":")
    if a[2] != b[2]:
        return "C12:operand-order", "the same operands under the same connectives in another order"
    if "group" in a[3] or "group" in b[3]:
        return "C12:chain-regrouping", "the same operands in the same order grouped differently"
    return "C12:redundant-parens", "the same filter up to redundant parentheses"


def shorten(t, n=160):
    return t if len(t) <= n else "%s ... %s [%d characters]" % (t[:n // 2], t[-n // 2:], len(t))


def skeleton_tokens(text):
    """number of lexer tokens of a skeleton over boolean symbols (every white-space character is one token)"""
    return len(re.findall(r"[A-Za-z_]+|[()]|\s", text))


def ntokens(kinds):
    return 0 if kinds in ("-", "") else kinds.count(",") + 1


K_KEYS = {"op": "C12:word-operator-spelling", "kw": "C12:keyword-case", "ws": "C12:whitespace", "mix": "C12:respelling"}
K_WHAT = {"op": "letter case / white space inside a word operator (in, between, contains, icontains, not ...)",
          "kw": "letter case of a keyword", "ws": "white space where the grammar allows it",
          "mix": "letter case of keywords and white space where the grammar allows it"}


def main(argv):
    c = vlib.Check(PID, argv)
    c.cov["trusted_base"] = [
        "Coq 8.16.1 kernel (coqc; coqchk in the thorough tier); vm_compute in Examples only; no axioms",
        "hand-written models Lang/Lexer.v (skeleton token rules, ANTLR longest-match/first-rule loop), Lang/BoolGrammar.v "
        "(generated rule boolExpr(_p) incl. adaptive prediction resolved to 'continue'), Lang/Listener.v (stack machine, typed And/Or/Not, EvalBool)",
        "specification Lang/BoolSurface.v (surface syntax, or-of-ands semantics, spellings)",
        "extraction (ExtrOcamlBasic only) + extraction/c12_driver.ml + drv_common.ml",
        "Go harness cmd/storageharness/c12.go (enumerator of skeletons, spellers, boolean/int symbol tables), c12kw.go (query templates with "
        "spelling sites, the people/places dataset in a real bbolt file), c12w3.go (streams d, l, n), c12w5.go (stream m: atom pool, the twins dataset) and this comparison",
        "hand-written model Lang/WordOps.v (op_negated = the listener's strings.Contains(strings.ToLower(text), \"not\"); norm = token stream up to spelling) "
        "over Lang/LexerFull.v (all token rules as regular expressions; compared with the real lexer on every re-spelling)",
        "ANTLR runtime (ATN interpreter, adaptive prediction): compared on every enumerated skeleton, not verified",
    ]
    c.assumptions = [
        "atom names are identifiers [A-Za-z][A-Za-z_]* that are not reserved words and do not begin with in/contains/icontains/between "
        "(the token rules IN, CONTAINS, ICONTAINS, BETWEEN absorb a preceding 'not')",
        "`not` has the lowest precedence (last alternative of boolExpr in ZitiQl.g4): it negates everything up to the closing parenthesis or the end of the filter",
    ]
    proof_ok = c.proof_step(FILES)
    model = vlib.build_model("C12")
    harness, err = vlib.build_harness()
    if harness is None:
        c.violation("C12:harness-build", "harness does not build against the repository: " + err[-800:],
                    dict(correspondence="harness build", log=err[-3000:]), no_input=True)
        return c.finish()

    cases_path = os.path.join(c.work, "cases.txt")
    if c.replay:
        rp = json.load(open(c.replay))
        rin = os.path.join(c.work, "replay_in.txt")
        with open(rin, "w") as f:
            f.write(rp["case"] + "\n")
        args = [harness, "c12", "--out", c.work, "--replaycase", rin]
    else:
        args = [harness, "c12", "--seed", str(c.seed), "--tier", c.tier, "--out", c.work]
    rc, out = vlib.run(args, timeout=3000, env=dict(os.environ, VERIF_JOBS=vlib.NPROC))
    if rc != 0:
        c.violation("C12:harness-run", "harness failed rc=%s: %s" % (rc, out[-500:]),
                    dict(correspondence="harness run", log=out[-3000:]), no_input=True)
        return c.finish()
    cases = vlib.read_lines(cases_path)
    impl = vlib.read_lines(os.path.join(c.work, "impl.txt"))
    modl = vlib.run_model(model, "c12", cases_path, os.path.join(c.work, "model.txt"))
    assert len(cases) == len(impl) == len(modl), (len(cases), len(impl), len(modl))

    distinct = set()
    disagreements = []
    evaluations = 0
    kstats = dict(cases=0, with_word_operator=0, with_negated_word_operator=0)
    nstats = dict(cases=0, with_not=0, rows_where_all_atoms_false=0, with_an_id_comparison=0, id_comparison_right_of_a_group_with_or_or_not=0,
                  followed_by_sort_or_limit=0, iterate_ids_compared=0)
    mstats = dict(cases=0, clause_sequences_in_several_groupings=0, cases_with_a_row_where_exactly_one_atom_holds=0,
                  cases_where_neighbouring_clauses_share_operator_and_literal_on_different_symbols=0)
    # stream m (and n): the cases that are groupings of one and the same pure and- / or-chain of clauses (same atom
    # texts in the same order, same connective): chain_assoc / chain_regroup say they all select the same rows
    regroup = {}
    for case, i in zip(cases, impl):
        if case.startswith("N "):
            cf = case.split()
            k = pure_chain_key(cf)
            if k is not None:
                regroup.setdefault(k, []).append((unhex(cf[3]).decode("latin-1"), i.split()[1], case))
    mstats["clause_sequences_in_several_groupings"] = sum(1 for v in regroup.values() if len(v) > 1)
    lstats = dict(cases=0, max_tokens=0, max_leaves=0)
    estats = dict(cases=0, entry_point_calls=0)
    qstats = dict(cases=0, families=0, family_members=0, members_with_operands_commuted=0, atoms_nested_2_or_3_levels=0, inside_a_sub_query=0)
    # stream q2: families of filters that are equal by the property (same operands, any order / grouping / redundant
    # parentheses): member = (case fields, impl fields, model fields, case line)
    qfam = {}
    for case, i, m in zip(cases, impl, modl):
        if case.startswith("N q2:"):
            cf = case.split()
            qfam.setdefault(cf[1].split(":")[1], []).append((cf, i.split(), m.split(), case))
    qstats["families"] = len(qfam)
    for fid, members in qfam.items():
        qstats["family_members"] += len(members)
        qstats["members_with_operands_commuted"] += sum(1 for mb in members if mb[0][1].split(":")[2] != members[0][0][1].split(":")[2])
        top_level = [mb for mb in members if mb[0][6] != "A"]
        if len(set(mb[2][2] for mb in top_level)) > 1:
            # the generator's claim that the members are equal by the property is not shared by the specification
            disagreements.append((top_level[0][3], "-", "-", "stream q2: members of family %s have different surface semantics" % fid))
    for case, i, m in zip(cases, impl, modl):
        cf, fi, fm = case.split(), i.split(), m.split()
        if cf[0] == "K":
            # ---- stream k: a query and a re-spelling of it (keyword case / white space only) on a real store
            stream, cls, store = cf[1], cf[2], cf[3]
            canon, resp = unhex(cf[4]).decode("latin-1"), unhex(cf[5]).decode("latin-1")
            ikinds, ierrs, rcanon, rresp = fi[1], fi[2], fi[3], fi[4]
            mkinds, mdrops, msame, mfc, mfr = fm[1], fm[2], fm[3], fm[4], fm[5]
            evaluations += 1
            distinct.add(case)
            kstats["cases"] += 1
            kstats["with_word_operator"] += mfc != "-"
            kstats["with_negated_word_operator"] += "1" in mfc
            rep = dict(case=case, impl=i, model=m, store=store, canonical_query=canon, respelled_query=resp,
                       result_canonical=show_result(rcanon), result_respelled=show_result(rresp),
                       model_negation_flags_of_word_operators=dict(canonical=mfc, respelled=mfr),
                       note="dataset: harness c12kw.go c12kPeople / c12kPlaces; result = Store.QueryIds (ids in order, count)")
            if msame != "1" or mfc != mfr:
                # the model does not regard the two texts as one query: generator / model problem, not a finding
                disagreements.append((case, i, m, "normal form of the re-spelling (Lang/WordOps.v norm)"))
                continue
            if rcanon in ("E", "P"):
                c.violation("C12:valid-query-rejected" if rcanon == "E" else "C12:panic",
                            "valid query %r (store %s) %s" % (canon, store, "is rejected" if rcanon == "E" else "panics"), rep)
                continue
            if rresp != rcanon:
                c.violation(K_KEYS.get(cls, "C12:respelling"),
                            "query %r and its re-spelling %r (differs only in: %s) give different results: %s vs %s" % (
                                canon, resp, K_WHAT.get(cls, cls), show_result(rcanon), show_result(rresp)), rep)
                continue
            if ikinds != mkinds or ierrs != mdrops:
                disagreements.append((case, i, m, "token kinds of the re-spelled query (Lang/LexerFull.v)"))
            continue
        if cf[0] == "N":
            # ---- stream n: a skeleton over real comparisons, evaluated on the rows of a store (some fields nil);
            # oracle: the rows selected = the surface semantics under "what the code answers for the atom alone"
            stream, store, pre = cf[1], cf[2], cf[5]
            query, skel = unhex(cf[3]).decode("latin-1"), unhex(cf[4]).decode("latin-1")
            names = cf[6].split(",")
            texts = [unhex(x).decode("latin-1") for x in cf[7].split(",")]
            abits = cf[8].split(",")
            ibits, rowids = fi[1], [unhex(x).decode("latin-1") for x in fi[2].split(",")]
            mbits, sbits = fm[1], fm[2]
            evaluations += len(sbits)
            distinct.add(case)
            nstats["cases"] += 1
            has_not, mixed, _ = features(pre)
            if stream == "n4":
                # the entity's own id among the atoms (harness c12w9.go)
                nstats["with_an_id_comparison"] += 1
                idn = [n for n, t in zip(names, texts) if t.startswith("id ")]
                nstats["id_comparison_right_of_a_group_with_or_or_not"] += any(
                    re.search(r"\([^()]*\b(or|not)\b[^()]*\).*\b%s\b" % n, skel) for n in idn)
                nstats["followed_by_sort_or_limit"] += (" sort by " in query or " limit " in query)
            if store == "twins":
                mstats["cases"] += 1
                mstats["cases_with_a_row_where_exactly_one_atom_holds"] += any(
                    sum(b[k] == "1" for b in abits) == 1 for k in range(len(abits[0])))
                mstats["cases_where_neighbouring_clauses_share_operator_and_literal_on_different_symbols"] += any(
                    same_shape_other_symbol(texts[k], texts[k + 1]) for k in range(len(texts) - 1))
            if store == "nest":
                qstats["cases"] += 1
                qstats["atoms_nested_2_or_3_levels"] += any(t.count("from ") >= 2 for t in texts)
                qstats["inside_a_sub_query"] += skel == "A" and stream.startswith("q2")
            rep = dict(case=case, impl=i, model=m, store=store, query=query, skeleton=skel,
                       atoms=dict(zip(names, texts)), rows=rowids,
                       atom_values_per_row_as_the_code_answers_for_the_atom_alone=dict(zip(texts, abits)),
                       rows_selected_impl=ibits, rows_selected_expected=sbits,
                       note=("dataset: harness c12w5.go c12mOpen (64 rows; s, sn, su run through the product of x / xy / hello / unset, the other "
                             "field families through the products of their domains; odd rows write explicit nils); bit r = row r selected"
                             if store == "twins" else
                             "dataset: harness c12w7.go c12qOpen (stores fams -> kids -> toys -> parts linked by fk set symbols; 12 fams, 8 kids, 6 toys, "
                             "4 parts; the query runs on fams); bit r = row r selected" if store == "nest" else
                             "dataset: harness c12w3.go c12nRows (n0: no field set, n1: explicit nils, h1/h2: partly set); "
                             "bit r = row r selected"))
            if store == "nest" and stream.startswith("q2:"):
                # a family of filters that are equal by the property: the first member that is accepted and selects the rows
                # of its surface semantics is the reference; a member that is not accepted, or selects other rows, fails
                members = qfam.get(stream.split(":")[1], [])
                ref = next((mb for mb in members if mb[1][1] == mb[2][2] and mb[3] != case), None)
                if ref is not None and (ibits != sbits or ibits != ref[1][1]):
                    rq = unhex(ref[0][3]).decode("latin-1")
                    key, words = q2_relation(stream, ref[0][1])
                    where = " (inside the sub-query)" if skel == "A" else ""
                    if ibits in ("E", "P"):
                        got = "is rejected" if ibits == "E" else "panics"
                    else:
                        got = "selects rows %s" % ibits
                    c.violation(key, "valid query %r on store %s %s, although %r - %s%s - is accepted and selects exactly the rows of its surface semantics (%s): "
                                "whether a filter is accepted / what it selects depends on the order, the grouping or redundant parentheses of the operands of and / or" % (
                                    query, store, got, rq, words, where, ref[1][1]),
                                dict(rep, case=case + "\n" + ref[3], reference_query=rq, reference_rows=ref[1][1], relation=words,
                                     family=[dict(query=unhex(mb[0][3]).decode("latin-1"), operand_order=mb[0][1].split(":")[2], grouping=mb[0][1].split(":")[3],
                                                  result=("rejected" if mb[1][1] == "E" else "panic" if mb[1][1] == "P" else mb[1][1])) for mb in members]))
                    continue
            if ibits in ("E", "P"):
                c.violation("C12:valid-query-rejected" if ibits == "E" else "C12:panic",
                            "valid query %r (store %s) %s" % (query, store, "is rejected" if ibits == "E" else "panics"), rep)
                continue
            if store == "nest" and len(fi) > 4 and set(fi[4]) != {"A"}:
                bad, good = entry_report(fi[4])
                c.violation("C12:entry-point-acceptance",
                            "valid query %r is accepted by Store.QueryIds (store %s, rows %s) but %s; accepted by: %s - whether a valid filter is accepted depends on the parsing entry point" % (
                                query, store, ibits, "; ".join(bad), ", ".join(good) or "none"),
                            dict(rep, entry_points=dict(zip(E_NAMES, fi[4]))))
                continue
            if ibits != sbits:
                # the differing row on which the fewest atoms hold (exactly one, when there is such a row)
                r = min((k for k in range(len(sbits)) if ibits[k] != sbits[k]), key=lambda k: (sum(b[k] == "1" for b in abits), k))
                vals = ", ".join("%r is %s" % (t, "true" if b[r] == "1" else "false") for t, b in zip(texts, abits))
                sibs = [(q2, b2) for q2, b2, _ in regroup.get(pure_chain_key(cf), []) if q2 != query]
                good = [q2 for q2, b2 in sibs if b2 == sbits]
                good_case = [c2 for q2, b2, c2 in regroup.get(pure_chain_key(cf), []) if q2 != query and b2 == sbits]
                if good:
                    # the property's own statement about chains: the same clauses joined by the same connective, grouped
                    # differently, must select the same rows - and another grouping does select the expected ones
                    conn = "or" if "|" in pre else "and"
                    c.violation("C12:chain-regrouping",
                                "query %r on row %s of store %s (where %s) is %s, expected %s; rows selected %s, expected %s. The same clauses in the same order "
                                "grouped as %r select exactly the expected rows: the value of an `%s`-chain depends on how its clauses are grouped, it is not "
                                "the %s of the values its clauses have on the row" % (
                                    query, rowids[r], store, vals, "true" if ibits[r] == "1" else "false", "true" if sbits[r] == "1" else "false",
                                    ibits, sbits, good[0], conn, "disjunction" if conn == "or" else "conjunction"),
                                dict(rep, case=case + "\n" + good_case[0], first_differing_row=rowids[r], atoms_true_on_that_row=[t for t, b in zip(texts, abits) if b[r] == "1"],
                                     other_groupings_of_the_same_clauses={q2: ("as expected" if b2 == sbits else b2) for q2, b2 in sibs}))
                    continue
                proj = fi[3] if len(fi) > 3 and store != "things" else "-"
                if proj == sbits:
                    # the code combines the skeleton as written when its atoms are opaque boolean symbols with these very values:
                    # the result is wrong only because of what the clauses look like - they are not evaluated independently
                    c.violation("C12:clauses-not-independent",
                                "query %r on row %s of store %s (where %s) is %s, expected %s; rows selected %s, expected %s. The same skeleton %r over opaque "
                                "boolean atoms with the values the clauses have on each row selects exactly the expected rows: the connectives are grouped as "
                                "written, but a clause does not contribute its own value once it stands next to clauses of the same shape" % (
                                    query, rowids[r], store, vals, "true" if ibits[r] == "1" else "false", "true" if sbits[r] == "1" else "false",
                                    ibits, sbits, skel),
                                dict(rep, first_differing_row=rowids[r], atoms_true_on_that_row=[t for t, b in zip(texts, abits) if b[r] == "1"],
                                     rows_selected_by_the_same_skeleton_over_opaque_atoms=proj))
                    continue
                if has_not and not mixed:
                    key = "C12:not-complement"
                    why = "`not` is not the complement of its operand as the code evaluates it on that row"
                elif mixed:
                    key, why = "C12:and-over-or", "`and` does not bind tighter than `or`"
                else:
                    key, why = "C12:grouping", "the connectives do not combine the values of their operands"
                c.violation(key, "query %r on row %s of store %s (where %s) is %s, expected %s: %s; rows selected %s, expected %s" % (
                    query, rowids[r], store, vals, "true" if ibits[r] == "1" else "false", "true" if sbits[r] == "1" else "false",
                    why, ibits, sbits), dict(rep, first_differing_row=rowids[r]))
                continue
            if store == "things" and len(fi) > 3 and fi[3] != sbits:
                # the store's other way of evaluating a filter over its rows: the filtered id cursor (harness c12w9.go)
                nstats["iterate_ids_compared"] += 1
                c.violation("C12:iterate-ids" if fi[3] not in ("E", "P") else "C12:valid-query-rejected" if fi[3] == "E" else "C12:panic",
                            "query %r on store %s: Store.QueryIds selects exactly the rows of the surface semantics (%s), but Store.IterateIds over the predicate "
                            "of the same filter %s: how the connectives combine depends on the way the store is asked" % (
                                query, store, sbits, "is rejected" if fi[3] == "E" else "panics" if fi[3] == "P" else "yields rows %s" % fi[3]),
                            dict(rep, rows_yielded_by_iterate_ids=fi[3]))
                continue
            if store == "things" and len(fi) > 3:
                nstats["iterate_ids_compared"] += 1
            if has_not:
                nstats["with_not"] += 1
                # a `not` whose operand is false on a row although the plain reading would make it true there:
                # counted when some atom is false on a row where every atom is false (nil rows)
                nstats["rows_where_all_atoms_false"] += sum(1 for k in range(len(sbits)) if all(b[k] == "0" for b in abits))
            if mbits != ibits:
                disagreements.append((case, i, m, "rows selected (stream n)"))
            continue
        kind, stream, mode, hfilter, pre = cf[0], cf[1], cf[2], cf[3], cf[4]
        filt = unhex(hfilter)
        ikinds, ierrs, itt = fi[1], fi[2], fi[3]
        mkinds, mdrops, mtt, stt, ltt, dtt = fm[1], fm[2], fm[3], fm[4], fm[5], fm[6]
        evaluations += len(stt)
        has_not, mixed, and_then_or = features(pre)
        if has_not or mixed or "(" in pre or kind == "W" or len(stt) > 2:
            distinct.add(case)
        rep = dict(case=case, impl=i, model=m, filter=filt.decode("latin-1"), mode=mode,
                   truth_table_impl=itt, truth_table_expected=stt, truth_table_model=mtt,
                   truth_table_of_generated_parser_as_shipped=ltt,
                   note="truth table: position i = assignment with atom j true iff bit j of i; atoms " + cf[5])
        if stream in ("lw", "lp", "lb"):
            lstats["cases"] += 1
            lstats["max_tokens"] = max(lstats["max_tokens"], ntokens(mkinds))
            lstats["max_leaves"] = max(lstats["max_leaves"], pre.count("<"))
        # ---- the property's own oracle: the real filter must denote the surface semantics
        if itt != stt:
            if kind == "W" and itt in ("E", "P") and fi[4] == stt:
                # the base spelling is accepted and right, the re-spelling of the same skeleton is not accepted
                base = unhex(cf[6]).decode("latin-1")
                key, what_differs = W_KEYS.get(stream, ("C12:respelling", "case / white space / redundant parentheses"))
                toks = " (%d tokens vs %d tokens)" % (skeleton_tokens(base), skeleton_tokens(filt.decode("latin-1"))) if mode == "sym" else ""
                c.violation(key, "filter %r is accepted (truth table %s, as expected) but its re-spelling %r, which differs only in %s%s, %s" % (
                    shorten(base), shorten(fi[4], 40), shorten(filt.decode("latin-1")), what_differs, toks,
                    "is rejected" if itt == "E" else "panics"),
                    dict(rep, truth_table_base=fi[4], base_filter=base, differs_only_in=what_differs))
                continue
            if kind == "S" and len(fi) > 4 and fi[4] == stt and itt not in ("E", "P"):
                # streams d: the same skeleton written over distinct atoms is right under the same values
                c.violation("C12:repeated-atoms",
                            "filter %r (%s atoms): truth table %s, expected %s; the same skeleton written over distinct atoms evaluates as expected "
                            "under the same values (%s) - the result is wrong only because atom texts repeat (operands that read alike are not "
                            "combined as written)" % (shorten(filt.decode("latin-1")), mode, itt, stt, fi[4]),
                            dict(rep, truth_table_of_the_same_skeleton_over_distinct_atoms_under_the_same_values=fi[4]))
                continue
            if itt in ("E", "P"):
                key = "C12:valid-skeleton-rejected" if itt == "E" else "C12:panic"
                what = "valid filter %r (%s) %s" % (shorten(filt.decode("latin-1")), mode, "is rejected" if itt == "E" else "panics")
            elif mixed:
                key = "C12:and-over-or"
                what = "filter %r (%s atoms): `and` does not bind tighter than `or`: truth table %s, expected %s" % (
                    shorten(filt.decode("latin-1")), mode, itt, stt)
            elif has_not:
                key = "C12:not-grouping"
                what = "filter %r (%s atoms): truth table %s, expected %s" % (shorten(filt.decode("latin-1")), mode, itt, stt)
            else:
                key = "C12:grouping"
                what = "filter %r (%s atoms): truth table %s, expected %s" % (shorten(filt.decode("latin-1")), mode, itt, stt)
            c.violation(key, what, rep)
            continue
        if stream.startswith("e") and kind == "S" and len(fi) > 5:
            # ---- stream e: the filter is valid and ast.Parse reads it as written: every other entry point accepts it too
            estats["cases"] += 1
            estats["entry_point_calls"] += len(fi[4]) + 1
            if set(fi[4]) != {"A"} or fi[5] != stt:
                bad, good = entry_report(fi[4])
                if fi[5] != stt:
                    bad.append("ast.Parse, asked again after the other entry points ran, %s" % (
                        "rejects it" if fi[5] == "E" else "panics" if fi[5] == "P" else "gives truth table %s" % fi[5]))
                c.violation("C12:entry-point-acceptance",
                            "valid filter %r (%s atoms) is accepted by ast.Parse with the expected truth table %s, but %s; accepted by: ast.Parse, %s - "
                            "whether a valid skeleton is accepted depends on the parsing entry point" % (
                                shorten(filt.decode("latin-1")), mode, stt, "; ".join(bad), ", ".join(good) or "no other"),
                            dict(rep, entry_points=dict(zip(E_NAMES, fi[4])), truth_table_of_ast_parse_afterwards=fi[5]))
                continue
        if kind == "W":
            ibase, mbase = fi[4], fm[7]
            if ibase != itt:
                base = unhex(cf[6]).decode("latin-1")
                low = base.lower().split()
                key = "C12:and-over-or" if ("and" in low and "or" in low and ibase not in ("E", "P")) else "C12:respelling"
                c.violation(key, "filter %r and its re-spelling %r (same skeleton; case / white space / redundant parentheses) differ: %s vs %s; expected %s" % (
                    base, filt.decode("latin-1"), ibase, itt, stt), dict(rep, truth_table_base=ibase, base_filter=base))
                continue
            if mbase != ibase:
                disagreements.append((case, i, m, "base filter"))
        # ---- model vs implementation (the property holds on this input)
        if mtt != itt:
            disagreements.append((case, i, m, "truth table"))
        elif mode == "sym" and (ikinds != mkinds or ierrs != mdrops):
            disagreements.append((case, i, m, "token kinds"))
        if dtt != stt:
            disagreements.append((case, i, m, "sem vs sem_dnf (specification lemma)"))
    if c.replay:
        for case, i, m in zip(cases, impl, modl):
            vlib.log("REPLAY case=%s\n  impl =%s\n  model=%s" % (case, i, m))
    c.cov["evaluations"] = evaluations
    c.cov["cases"] = len(cases)
    c.cov["stream_k"] = kstats
    c.cov["stream_n"] = nstats
    c.cov["stream_m"] = mstats
    c.cov["stream_l"] = lstats
    c.cov["stream_e"] = estats
    c.cov["stream_q"] = qstats
    c.cov["distinct_nontrivial"] = len(distinct)
    c.cov["disagreements_checked"] = len(disagreements)
    try:
        st = json.load(open(os.path.join(c.work, "stats.json")))
        c.cov["input_distribution"] = st
    except Exception:
        st = {}
    c.cov["rule"] = ("stream x: ALL sentences of the boolExpr skeleton grammar with <= %s atoms, <= 2 parenthesis pairs, <= 2 nots (thorough adds <= 3/3 on <= 4 atoms), "
                     "canonical spelling, every truth assignment; a slice again with atoms rendered as int comparisons (between/in/not in/...) and as true/false constants; "
                     "stream r: random keyword case / white-space kinds and amounts / keyword-like atom names, compared with the canonical spelling; "
                     "stream w: one redundant parenthesis pair added; stream g: random longer chains with repeated atoms; "
                     "stream k: queries over a real store (people/places) built from atom templates covering every keyword and word operator, "
                     "k1 = ONE spelling site (a keyword's letter case, or the white space at one WS+/WS*/single-WS place incl. inside not in/between/contains/icontains) "
                     "changed at a time - every site of every atom, every variant; k2 = all sites in one uniform style; k3 = random skeletons + sort/skip/limit, all sites random; "
                     "oracle: same QueryIds result as the canonical spelling. "
                     "stream d: skeletons with REPEATING atoms - d1 = the exhaustive skeletons relabelled with repeating names (quick: one labelling each, thorough: all on <= 4 leaves), "
                     "d2 = `X op Y` / `(X) op (Y)` / mixed for ALL pairs X, Y of groupings of one clause sequence (2-4 clauses, <= 3 names, every and/or sequence, 0-2 nots; "
                     "exhaustive for 3 clauses without not, sampled above), plain and inside a context; sym + slices in cmp/const mode. "
                     "stream l: long filters (12..1200 leaves, thorough ..5000; or-chain, and-chain, alternating, groups, and-runs, random nesting) compact vs "
                     "one-clause-per-line / doubled blanks / tabs / random white space / every atom in parentheses / whole filter in 1-3 pairs / both. "
                     "stream n: skeletons over real comparisons (71 atoms: = != < <= > >= contains icontains in between null, their not-forms, anyOf/allOf/count/isEmpty; "
                     "string, int, float, datetime, bool, set) on a store whose rows leave fields unset / explicitly nil: n1 = every skeleton over one atom (<= 2 parens, <= 3 nots) x every atom, "
                     "n2 = every two-leaf skeleton with a not, n3 = random over three atoms; oracle per row: surface semantics under the code's own value of each atom on that row; "
                     "n4 = a comparison of the entity's own id (= existing id, = absent id, != in not-in > <= contains) at every leaf position of EVERY skeleton over 2 and 3 leaves "
                     "(<= 2 parenthesis pairs, <= 2 nots; all skeletons for one atom tuple, so every chain is there in all groupings), two id comparisons in one filter, "
                     "a slice followed by sort by id / sort by s / limit none (sorting scanner) - same oracle, through Store.QueryIds; the id atoms alone in every one-leaf skeleton; "
                     "every n1-n4 case also through Store.IterateIds over the typed predicate (filtered id cursor), same oracle. "
                     "stream m: skeletons over real comparisons of ONE operator family on SEVERAL symbols of one type with shared literals (19 families: string/int/float/datetime "
                     "= in between / != not-in not-between / < >= <= > / contains icontains / null, bool, anyOf allOf count isEmpty on two set symbols) on a 64-row store holding the full "
                     "product of the values of the symbols of a family: m1 = every 3-clause sequence of one family (8 symbol patterns x 5 literal patterns x 4 and/or sequences, each form) in ALL "
                     "3 groupings, m2 = chains of 4-6 clauses plain and grouped, m3 = random skeletons whose clauses are a walk through the pool (next clause: other symbol / form / literal / family); "
                     "oracle per row as for n; a failing pure chain is compared with the other groupings of the same clauses, every failure with the same skeleton over opaque atoms. "
                     "stream e: every skeleton over <= 3 atoms (<= 2 parenthesis pairs, <= 2 nots; a twelfth of the 4-atom ones, thorough all), a quarter re-spelled, slices as comparisons / "
                     "constants, random chains of 4-8 leaves: ast.Parse (truth table) + zitiql.Parse / ParseWithDebug(false) / ParseWithDebug(true) / Parse again / both with the ast listener "
                     "(acceptance) + ast.Parse again; oracle: a valid skeleton is accepted by every entry point. "
                     "stream q: store fams -> kids -> toys -> parts; 8 atoms with sub-queries nested 2-3 levels + 10 plain ones; q0 every atom alone, q1 every skeleton over 2-3 leaves "
                     "(<= 1 pair, <= 1 not; thorough 2/2) with a nested atom at each leaf position (oracle of n), q2 families: {plain, nested} / {not plain, nested} / {plain, not nested} / "
                     "{nested, nested} / {(plain op' nested), plain} / three operands under and, or, and `X and Y or Z`, each in every operand order x flat / left group / right group / every operand in "
                     "parentheses / whole in parentheses, at the top level and as the filter of the middle (kids) and the inner (toys) sub-query; oracle: every member accepted (QueryIds and all "
                     "other entry points) and all members select the same rows. "
                     "evaluations = truth-table entries compared; non-trivial = has not/parentheses/mixed connectives/>1 atom/re-spelling; distinct by case text"
                     % (5 if c.thorough else 4))
    idx = sorted(set((0, min(3, len(cases) - 1), len(cases) // 2, len(cases) - 1)))
    c.cov["samples"] = [dict(case=cases[k], impl=impl[k], model=modl[k]) for k in idx]
    if st.get("k_atoms_negation_unobservable", 0) or st.get("k_canonical_rejected", 0):
        disagreements.append(("-", "-", "-", "stream k dataset: %s word-operator atoms whose negation is unobservable, %s canonical queries rejected"
                              % (st.get("k_atoms_negation_unobservable"), st.get("k_canonical_rejected"))))
    if st.get("m_symbol_twins_indistinguishable", 0) or st.get("m_atoms_rejected", 0):
        disagreements.append(("-", "-", "-", "stream m dataset: %s pairs of atoms that differ in their symbol only are not told apart by the rows, %s atoms rejected"
                              % (st.get("m_symbol_twins_indistinguishable"), st.get("m_atoms_rejected"))))
    if st.get("q_atoms_constant", 0):
        disagreements.append(("-", "-", "-", "stream q dataset: %s atoms select all rows or none" % st.get("q_atoms_constant")))
    if disagreements and not c.violations:
        case, i, m, what = disagreements[0]
        c.violation("C12:correspondence", "model and implementation differ (%s) on %d cases although the property holds on them, e.g. %s: impl %s model %s"
                    % (what, len(disagreements), case, i, m),
                    dict(correspondence="Lang/Lexer.v + Lang/BoolGrammar.v + Lang/Listener.v vs zitiql lexer/parser + ast listener",
                         theorems=["precedence_and_over_or", "keyword_case_insensitive", "word_operator_spelling", "chain_in_any_grouping"], case=case, impl=i, model=m), no_input=True)
    if not proof_ok:
        c.violation("C12:proof", "proof obligation no longer checks: %s" % json.dumps(c.proof_broken)[:600],
                    dict(broken=c.proof_broken), no_input=True)
    return c.finish()
