"""C12 - boolean connectives group as written: parentheses, precedence, case, spacing.
Proof: coq/theories/Properties/C12.v (models Lang/Lexer.v, Lang/BoolGrammar.v, Lang/Listener.v;
specification Lang/BoolSurface.v).
Correspondence: for ALL boolean skeletons over <= 4 (thorough: 5) atoms, every truth assignment:
truth table of the really parsed filter (ast.Parse + EvalBool) vs. the extracted model vs. the
surface semantics; token kinds of the real lexer vs. the model lexer; re-spellings (keyword case,
white space, redundant parentheses), the same skeletons over comparisons and constants."""
import json
import os

import vlib

PID = "C12"
FILES = ["theories/Properties/C12.v", "theories/Examples/C12Examples.v"]


def unhex(h):
    return b"" if h == "-" else bytes.fromhex(h)


def features(pre):
    """classify a prefix-form expression: which statement of the property it exercises"""
    has_not = "!" in pre
    # mixed and/or at one chain level without parentheses between them
    mixed = False
    and_then_or = False
    depth_ops = {}
    depth = 0
    i = 0
    while i < len(pre):
        ch = pre[i]
        if ch == "(":
            depth += 1
            depth_ops[depth] = []
        elif ch == ")":
            depth_ops.pop(depth, None)
            depth -= 1
        elif ch == "!":
            depth += 1          # a not starts a fresh chain that lasts to the end of the enclosing group
            depth_ops[depth] = []
        elif ch in "&|":
            ops = depth_ops.setdefault(depth, [])
            if ops and ch not in ops:
                mixed = True
            if ch == "|" and "&" in ops:
                and_then_or = True
            ops.append(ch)
        elif ch == "<":
            i = pre.index(">", i)
        i += 1
    return has_not, mixed, and_then_or


def main(argv):
    c = vlib.Check(PID, argv)
    c.cov["trusted_base"] = [
        "Coq 8.16.1 kernel (coqc; coqchk in the thorough tier); vm_compute in Examples only; no axioms",
        "hand-written models Lang/Lexer.v (skeleton token rules, ANTLR longest-match/first-rule loop), Lang/BoolGrammar.v "
        "(generated rule boolExpr(_p) incl. adaptive prediction resolved to 'continue'), Lang/Listener.v (stack machine, typed And/Or/Not, EvalBool)",
        "specification Lang/BoolSurface.v (surface syntax, or-of-ands semantics, spellings)",
        "extraction (ExtrOcamlBasic only) + extraction/c12_driver.ml + drv_common.ml",
        "Go harness cmd/storageharness/c12.go (enumerator of skeletons, spellers, boolean/int symbol tables) and this comparison",
        "ANTLR runtime (ATN interpreter, adaptive prediction): compared on every enumerated skeleton, not verified",
    ]
    c.assumptions = [
        "atom names are identifiers [A-Za-z][A-Za-z_]* that are not reserved words and do not begin with in/contains/icontains/between "
        "(the token rules IN, CONTAINS, ICONTAINS, BETWEEN absorb a preceding 'not')",
        "`not` has the lowest precedence (last alternative of boolExpr in ZitiQl.g4): it negates everything up to the closing parenthesis or the end of the filter",
    ]
    proof_ok = c.proof_step(FILES)
    model = vlib.build_model("C12")
    harness, err = vlib.build_harness()
    if harness is None:
        c.violation("C12:harness-build", "harness does not build against the repository: " + err[-800:],
                    dict(correspondence="harness build", log=err[-3000:]), no_input=True)
        return c.finish()

    cases_path = os.path.join(c.work, "cases.txt")
    if c.replay:
        rp = json.load(open(c.replay))
        rin = os.path.join(c.work, "replay_in.txt")
        with open(rin, "w") as f:
            f.write(rp["case"] + "\n")
        args = [harness, "c12", "--out", c.work, "--replaycase", rin]
    else:
        args = [harness, "c12", "--seed", str(c.seed), "--tier", c.tier, "--out", c.work]
    rc, out = vlib.run(args, timeout=3000, env=dict(os.environ, VERIF_JOBS=vlib.NPROC))
    if rc != 0:
        c.violation("C12:harness-run", "harness failed rc=%s: %s" % (rc, out[-500:]),
                    dict(correspondence="harness run", log=out[-3000:]), no_input=True)
        return c.finish()
    cases = vlib.read_lines(cases_path)
    impl = vlib.read_lines(os.path.join(c.work, "impl.txt"))
    modl = vlib.run_model(model, "c12", cases_path, os.path.join(c.work, "model.txt"))
    assert len(cases) == len(impl) == len(modl), (len(cases), len(impl), len(modl))

    distinct = set()
    disagreements = []
    evaluations = 0
    for case, i, m in zip(cases, impl, modl):
        cf, fi, fm = case.split(), i.split(), m.split()
        kind, stream, mode, hfilter, pre = cf[0], cf[1], cf[2], cf[3], cf[4]
        filt = unhex(hfilter)
        ikinds, ierrs, itt = fi[1], fi[2], fi[3]
        mkinds, mdrops, mtt, stt, ltt, dtt = fm[1], fm[2], fm[3], fm[4], fm[5], fm[6]
        evaluations += len(stt)
        has_not, mixed, and_then_or = features(pre)
        if has_not or mixed or "(" in pre or kind == "W" or len(stt) > 2:
            distinct.add(case)
        rep = dict(case=case, impl=i, model=m, filter=filt.decode("latin-1"), mode=mode,
                   truth_table_impl=itt, truth_table_expected=stt, truth_table_model=mtt,
                   truth_table_of_generated_parser_as_shipped=ltt,
                   note="truth table: position i = assignment with atom j true iff bit j of i; atoms " + cf[5])
        # ---- the property's own oracle: the real filter must denote the surface semantics
        if itt != stt:
            if itt in ("E", "P"):
                key = "C12:valid-skeleton-rejected" if itt == "E" else "C12:panic"
                what = "valid filter %r (%s) %s" % (filt.decode("latin-1"), mode, "is rejected" if itt == "E" else "panics")
            elif mixed:
                key = "C12:and-over-or"
                what = "filter %r (%s atoms): `and` does not bind tighter than `or`: truth table %s, expected %s" % (
                    filt.decode("latin-1"), mode, itt, stt)
            elif has_not:
                key = "C12:not-grouping"
                what = "filter %r (%s atoms): truth table %s, expected %s" % (filt.decode("latin-1"), mode, itt, stt)
            else:
                key = "C12:grouping"
                what = "filter %r (%s atoms): truth table %s, expected %s" % (filt.decode("latin-1"), mode, itt, stt)
            c.violation(key, what, rep)
            continue
        if kind == "W":
            ibase, mbase = fi[4], fm[7]
            if ibase != itt:
                base = unhex(cf[6]).decode("latin-1")
                low = base.lower().split()
                key = "C12:and-over-or" if ("and" in low and "or" in low and ibase not in ("E", "P")) else "C12:respelling"
                c.violation(key, "filter %r and its re-spelling %r (same skeleton; case / white space / redundant parentheses) differ: %s vs %s; expected %s" % (
                    base, filt.decode("latin-1"), ibase, itt, stt), dict(rep, truth_table_base=ibase, base_filter=base))
                continue
            if mbase != ibase:
                disagreements.append((case, i, m, "base filter"))
        # ---- model vs implementation (the property holds on this input)
        if mtt != itt:
            disagreements.append((case, i, m, "truth table"))
        elif mode == "sym" and (ikinds != mkinds or ierrs != mdrops):
            disagreements.append((case, i, m, "token kinds"))
        if dtt != stt:
            disagreements.append((case, i, m, "sem vs sem_dnf (specification lemma)"))
    if c.replay:
        for case, i, m in zip(cases, impl, modl):
            vlib.log("REPLAY case=%s\n  impl =%s\n  model=%s" % (case, i, m))
    c.cov["evaluations"] = evaluations
    c.cov["cases"] = len(cases)
    c.cov["distinct_nontrivial"] = len(distinct)
    c.cov["disagreements_checked"] = len(disagreements)
    try:
        st = json.load(open(os.path.join(c.work, "stats.json")))
        c.cov["input_distribution"] = st
    except Exception:
        st = {}
    c.cov["rule"] = ("stream x: ALL sentences of the boolExpr skeleton grammar with <= %s atoms, <= 2 parenthesis pairs, <= 2 nots (thorough adds <= 3/3 on <= 4 atoms), "
                     "canonical spelling, every truth assignment; a slice again with atoms rendered as int comparisons (between/in/not in/...) and as true/false constants; "
                     "stream r: random keyword case / white-space kinds and amounts / keyword-like atom names, compared with the canonical spelling; "
                     "stream w: one redundant parenthesis pair added; stream g: random longer chains with repeated atoms. "
                     "evaluations = truth-table entries compared; non-trivial = has not/parentheses/mixed connectives/>1 atom/re-spelling; distinct by case text"
                     % (5 if c.thorough else 4))
    idx = sorted(set((0, min(3, len(cases) - 1), len(cases) // 2, len(cases) - 1)))
    c.cov["samples"] = [dict(case=cases[k], impl=impl[k], model=modl[k]) for k in idx]
    if disagreements and not c.violations:
        case, i, m, what = disagreements[0]
        c.violation("C12:correspondence", "model and implementation differ (%s) on %d cases although the property holds on them, e.g. %s: impl %s model %s"
                    % (what, len(disagreements), case, i, m),
                    dict(correspondence="Lang/Lexer.v + Lang/BoolGrammar.v + Lang/Listener.v vs zitiql lexer/parser + ast listener",
                         theorems=["precedence_and_over_or", "keyword_case_insensitive"], case=case, impl=i, model=m), no_input=True)
    if not proof_ok:
        c.violation("C12:proof", "proof obligation no longer checks: %s" % json.dumps(c.proof_broken)[:600],
                    dict(broken=c.proof_broken), no_input=True)
    return c.finish()
