"""C16 - system entities can only be changed from a system context."""
import json

import storefam
import storefamx
import vlib

PID = "C16"
FILES = ["theories/Properties/C16.v", "theories/Examples/C16Examples.v", "theories/Examples/C16Wirings.v",
         "theories/Examples/C16W3Wirings.v", "theories/Examples/C16W5DeleteWhere.v", "theories/Examples/C16W7Wirings.v"]


def sys_families(sch):
    """root store -> True for the store families carrying a system-entity constraint"""
    fam = set()
    for s in sch.order:
        if any(k[0] == "SY" for k in sch.stores[s]["cons"]):
            fam.add(sch.root(s))
    return fam


def sys_levels(sch):
    """root store -> (root carries the constraint, [(child store carrying it, extended)])"""
    lv = {}
    for s in sch.order:
        d = sch.stores[s]
        if any(k[0] == "SY" for k in d["cons"]):
            r = sch.root(s)
            has, cs = lv.get(r, (False, []))
            if d["parent"] is None:
                has = True
            else:
                cs = cs + [(s, d["ext"])]
            lv[r] = (has, cs)
    return lv


def protects(levels, root, members):
    """what the constraints of the family protect for a FLAGGED entity with child data in `members`
    (Store/SystemProofs.v for the root store, Store/SystemChild.v for a child store: update needs the child data,
    DeleteById reaches every child store that can load the entity - an extended one always can)
    -> (update protected through which stores: 'all' | set of stores, delete protected)"""
    has, cs = levels.get(root, (False, []))
    if has:
        return "all", True
    upd = set()
    dele = False
    for c, ext in cs:
        if c in members:
            upd.add(c)
            if members == {c}:
                upd.add(root)   # the root store routes the update to the child store holding the entity
            dele = True
        elif ext:
            dele = True
    return upd, dele


def restore_of(vetoes):
    """(k, mode) of a restore step (harness store_c16w2.go; Store/SystemRestore.v) or None"""
    for st, _, i in vetoes:
        if st == "@rs":
            v = bytes.fromhex(i).decode("latin-1") if i != "-" else "0:s"
            k, _, m = v.partition(":")
            return int(k), (m or "s")
    return None


ENTRY_NAMES = {"u": "Db.Update", "b": "Db.Batch", "t": "a caller-managed bolt transaction with NewTxMutateContext",
               "j": "Db.Update joined inside Db.Update", "k": "Db.Batch joined inside Db.Update",
               "l": "Db.Update joined inside Db.Batch"}


def entry_of(vetoes):
    """the entry point of the transaction (harness store_c16w5.go, pseudo veto '@ep'); 'u' = Db.Update"""
    for st, _, i in vetoes:
        if st == "@ep":
            v = bytes.fromhex(i).decode("latin-1") if i != "-" else "u"
            return v if v in ENTRY_NAMES else "u"
    return "u"


def back_sets(sch):
    """(root of the fk target, back-reference set) -> root of the family whose ids the set holds (fk INDEXES: the set lives in the
    target entity and is the index 'who references me')"""
    out = {}
    for s in sch.order:
        for k in sch.stores[s]["cons"]:
            if k[0] == "FI":
                out[(sch.root(k[2]), k[3])] = sch.root(s)
        # the declared string sets of a store (set-index fields; link collections are not declared here): key (root, None, set)
        for sn in sch.stores[s]["sets"]:
            out[(sch.root(s), None, sn)] = sch.root(s)
    return out


def dw_matches(sch, ents, op):
    """ids the filter of a DeleteWhere matches through its store in the content `ents` (Store/XOps.v dw_ids: a plain child store
    shows the entities it holds data for, an extended one every entity of the root store; a child store sees the parent's
    fields and its own)"""
    s = op["store"]
    d = sch.stores[s]
    root = sch.root(s)
    out = []
    for (r, i), e in sorted(ents.items()):
        if r != root:
            continue
        if d["parent"] is not None and not d["ext"] and s not in e["members"]:
            continue
        if op["field"] is None:
            out.append(i)
            continue
        if d["parent"] is not None and any(f == op["field"] for f, _ in d["fields"]):
            fact = "CF:%s:%s:%s:%s:s%s" % (root, i, s, op["field"], op["val"])
        else:
            fact = "F:%s:%s:%s:s%s" % (root, i, op["field"], op["val"])
        if fact in e["fields"]:
            out.append(i)
    return out


def state_of(facts, backs=None):
    """(root,id) -> dict(flag, fields (F/C/CF facts of the entity), members (child stores holding data), index (the index
    entries that point at the entity: unique / set index entries, back-reference sets of fk indexes))"""
    ents = {}
    for f in facts:
        p = f.split(":")
        if p[0] == "E":
            ents.setdefault((p[1], p[2]), dict(flag="absent", fields=set(), members=set(), index=set(), sets=set()))
    for f in facts:
        p = f.split(":")
        if p[0] in ("U", "X") and len(p) == 5 and (p[1], p[4]) in ents:
            ents[(p[1], p[4])]["index"].add(f)
        elif p[0] == "S" and len(p) == 5 and backs and (p[1], p[3]) in backs and (backs[(p[1], p[3])], p[4]) in ents:
            ents[(backs[(p[1], p[3])], p[4])]["index"].add(f)
        elif p[0] == "S" and len(p) == 5 and backs and (p[1], None, p[3]) in backs and (p[1], p[2]) in ents:
            ents[(p[1], p[2])]["sets"].add(f)   # the values a set index of the entity is built from
    for f in facts:
        p = f.split(":")
        if p[0] in ("F", "C", "CF") and (p[1], p[2]) in ents:
            e = ents[(p[1], p[2])]
            e["fields"].add(f)
            if p[0] == "F" and p[3] == "isSystem":
                e["flag"] = p[4]
            if p[0] == "C":
                e["members"].add(p[3])
    return ents


def op_modes(vetoes, nops):
    """mixed transactions (harness store_c16s.go): per operation (context b|s|n|u|x|y or p|q|r = deferred into a pre-commit action: store_c16w9.go, swallow, decoration) from the pseudo
    veto '@m' ; None for an ordinary transaction"""
    for st, _, i in vetoes:
        if st == "@m":
            ms = bytes.fromhex(i).decode("latin-1") if i != "-" else ""
            out = []
            for k in range(nops):
                m = ms[3 * k:3 * k + 3]
                out.append((m[0], m[1] == "w", m[2]) if len(m) == 3 else ("b", False, "-"))
            return out
    return None


PRECOMMIT_REG = {"p": "the ORDINARY base context (ctx.AddPreCommitAction)",
                 "q": "a system context derived from it (ctx.GetSystemContext().AddPreCommitAction)",
                 "r": "a system context derived from it (boltz.NewSystemMutateContext(ctx).AddPreCommitAction)"}


def precommit_note(modes, j):
    """operations deferred into pre-commit actions (harness store_c16w9.go, context modes p / q / r of a mixed transaction): the
    operation runs with the context the library hands to the action; its kind is that of the context the action was registered
    through. The note names every action of the transaction, in registration order"""
    if modes is None or modes[j][0] not in PRECOMMIT_REG:
        return ""
    acts = ["op %d through %s" % (i, PRECOMMIT_REG[m[0]]) for i, m in enumerate(modes) if m[0] in PRECOMMIT_REG]
    return (" [the operation ran inside a PRE-COMMIT ACTION registered through %s, with the context the library handed to the "
            "action; pre-commit actions of this transaction in registration order: %s]" % (PRECOMMIT_REG[modes[j][0]], "; ".join(acts)))


def swallow_tokens(tx):
    """NW:<op>:<n>:<paths> and RB:<op>:same|diff of one transaction observation -> {op: (n, paths, rb)}"""
    out = {}
    for t in tx["other"]:
        p = t.split(":", 3)
        if p[0] == "NW":
            out.setdefault(int(p[1]), [0, "", "same"])[0:2] = [int(p[2]), p[3] if len(p) > 3 else ""]
        elif p[0] == "RB":
            out.setdefault(int(p[1]), [0, "", "same"])[2] = p[2]
    return out


def proj_sys(tx):
    """the C16 projection: results + E facts + isSystem facts (raw and as loaded through every store)"""
    facts = tuple(f for f in tx["facts"] if f.startswith("E:") or (f.startswith("F:") and f.split(":")[3] == "isSystem"))
    loaded = tuple(sorted(t for t in tx["other"] if t.startswith("LF:") and t.split(":")[3] == "isSystem"))
    return facts, loaded


def compare(a, b):
    if storefam.proj_results(a) != storefam.proj_results(b):
        return "results impl %s vs model %s" % (storefam.proj_results(a), storefam.proj_results(b))
    fa, fb = proj_sys(a), proj_sys(b)
    if fa != fb:
        sa, sb = set(fa[0]) | set(fa[1]), set(fb[0]) | set(fb[1])
        return "entities / isSystem flags differ: only impl %s ; only model %s" % (sorted(sa - sb)[:6], sorted(sb - sa)[:6])
    return None


def oracle(sch, txs, io, mo):
    out = []
    fam = sys_families(sch)
    levels = sys_levels(sch)
    child_only = ", ".join("%s (child of %s)" % (c, r) for r, (has, cs) in sorted(levels.items()) if not has for c, _ in cs)
    backs = back_sets(sch)
    prev = {}
    restored = ""
    for k, (t, a) in enumerate(zip(txs, io)):
        tsys, _, vetoes, ops = storefamx.parse_ops(t)
        rs = restore_of(vetoes)
        if rs is not None:
            # the content was replaced underneath the stores (snapshot of the content after rs[0] steps): nothing to judge in
            # this step itself - the rules below apply to whatever is present now
            if "panic" in a["results"]:
                out.append(("C16:panic", "restoring the snapshot panicked", k))
                break
            prev = state_of(a["facts"], backs)
            restored = " [after step %d restored the content of step %d, mode %s]" % (k, rs[0], rs[1])
            continue
        modes = op_modes(vetoes, len(ops))
        # the context kind of every operation, from the case line alone: the base context of the transaction, or a system
        # context derived from it (GetSystemContext / NewSystemMutateContext / nested Db.Update) for this operation only
        def kind(j):
            c = modes[j][0] if modes is not None else "b"
            return True if c in "snuy" else False if c == "x" else tsys
        op_sys = [kind(j) for j in range(len(ops))]
        cur = state_of(a["facts"], backs)
        entry = entry_of(vetoes)
        via = "" if entry == "u" else " [transaction entered through %s]" % ENTRY_NAMES[entry]
        if "panic" in a["results"]:
            out.append(("C16:panic", "the library panicked inside the transaction", k))
            break
        # (0) a refusal the caller ignored: the refused operation must not have written anything (dump of the whole bolt
        # file before / after the operation inside the transaction; LoadById before / after)
        for j, (n, paths, rb) in sorted(swallow_tokens(a).items()):
            if n or rb != "same":
                out.append(("C16:refused-update-wrote", "the ordinary-context Update of system entity %s %s (op %d, through %s) was "
                            "refused with an error but had already written: %d bolt paths differ inside the transaction (%s); "
                            "LoadById before/after: %s. A caller that does not roll back (reads in the same transaction, or "
                            "ignores the error and commits) sees a system entity changed from an ordinary context"
                            % (sch.root(ops[j]["store"]), ops[j]["id"], j, ops[j]["store"], n, paths, rb), k))
        # a pre-commit action that returned an error fails the transaction (nothing of it is committed): the refusal of an operation
        # deferred into an action reaches the caller like the refusal of an operation of the body
        if modes is not None and a["commit"]:
            for j, op in enumerate(ops):
                if j < len(a["results"]) and modes[j][0] in PRECOMMIT_REG and a["results"][j] != "ok":
                    out.append(("C16:failed-precommit-action-committed", "op %d (%s through %s, id %s) ran inside a pre-commit action and "
                                "returned an error (%s), but the transaction was committed%s"
                                % (j, op["kind"], op["store"], op.get("id"), a["results"][j], precommit_note(modes, j) + via), k))
        # (i) through an ordinary context no operation on a system entity of a constrained family succeeds; the stored flag
        # is followed through the operations of the transaction (a system-context operation may delete / re-create an id)
        flag_now = dict((key, e["flag"]) for key, e in prev.items())
        memb_now = dict((key, set(e["members"])) for key, e in prev.items())
        derived_before = False
        for j, op in enumerate(ops):
            if j >= len(a["results"]):
                break
            ok = a["results"][j] == "ok"
            if op["kind"] in ("C", "UP", "D") and sch.root(op["store"]) in fam and not op_sys[j] and ok:
                root = sch.root(op["store"])
                ctxt = " (after a system context had been derived from the same context object earlier in the transaction)" \
                    if derived_before else ""
                ctxt += precommit_note(modes, j) + via + restored
                if not levels[root][0]:
                    ctxt += " [the constraint is registered on the child store %s only]" % child_only
                if op["kind"] == "C" and op["sys"]:
                    # refused when the store the create goes through has the constraint in its chain (its own or its parent's)
                    if levels[root][0] or any(c == op["store"] for c, _ in levels[root][1]):
                        deco = " [entity with Migrate=true and explicit timestamps]" if modes and modes[j][2] in "mx" else ""
                        out.append(("C16:system-create-in-ordinary-context", "Create of %s %s with the system flag succeeded "
                                    "in a non-system context (op %d)%s%s" % (op["store"], op["id"], j, deco, ctxt), k))
                elif op["kind"] in ("UP", "D") and flag_now.get((root, op["id"])) == "b1":
                    upd, dele = protects(levels, root, memb_now.get((root, op["id"]), set()))
                    if op["kind"] == "UP" and (upd == "all" or op["store"] in upd):
                        out.append(("C16:system-update-in-ordinary-context",
                                    "Update through %s of system entity %s %s succeeded in a non-system context (op %d)%s"
                                    % (op["store"], root, op["id"], j, ctxt), k))
                    elif op["kind"] == "D" and dele:
                        out.append(("C16:system-delete-in-ordinary-context",
                                    "DeleteById through %s of system entity %s %s succeeded in a non-system context (op %d)%s"
                                    % (op["store"], root, op["id"], j, ctxt), k))
            # DeleteWhere through an ordinary context (Properties/C16.v delete_where_system_refused): when the filter matches a
            # protected system entity - at any position of the id order - the call must report an error
            if op["kind"] == "DW" and sch.root(op["store"]) in fam and ok and not any(op_sys[:j + 1]):
                root = sch.root(op["store"])
                # field values are those of the content BEFORE the transaction: an entity an earlier operation of this body
                # updated successfully (a child-only constraint on an extended store protects a flagged entity without
                # extension data against delete, not against update through the root store) is not judged by a field filter
                updated = set((sch.root(o2["store"]), o2["id"]) for j2, o2 in enumerate(ops[:j])
                              if o2["kind"] == "UP" and a["results"][j2] == "ok")
                hits = [i for i in dw_matches(sch, prev, op)
                        if prev[(root, i)]["flag"] == "b1" and flag_now.get((root, i)) == "b1"
                        and (op["field"] is None or (root, i) not in updated)
                        and protects(levels, root, memb_now.get((root, i), set()))[1]]
                if hits:
                    allm = dw_matches(sch, prev, op)
                    out.append(("C16:system-delete-where-in-ordinary-context",
                                "DeleteWhere through %s (filter %s) matched system entity %s %s (ids matched, in the order of the "
                                "query: %s) and returned no error in a non-system context (op %d)%s%s"
                                % (op["store"], "true" if op["field"] is None else "%s = %s" % (op["field"], op["val"]), root,
                                   ",".join(hits), ",".join(allm), j, via, restored), k))
            # (iii) ordinary entities are unaffected by the constraint: an update / delete of an entity whose stored flag is
            # NOT set (and a create without the flag) that the machine accepts - it accepts exactly what the machine without
            # any system constraint accepts: ordinary_*_unaffected - must not be refused by the implementation
            mres = mo[k]["results"] if k < len(mo) else []
            if op["kind"] in ("C", "UP", "D") and sch.root(op["store"]) in fam and a["results"][j] == "err" and \
                    j < len(mres) and mres[j] == "ok" and list(a["results"][:j]) == list(mres[:j]):
                root = sch.root(op["store"])
                key_ = (root, op["id"])
                plain = (op["kind"] == "C" and not op["sys"]) or \
                        (op["kind"] == "UP" and key_ in flag_now and flag_now[key_] != "b1")
                if plain:
                    out.append(("C16:ordinary-entity-affected", "%s through %s of ORDINARY entity %s %s (stored flag %s) was refused "
                                "in a %s context (op %d); without the constraint it succeeds%s"
                                % ("Create" if op["kind"] == "C" else "Update", op["store"], root, op["id"],
                                   flag_now.get(key_, "absent"), "system" if op_sys[j] else "non-system", j, restored), k))
            if ok and op["kind"] == "C":
                flag_now[(sch.root(op["store"]), op["id"])] = "b1" if op["sys"] else "absent"
                memb_now[(sch.root(op["store"]), op["id"])] = set() if sch.root(op["store"]) == op["store"] else {op["store"]}
            elif ok and op["kind"] == "D":
                flag_now.pop((sch.root(op["store"]), op["id"]), None)
                memb_now.pop((sch.root(op["store"]), op["id"]), None)
            if modes is not None and modes[j][0] in "snu":
                derived_before = True
        # ... and the DURABLE content after the transaction shows every system entity untouched (also through cascades, child
        # stores, DeleteWhere) when no operation of the transaction ran through a system context - whatever the caller got
        # back: the observation is read in a new transaction after the entry point returned, so it is what the attempt left
        # behind (a refused Create / DeleteById has written before it refused and relies on the rollback of the entry point)
        if not any(op_sys):
            outcome = "a committed non-system transaction" if a["commit"] else \
                "a non-system transaction that FAILED (the caller got the error back, the content changed nevertheless)"
            for (root, i), e in prev.items():
                if root in fam and e["flag"] == "b1":
                    upd, dele = protects(levels, root, e["members"])
                    note = via + restored + ("" if levels[root][0] else " [the constraint is registered on the child store %s only]" % child_only)
                    e2 = cur.get((root, i))
                    if e2 is None:
                        if dele:
                            out.append(("C16:system-entity-removed-in-ordinary-context", "system entity %s %s disappeared in "
                                        "%s%s" % (root, i, outcome, note), k))
                    elif e2["fields"] != e["fields"] and (upd == "all" or upd):
                        out.append(("C16:system-entity-changed-in-ordinary-context", "system entity %s %s changed in %s: "
                                    "+%s -%s%s" % (root, i, outcome, sorted(e2["fields"] - e["fields"])[:4],
                                                   sorted(e["fields"] - e2["fields"])[:4], note), k))
                    elif e2["fields"] == e["fields"] and e2["sets"] == e["sets"] and e2["index"] != e["index"] and \
                            (upd == "all" or upd or dele):
                        refused = [j for j, op in enumerate(ops) if j < len(a["results"]) and a["results"][j] != "ok"
                                   and op["kind"] in ("D", "DW", "UP")]
                        out.append(("C16:system-entity-deindexed-in-ordinary-context", "system entity %s %s is unchanged but its "
                                    "index entries differ after %s: lost %s, gained %s%s%s"
                                    % (root, i, outcome, sorted(e["index"] - e2["index"])[:4], sorted(e2["index"] - e["index"])[:4],
                                       " (op %d was refused with an error: what it had already done was not undone)" % refused[0]
                                       if refused else "", note), k))
            for (root, i), e2 in cur.items():
                if root in fam and e2["flag"] == "b1" and ((root, i) not in prev or prev[(root, i)]["flag"] != "b1"):
                    has, cs = levels[root]
                    if has or any(c in e2["members"] for c, _ in cs):
                        tried = [j for j, op in enumerate(ops) if op["kind"] == "C" and op.get("sys") and op["id"] == i
                                 and sch.root(op["store"]) == root and j < len(a["results"])]
                        what = ""
                        if tried:
                            j = tried[-1]
                            what = " (op %d: Create through %s with the system flag returned %s)" % (j, ops[j]["store"], a["results"][j])
                        note = via + restored + ("" if has else " [the constraint is registered on the child store %s only]" % child_only)
                        out.append(("C16:system-entity-created-in-ordinary-context", "system entity %s %s exists after %s%s%s"
                                    % (root, i, outcome, what, note), k))
        # (ii) the flag of an entity never changes between its creation and its deletion (any store, any context)
        created = set((sch.root(op["store"]), op["id"]) for j, op in enumerate(ops)
                      if op["kind"] == "C" and j < len(a["results"]) and a["results"][j] == "ok")
        for key, e in prev.items():
            e2 = cur.get(key)
            if e2 is not None and e2["flag"] != e["flag"] and key not in created:
                out.append(("C16:flag-changed", "the isSystem flag of %s %s changed from %s to %s without the entity being "
                            "re-created" % (key[0], key[1], e["flag"], e2["flag"]), k))
        # a create stores exactly the requested flag (also for entities created with Migrate / explicit timestamps / tags)
        if a["commit"]:
            last = {}
            for j, op in enumerate(ops):
                if j >= len(a["results"]) or a["results"][j] != "ok":
                    continue
                if op["kind"] == "C":
                    last[(sch.root(op["store"]), op["id"])] = (op["sys"], modes[j][2] if modes else "-")
                elif op["kind"] == "D":
                    last.pop((sch.root(op["store"]), op["id"]), None)
            for key, (want, deco) in last.items():
                e2 = cur.get(key)
                if e2 is not None and (e2["flag"] == "b1") != want:
                    out.append(("C16:flag-not-as-created", "%s %s was created with system flag %s%s but stores %s"
                                % (key[0], key[1], want, " and Migrate=true" if deco in "mx" else "", e2["flag"]), k))
        # a failed transaction leaves everything as it was (the refused attempt left the entity unchanged)
        if not a["commit"] and cur != prev:
            out.append(("C16:refused-attempt-changed-state", "a rolled-back transaction changed entities", k))
        if out:
            break
        prev = cur
    return out


def nontrivial(sch, txs, io):
    """a refused attempt on a system entity from an ordinary context, or an update of a system entity in a system context"""
    fam = sys_families(sch)
    prev = {}
    hit = False
    for t, a in zip(txs, io):
        tsys, _, vetoes, ops = storefamx.parse_ops(t)
        for j, op in enumerate(ops):
            if j < len(a["results"]) and op["kind"] in ("UP", "D") and sch.root(op["store"]) in fam and \
                    prev.get((sch.root(op["store"]), op["id"]), {}).get("flag") == "b1":
                hit = True
            if j < len(a["results"]) and op["kind"] == "DW" and sch.root(op["store"]) in fam and \
                    any(r == sch.root(op["store"]) and e.get("flag") == "b1" for (r, _), e in prev.items()):
                hit = True
        if swallow_tokens(a):
            hit = True
        prev = state_of(a["facts"])
    return hit


def main(argv):
    c = vlib.Check(PID, argv)
    c.assumptions = ["bbolt rollback restores the previous content (trusted; observed by the full traversal after every transaction)",
                     "entities embed boltz.BaseExtEntity and persist it with SetBaseValues (the library's convention); stores do not "
                     "declare a field named isSystem of their own",
                     "the constraint is registered on a root store (theorems (1)-(4), wf_system_b) or on a child store whose isSystem "
                     "symbol is the one granted by its parent, i.e. the flag lives in the root entity bucket (theorem (5), "
                     "wf_system_child_b); a child store keeping its own isSystem value in its extension data is not modelled",
                     "fields persisted with PersistContext.SetRequiredString always receive a non-empty value (field validation is not "
                     "part of the store machine); linked ids written by PersistContext.SetLinkedIds are outside the compared projection",
                     "a restore step replaces the whole bolt file by a snapshot taken earlier in the same history (Db.StreamToWriter); "
                     "the model counterpart is state := state after step k (Store/SystemRestore.v)",
                     "every entry point of a transaction (Db.Update, Db.Batch, a join of either inside an open transaction, a bolt "
                     "transaction the caller rolls back when the body returned an error) has the contract of Db.Update: run_tx / "
                     "run_mtx / run_xtx of the machine; the entry point is not modelled separately",
                     "REF-COUNTED link collections (wirings c16rr / c16rc / c16rk / c16rx, store_c16w7.go) are not modelled: the store "
                     "machine has plain link sets only; a ref-counted collection can reach the compared projection (results, "
                     "entities, isSystem flags) only through the result of a delete, and the link counts the harness puts on "
                     "entities after a successful create / update (tx-level link API, no MutateContext) are set-up"]
    proof_ok = c.proof_step(FILES)
    storefamx.run_family_x(
        c, "c16", 2000, 24000, compare, oracle,
        "adaptive seeded histories (2-9 transactions x 1-3 ops; 45% system contexts, system flag on ~40% of creates; create / full and "
        "field-checker update / delete / link ops through the constrained root store, its plain (idx: emp+mgr) or extended (casc: b+bx) "
        "child store and unconstrained stores, cascade deletes reaching system entities; updates carry an IsSystem flag that tries to flip "
        "the stored one). After every transaction the bolt file is traversed and every store is read back (LoadById). Compared with the "
        "extracted machine: op results, entities, isSystem flags (raw and loaded). Oracle on the implementation alone: no create-with-flag "
        "/ update / delete of a system entity succeeds in an ordinary context and committed ordinary transactions leave system entities "
        "untouched; the flag never changes while the entity lives and equals the requested one after create; refused attempts change "
        "nothing. ~40% of the generated transactions are MIXED (store_c16s.go): the operations of one Db.Update body use different "
        "context objects (the base context; ctx.GetSystemContext() / NewSystemMutateContext(ctx) / a nested Db.Update derived "
        "from it inside the body, then the base context object again on a system entity), the body ignores the refusal of an "
        "update of a system entity and commits (the whole bolt file is dumped before and after the refused operation inside "
        "the transaction: nothing may differ), entities are created / updated with Migrate=true + explicit timestamps and tags. "
        "Model counterpart Store/SystemMixed.v (per-operation context kind, swallowed refusals continue from the unchanged "
        "state). Second strengthening (store_c16w2.go): ~45% of the histories use wirings whose constraint sits on a CHILD store "
        "only (c16cp plain child + sibling child, c16cx extended child) or on root AND child (c16bo), with cascades into the "
        "family through the root's and through the child's own fk; the oracle follows Store/SystemChild.v (a child-only "
        "constraint protects the flagged entities the child store holds: update needs child data, DeleteById reaches every "
        "child store that can load the entity). ~34% of the histories contain RESTORE steps: the database content is replaced "
        "underneath the stores by the snapshot streamed after step k of the same history - RestoreSnapshot / RestoreFromReader "
        "on the same stores, a snapshot file made by Db.Snapshot, a second node whose stores were initialised on an empty "
        "database, a swapped file, a restart with freshly built stores - followed (65%) by an ordinary transaction that starts "
        "with an update / delete of a system entity present now. Model counterpart Store/SystemRestore.v (state := state after "
        "step k). Third strengthening (store_c16w3.go): ~21% of the histories use wirings whose parent store carries the "
        "constraint plus unique / set / fk indexes while its child store (c16np plain, c16nx extended) declares NOTHING but "
        "fields, and whose entity strategies persist fields with the PersistContext-level helpers SetRequiredString (root and "
        "child level), GetAndSetString, GetAndSetStringList and - decorations l / e of a mixed transaction - SetLinkedIds: the "
        "refusal latched before PersistEntity must survive every write helper and nothing may be written after it (required "
        "values are always supplied: the machine does not model field validation; links are outside the projection and only "
        "seen by the dump around a swallowed refusal). Fifth strengthening (store_c16w5.go): ~35% of the transactions (plain and "
        "mixed) name their ENTRY POINT - Db.Batch, a bolt transaction the caller manages itself around "
        "NewTxMutateContext, Db.Update / Db.Batch joined inside an open transaction - and the oracle judges the DURABLE "
        "content after every transaction none of whose operations used a system context, whatever the caller got back: no "
        "system entity of a constrained family appears, changes, disappears or loses index entries (unique / set index "
        "entries, fk back-reference sets); aimed refusals (create with the flag, update, delete of a protected entity at a "
        "random position of an ordinary body) and DeleteWhere through the root, plain child and extended child store over "
        "populations mixing system and ordinary entities (filter true or a value a system entity holds, an ordinary entity "
        "with the same value under a random id created in front of it; 78% ordinary contexts): a DeleteWhere of an ordinary "
        "context whose filter matches a protected system entity must report an error (Store/SystemDeleteWhere.v, "
        "delete_where_system_refused: at any position of the id order). Seventh strengthening (store_c16w7.go): ~22% of the histories use wirings in which the "
        "store that carries the constraint - or a store of its family - OWNS LINK COLLECTIONS, plain and REF-COUNTED "
        "(AddRefCountedLinkCollection; wiringDecl kind rclink): c16rr root store with a plain and a ref-counted collection "
        "registered before the constraint, c16rc constraint on the root and the ref-counted collection on its plain child "
        "store, c16rk constraint, plain and ref-counted collection on the plain child store only, c16rx root with "
        "cascades and an extended child; after ~50% of the successful creates / updates the harness increments link counts "
        "on the entity towards the entities of the other store (1-2 per target), so that deletes meet entities with and "
        "without links / counts: the refusal recorded by ProcessBeforeDelete must survive the link clean-up of every "
        "collection kind. Ninth strengthening (store_c16w9.go): ~9% of the generated transactions DEFER their last 1-3 operations "
        "into PRE-COMMIT ACTIONS registered through the ordinary base context (mode p) or a system context derived from it "
        "(q GetSystemContext, r NewSystemMutateContext; only operations whose outcome does not depend on the context kind) and "
        "run them with the context the library hands to the action: an operation on a system entity registered through the "
        "ordinary context is refused and fails the transaction whatever else registered an action, in either order, also "
        "under joined entry points; a failing action never commits. Non-trivial: the history updates or deletes an existing "
        "system entity of a constrained family (also by DeleteWhere), or a refusal was swallowed.",
        nontrivial=nontrivial)
    if not proof_ok:
        c.violation(PID + ":proof", "proof obligation no longer checks: %s" % json.dumps(c.proof_broken)[:600],
                    dict(broken=c.proof_broken), no_input=True)
    return c.finish()
