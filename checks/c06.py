"""C06 - a committed delete leaves no trace of the entity's id; the id can be created again and behaves
as if it had never existed."""
import json
import os

import storefam
import vlib

PID = "C06"
FILES = ["theories/Properties/C06.v", "theories/Properties/C06Links.v", "theories/Examples/C06Wirings.v", "theories/Examples/C06Examples.v",
         "theories/Examples/C06LinksExamples.v"]


# ------------------------------------------------------------------ case tokens -> operations
def tx_ops(t):
    """t = token list of one transaction (without the leading TX) -> [(kind, store, idhex)]"""
    pos = [2]

    def nxt():
        x = t[pos[0]]
        pos[0] += 1
        return x

    for _ in range(int(nxt())):
        nxt(), nxt(), nxt()
    ops = []

    def fvsv():
        for _ in range(int(nxt())):
            nxt(), nxt()
        for _ in range(int(nxt())):
            nxt()
            for _ in range(int(nxt())):
                nxt()

    for _ in range(int(nxt())):
        k = nxt()
        if k == "C":
            s, i = nxt(), nxt()
            nxt()
            fvsv()
            ops.append((k, s, i))
        elif k == "UP":
            s, i = nxt(), nxt()
            fvsv()
            c = nxt()
            if c != "-":
                for _ in range(int(c)):
                    nxt()
            ops.append((k, s, i))
        elif k == "D":
            ops.append((k, nxt(), nxt()))
        elif k in ("AL", "RL", "AL1", "RL1", "LQ"):
            s, i = nxt(), nxt()
            nxt()
            for _ in range(int(nxt())):
                nxt()
            ops.append((k, s, i))
        else:
            ops.append((k, "", ""))
    return ops


def deleted_in(sch, t, a):
    """(root, idhex) of every entity a committed transaction deleted: DeleteById that returned nil, and every
    delivered Deleted event (covers cascaded deletes)"""
    if not a["commit"]:
        return []
    out = set()
    for (k, s, i), r in zip(tx_ops(t), a["results"]):
        if k == "D" and r == "ok":
            out.add((sch.root(s), i))
    for e in a["events"]:
        p = e.split(":")
        if len(p) == 5 and p[2] == "D" and p[1] in sch.stores:
            out.add((sch.root(p[1]), p[3]))
    return sorted(out)


# ------------------------------------------------------------------ the property, on the implementation's facts
def holders_of(sch, R):
    """from the schema: (root, setfield) of every string set whose elements are ids of root store R, and
    (root, child|None, field) of every foreign-key field whose target is R"""
    sets, fks = set(), set()
    for sname in sch.order:
        sd = sch.stores[sname]
        root = sch.root(sname)
        for c in sd["cons"]:
            if c[0] == "FI":
                field, target, back = c[1], c[2], c[3]
                if root == R:                       # the back-reference set on the target holds ids of the referrer store
                    sets.add((sch.root(target), back))
                if sch.root(target) == R:
                    fks.add((root, sname if sd["parent"] else None, field))
            elif c[0] == "FC":
                if sch.root(c[2]) == R:
                    fks.add((root, sname if sd["parent"] else None, c[1]))
        for (local, other, otherf) in sd["links"]:  # the link set `local` holds ids of the other store
            if sch.root(other) == R:
                sets.add((root, local))
    return sets, fks


def no_trace(sch, facts, R, X):
    """-> (kind, description) list: where id X of root store R still occurs"""
    probs = []
    sets, fks = holders_of(sch, R)
    children = set(n for n in sch.order if sch.stores[n]["parent"])
    fkfields = {}
    for (root, child, field) in fks:
        fkfields[(root, child, field)] = True
    for f in facts:
        p = f.split(":")
        k = p[0]
        if k == "JUNK":
            probs.append(("junk", "unexpected data in the database: " + f))
        elif k == "E" and p[1] == R and p[2] == X:
            probs.append(("entity", "entity bucket still present: " + f))
        elif k in ("F", "S") and p[1] == R and p[2] == X:
            probs.append(("entity", "entity data still present: " + f))
        elif k in ("C", "CF") and p[1] == R and p[2] == X:
            probs.append(("child", "child-store data still present: " + f))
        elif k == "U" and p[1] == R and p[4] == X:
            probs.append(("unique", "unique index entry still points to it: " + f))
        elif k == "X" and p[1] == R and p[4] == X:
            probs.append(("setidx", "set index bucket still lists it: " + f))
        if k == "S" and (p[1], p[3]) in sets and p[4] == X:
            probs.append(("refset", "back-reference / link set still lists it: " + f))
        if k == "F" and (p[1], None, p[3]) in fkfields and p[4] == "s" + X:
            probs.append(("fkvalue", "foreign key field still references it: " + f))
        if k == "CF" and p[3] in children and (p[1], p[3], p[4]) in fkfields and p[5] == "s" + X:
            probs.append(("fkvalue", "foreign key field still references it: " + f))
    return probs


def schema_names(sch):
    names = {"stores", "root", "id", "isSystem", "tags", "createdAt", "updatedAt", "indexes"}
    for s in sch.order:
        sd = sch.stores[s]
        names.add(s)
        names.update(f for f, _ in sd["fields"])
        names.update(sd["sets"])
        for c in sd["cons"]:
            names.update(x for x in c[1:] if isinstance(x, str))
        for l in sd["links"]:
            names.update(l)
    return names


def hexname(s):
    return "".join("%02x" % b for b in s.encode())


def vd_tokens(a):
    out = {}
    for t in a["other"]:
        if t.startswith("VD:"):
            p = t.split(":")
            out[(p[1], p[2])] = p[3]
    return out


def occurs_anywhere(facts, X):
    for f in facts:
        for comp in f.split(":")[1:]:
            if comp == X or comp == "s" + X:
                return True
    return False


def oracle(sch, txs, io):
    out = []
    names_hex = None
    for k, (t, a) in enumerate(zip(txs, io)):
        dels = deleted_in(sch, t, a)
        if not dels:
            continue
        facts = a["facts"]
        present = set(f for f in facts if f.startswith("E:"))
        vd = vd_tokens(a)
        for (R, X) in dels:
            if "E:%s:%s" % (R, X) in present and any(kk == "C" and sch.root(s) == R and i == X for (kk, s, i) in tx_ops(t)):
                continue      # deleted and created again inside the same transaction: the facts describe the new entity
            probs = no_trace(sch, facts, R, X)
            if probs:
                kinds = sorted(set(p[0] for p in probs))
                nops = len(tx_ops(t))
                where = "" if nops <= 1 else (" (transaction %d of the history: the delete is operation(s) %s of %d in it%s)" % (
                    k, ",".join(str(j) for j, (kk, s, i) in enumerate(tx_ops(t)) if kk == "D"), nops,
                    "" if any(kk == "D" and sch.root(s) == R and i == X for (kk, s, i) in tx_ops(t)) else "; this entity went through a cascade"))
                single = [j for j in range(k + 1) if any(kk in ("AL1", "RL1") for (kk, s, i) in tx_ops(txs[j]))]
                if single and "refset" in kinds:
                    where += (" (the history adds / removes links one by one through LinkCollection.AddLink / RemoveLink, last in transaction(s) %s)"
                              % ",".join(str(j) for j in single[-3:]))
                out.append(("C06:trace-" + kinds[0],
                            "after the committed delete of %s %s (hex id) its id still occurs: %s%s%s" % (
                                R, X, "; ".join(p[1] for p in probs[:4]),
                                " [boltz.ValidateDeleted: %s]" % vd.get((R, X), "n/a"), where), k))
                break
            if vd.get((R, X)) == "found":
                if names_hex is None:
                    names_hex = set(hexname(n) for n in schema_names(sch))
                if X not in names_hex and not occurs_anywhere(facts, X):
                    out.append(("C06:validate-deleted", "boltz.ValidateDeleted still finds the id of the deleted %s %s in the bolt file although "
                                "no entity, index, set or field of the projection mentions it" % (R, X), k))
                    break
        if out:
            break
    return out


def link_bools(a):
    """LB:<op index>:<b>,<b>.. - what the single-link operations of the transaction observed (AddLink / RemoveLink: the
    returned bool of every call that returned nil; LQ: the membership probes made inside the transaction)"""
    return sorted(t for t in a["other"] if t.startswith("LB:"))


def compare(a, b):
    if storefam.proj_results(a) != storefam.proj_results(b):
        return "results impl %s vs model %s" % (storefam.proj_results(a), storefam.proj_results(b))
    if link_bools(a) != link_bools(b):
        return ("bools observed by the single-link operations (LB:<operation>:<bools>; AL1 = AddLink must report 'was not linked', RL1 = "
                "RemoveLink 'was linked', LQ = IsLinked / IsEntityRelated probes inside the transaction): impl %s vs model %s" % (
                    link_bools(a), link_bools(b)))
    if a["facts"] != b["facts"]:
        return "state facts differ: only impl %s ; only model %s" % (
            sorted(set(a["facts"]) - set(b["facts"]))[:6], sorted(set(b["facts"]) - set(a["facts"]))[:6])
    return None


def block_delete_refused(sch, txs, io, bend):
    """the block [bstart, bend) of a never-existed run ends with the transaction `D store X`; True when that transaction did
    not commit although the entity exists (it is still there afterwards)"""
    a = io[bend - 1]
    if a["commit"]:
        return False
    ops = tx_ops(txs[bend - 1])
    return any(k == "D" and ("E:%s:%s" % (sch.root(s), i)) in a["facts"] for (k, s, i) in ops)


def never_compare(io, never_line):
    """the suffix (re-create X and continue) must be observed identically on the database where X never existed"""
    if never_line.strip() in ("", "-"):
        return None
    bstart, bend, rest = never_line.split(" ", 2)
    bstart, bend = int(bstart), int(bend)
    other = storefam.parse_obs(rest)
    # premise of the comparison: the create..delete block really ended with a committed delete (a delete refused
    # e.g. because the entity references itself under a restrict wiring leaves the id in place - then the suffix
    # legitimately differs from the run where the id never existed)
    if bend - 1 >= len(io) or bend < 1 or not io[bend - 1]["commit"] or any(r != "ok" for r in io[bend - 1]["results"]):
        return None
    mine = io[bend:]
    if len(other) != len(mine):
        return bend, "the two runs have a different number of transactions (%d vs %d)" % (len(mine), len(other))
    for j, (a, b) in enumerate(zip(mine, other)):
        if storefam.proj_results(a) != storefam.proj_results(b):
            return bend + j, "results after create..delete: %s ; on the database where the id never existed: %s" % (
                storefam.proj_results(a), storefam.proj_results(b))
        if a["facts"] != b["facts"]:
            return bend + j, "facts differ from the database where the id never existed: only after create..delete %s ; only never-existed %s" % (
                sorted(set(a["facts"]) - set(b["facts"]))[:6], sorted(set(b["facts"]) - set(a["facts"]))[:6])
        if a["events"] != b["events"]:
            return bend + j, "delivered events differ from the database where the id never existed: %s vs %s" % (a["events"], b["events"])
    return None


# ------------------------------------------------------------------ ref-counted link collections (no model)
# ids of store p are held by the sets ps (root-level collection), cps and xps (collections whose other side is a child
# store: pc.cqs <-> q.cps, qx.xps <-> p.xqs of the RCC database) of q entities, and the other way round
RC_HOLDS = {"p": ("q", ("ps", "cps", "xps")), "q": ("p", ("qs", "cqs", "xqs"))}


def rc_oracle(case, obs):
    out = []
    segs = [s.strip() for s in obs.split(" | ") if s.strip()]
    for k, seg in enumerate(segs):
        toks = seg.split()
        if "COMMIT" not in toks:
            continue
        st = toks.index("ST")
        facts = toks[st + 1:]
        for t in toks[:st]:
            if not t.startswith("VD:"):
                continue
            _, R, X, res = t.split(":")
            if "E:%s:%s" % (R, X) in facts:
                continue     # created again in the same transaction
            other, fields = RC_HOLDS[R]
            probs = []
            for f in facts:
                p = f.split(":")
                if p[0] == "JUNK":
                    probs.append(f)
                elif p[0] in ("RC", "C") and p[1] == R and p[2] == X:
                    probs.append(f)
                elif p[0] == "RC" and p[1] == other and p[3] in fields and p[4] == X:
                    probs.append(f)
                elif p[0] == "U" and R in p[1:-2] and p[-1] == X:
                    probs.append(f)
            if probs:
                out.append(("C06:trace-rclink", "ref-counted links: after the committed delete of %s %s its id still occurs: %s [ValidateDeleted: %s]" % (
                    R, X, "; ".join(probs[:4]), res), k))
            elif res == "found" and not occurs_anywhere(facts, X):
                out.append(("C06:validate-deleted", "ref-counted links: boltz.ValidateDeleted still finds the id of the deleted %s %s" % (R, X), k))
        if out:
            break
    return out


# ------------------------------------------------------------------ the run
def run(c):
    c.cov["trusted_base"] = [
        "Coq 8.16.1 kernel (coqc; coqchk in the thorough tier); vm_compute in Examples only; no axioms",
        "hand-written store machine coq/theories/Store/Model.v (boltz CRUD, constraints, delete cascade, link cleanup, tx glue)",
        "bbolt as a transactional key/bucket store whose rollback restores the previous content",
        "extraction (ExtrOcamlBasic only) + extraction/store_driver.ml + drv_common.ml",
        "Go harness store.go / store_gen.go / store_c06.go / store_c06_child.go / store_c06_links.go / store_c06_names.go / store_c06_pfx.go (schema interpreter, history generator, fact projection - "
        "string sets inside a child-store bucket are projected to the same S: facts as the model's root-level sets, fields declared with a path prefix are read from their nested "
        "bucket and projected as ordinary field facts -, ValidateDeleted call) "
        "and lib/storefam.py / checks/c06.py",
        "ref-counted link collections are NOT in the Coq machine: covered by the harness stream + oracle only",
    ]
    model = vlib.build_model("Store")
    harness, err = vlib.build_harness()
    if harness is None:
        c.violation(PID + ":harness-build", "harness does not build against the repository: " + err[-800:],
                    dict(correspondence="harness build", log=err[-3000:]), no_input=True)
        return
    n = 12000 if c.thorough else 500
    args = [harness, "storec06", "--seed", str(c.seed), "--tier", c.tier, "--out", c.work, "--tmp", c.work]
    gen = dict(command="storec06", seed=c.seed, tier=c.tier)
    if c.replay:
        rp = json.load(open(c.replay))
        rin = os.path.join(c.work, "replay_in.txt")
        with open(rin, "w") as f:
            f.write(rp["case"] + "\n")
        if rp.get("rc"):
            args += ["--n", "0", "--rc", "0", "--rccorpus", rin]
        else:
            args += ["--n", "0", "--rc", "0", "--corpus", rin]
    else:
        args += ["--n", str(n)]
        corpus = os.path.join(vlib.VERIF, "corpus", "store", "c06.txt")
        if os.path.exists(corpus):
            args += ["--corpus", corpus]
        rccorpus = os.path.join(vlib.VERIF, "corpus", "store", "c06_rc.txt")
        if os.path.exists(rccorpus):
            args += ["--rccorpus", rccorpus]
    rc, out = vlib.run(args, timeout=3000)
    if rc != 0:
        c.violation(PID + ":harness-run", "harness failed rc=%s: %s" % (rc, out[-800:]),
                    dict(correspondence="harness run", log=out[-3000:]), no_input=True)
        return
    cases_path = os.path.join(c.work, "cases.txt")
    cases = vlib.read_lines(cases_path)
    impl = vlib.read_lines(os.path.join(c.work, "impl.txt"))
    never = vlib.read_lines(os.path.join(c.work, "never.txt"))
    modl = vlib.run_model(model, "store", cases_path, os.path.join(c.work, "model.txt"))
    assert len(cases) == len(impl) == len(modl) == len(never), (len(cases), len(impl), len(modl), len(never))

    distinct = set()
    ntx = ndel = nnever = nnever_skipped = 0
    disagreements = []
    for idx, (case, i, m, nv) in enumerate(zip(cases, impl, modl, never)):
        if not case.strip():
            continue
        sch, txs = storefam.split_case(case)
        io, mo = storefam.parse_obs(i), storefam.parse_obs(m)
        ntx += len(io)
        distinct.add(case)
        replay_case = case if nv.strip() in ("", "-") else "NEVER %s %s %s" % (nv.split(" ", 2)[0], nv.split(" ", 2)[1], case)
        for t, a in zip(txs, io):
            ndel += len(deleted_in(sch, t, a))
        reported = False
        for key, desc, k in oracle(sch, txs, io):
            c.violation(key, desc, dict(case=replay_case, impl=i, model=m, tx=k, gen=dict(gen, index=idx)))
            reported = True
        if not reported and nv.strip() not in ("", "-") and block_delete_refused(sch, txs, io, int(nv.split(" ", 2)[1])):
            # the delete that ends the block create..delete was refused (e.g. the entity had been made to reference
            # itself through a restrict constraint): the id was not deleted, "as if it had never existed" does not apply
            nnever_skipped += 1
        elif not reported and nv.strip() not in ("", "-"):
            nnever += 1
            d = never_compare(io, nv)
            if d:
                c.violation("C06:recreate-not-fresh", "re-creating a deleted id does not behave as if it had never existed: tx %d: %s" % d,
                            dict(case=replay_case, impl=i, never=nv, tx=d[0], gen=dict(gen, index=idx)))
                reported = True
        if reported:
            continue
        for k, (a, b) in enumerate(zip(io, mo)):
            d = compare(a, b)
            if d:
                disagreements.append((replay_case, i, m, k, d, idx))
                break
        if c.replay:
            for k, (a, b) in enumerate(zip(io, mo)):
                vlib.log("REPLAY tx %d\n  impl : %s %s %s %s %s\n  model: %s %s %s" % (
                    k, a["results"], "COMMIT" if a["commit"] else "ROLLBACK", a["events"], [t for t in a["other"] if t.startswith("VD:")], link_bools(a),
                    b["results"], "COMMIT" if b["commit"] else "ROLLBACK", link_bools(b)))
                ia, ib = set(a["facts"]), set(b["facts"])
                if ia != ib:
                    vlib.log("  facts only impl : %s\n  facts only model: %s" % (sorted(ia - ib), sorted(ib - ia)))
            if nv.strip() not in ("", "-"):
                vlib.log("REPLAY never-existed comparison: %s" % (never_compare(io, nv),))
    # ref-counted link collections
    rcc = vlib.read_lines(os.path.join(c.work, "rc_cases.txt"))
    rci = vlib.read_lines(os.path.join(c.work, "rc_impl.txt"))
    nrcdel = 0
    for idx, (case, obs) in enumerate(zip(rcc, rci)):
        nrcdel += obs.count(" VD:")
        for key, desc, k in rc_oracle(case, obs):
            c.violation(key, desc, dict(case=case, rc=True, impl=obs, tx=k, gen=dict(gen, rc_index=idx)))
        if c.replay:
            vlib.log("REPLAY rc: %s\n  %s" % (case, obs))
    c.cov["evaluations"] = len(cases) + len(rcc)
    c.cov["transactions"] = ntx
    c.cov["committed_deletes_checked"] = ndel
    c.cov["never_existed_comparisons"] = nnever
    c.cov["never_existed_skipped_delete_refused"] = nnever_skipped
    c.cov["rc_histories"] = len(rcc)
    c.cov["rc_committed_deletes_checked"] = nrcdel
    c.cov["distinct_nontrivial"] = len(distinct)
    c.cov["disagreements_checked"] = len(disagreements)
    c.cov["rule"] = (
        "seeded histories over the wirings idx / fkc / casc (unique, nullable unique, set index, nullable self fk index, fk index, cascade fk "
        "index chain, fk constraints restrict + cascade, system constraint, plain and extended child stores with their own unique index, "
        "link collection): populate with valid references, random transactions of the shared generator (collisions, failures, vetoes), churn "
        "on one entity X (patches, re-parenting of its referrers, link churn), delete X in a system context, re-create X, 1-4 more "
        "transactions on X (update, links from both sides, referrers pointing at it, delete, create). BURST histories (n/2 more in the quick, n/4 in the thorough tier; wirings idx / "
        "fkc / casc / cl, generated against the live database): the delete of X sits inside a multi-operation transaction that first "
        "creates / re-points / fully updates / deletes 3-6 referrers of X whose ids are neighbours in the entities bucket (optionally a second "
        "cascade level below one of them, link churn on a referrer or on X, 3-6 neighbouring set values, a second parent with interleaved "
        "referrers deleted by the same transaction), or the referrers are committed (all / a prefix / every other one) and the delete "
        "transaction starts with another write to their store; restrict edges release the referrers in that transaction first; link-only "
        "bursts link X to 3-5 neighbours written by the same transaction. After EVERY transaction the bolt "
        "file is traversed; op results and ALL facts are compared with the extracted machine; for every entity deleted by a committed "
        "transaction (DeleteById results and Deleted events, so cascaded deletes too) the no-trace oracle is evaluated on the "
        "implementation's facts and boltz.ValidateDeleted is called; a third of the histories use a reserved id and are executed a second "
        "time without the block create..delete: the suffix must be observed identically. Plus a stream over ref-counted link collections "
        "(oracle only; 40 % of its histories contain a burst: hub linked to 3-5 neighbours and deleted in the same transaction). "
        "CHILD-LEVEL histories (n/2 more in the quick, n/6 in the thorough tier; wirings C06cp / C06cx / C06cm, generated last so that the older streams "
        "are unchanged): the per-level delete work lives on child stores - link collections whose local side is a plain or an extended child store "
        "(child <-> root and child <-> child), set index / nullable unique index / fk index / fk constraints declared on a child store as referrer "
        "(restrict and cascade) and with a child store as target (the back-reference set then lives inside the child bucket), two plain child stores "
        "and a plain + an extended child store under one parent. Half of them put a subject X of a child store into every place of both levels "
        "(links from X's side and from the other side, referrers, X's own fk fields) and delete it through the child store, through the parent store or "
        "by the cascade that reaches it, alone or inside the transaction that wrote the mentions, then re-create the id through the parent / the same / "
        "another child store; a quarter are bursts and a quarter the tail of the main stream (incl. never-existed runs) on these wirings. "
        "Plus RCC histories: ref-counted collections declared on a plain child store (pc.cqs <-> q.cps) and on an extended child store "
        "(qx.xps <-> p.xqs), hub written and deleted through child or parent store. "
        "LINK-SEQUENCE histories (n/2 more in the quick, n/8 in the thorough tier; wirings idx / cl / C06cp / C06cx / C06cm, generated last): the single-link, "
        "change-reporting API LinkCollection.AddLink / RemoveLink (operations AL1 / RL1; database as AddLinks / RemoveLinks with one target, returned bool = "
        "'was not / was a member of the local link set when the call started') and membership probes INSIDE the transaction (LQ: IsLinked, "
        "LinkedSetSymbol.IsLinked, IsEntityRelated, GetLinks on link sets; IsEntityRelated on back-reference sets and string lists written by the same "
        "transaction): one pair is linked / unlinked / re-linked by ONE transaction (patterns AR ARA RA AA RR ARR ARAR RAR AAR RAA A R, each step from either side, "
        "through AL1 / RL1 or AL / RL, on committed or fresh links, entities committed or created by that transaction, peers with ids that are neighbours or "
        "prefixes of one another), then either end is deleted (same transaction or later, through child or parent store), the id comes back, is probed and "
        "linked again (must report a new link), the other end goes; the bools are compared with the machine (Store/LinkOne.v) next to results and facts. "
        "Plus RC sequence histories: one pair of a ref-counted collection counted up / down / set several times inside one transaction, then deletes of either end. "
        "SAME-NAME histories (3n/10 more in the quick, n/10 in the thorough tier; wirings C06sa / C06sb / C06sc, generated last): stores of ONE family - two or three sibling "
        "child stores, a child store and its parent - and stores of different families declare fk constraints (cascade and restrict) / fk indexes (cascade and restrict) on "
        "fields of the SAME NAME that point at one target store (a child store reports its parent's entity type, so '<entity type>.<field>' is the same for all of them; the "
        "schema, the machine and the facts identify a field by store and name); unique indexes on 'name' and set indexes on 'marks' in several families. 2 of 5 histories put "
        "referrers of SEVERAL equally named edges on one target X at once (1-3 neighbouring referrers per referrer store, all edges or a subset), release the restrict referrers "
        "edge by edge (so that the referrers of exactly one store may be left: the delete must be refused) and delete X in the transaction that wrote them or later, re-create "
        "the id, reference it from every store again, delete again; the others are child-level subject histories, bursts over one edge and the tail of the main stream on these wirings. "
        "PATH-PREFIX histories (3n/10 more in the quick, n/10 in the thorough tier; wirings C06pa / C06pb / C06pc, generated last): foreign-key fields live in NESTED buckets of the "
        "entity (symbols declared with a one- or two-element path prefix, AddFkSymbolWithKey(.., prefix...); the entity strategy persists the value at <entity>/<prefix...>/<key>, "
        "for a child store inside the child store's bucket) and carry fk constraints (cascade and restrict, nullable and not, a self reference, a cascade chain dept -> emp -> proj "
        "over two nested fields), a restrict fk index, a cascading fk index and a nullable unique index, next to flat fields of the same kinds on the same target; C06pb / C06pc are "
        "the same-name schemas with one field of every group nested (at parent level, inside a child store, under equal bucket names at both levels). Generators rotate: bursts over "
        "one edge, same-name groups, child-level subjects, tail of the main stream (incl. never-existed runs). The nested values are projected as ordinary field facts, so the "
        "no-trace oracle sees a referrer that keeps the deleted id in a nested fk field. "
        "Non-trivial: every history has at least 5 transactions; distinct by case text.")
    ks = sorted(set((0, len(cases) // 2, max(0, len(cases) - 1))))
    c.cov["samples"] = [dict(case=cases[k][:1500], impl=impl[k][:1500], model=modl[k][:1500]) for k in ks if k < len(cases)]
    try:
        c.cov["input_distribution"] = json.load(open(os.path.join(c.work, "stats.json")))
        for key in ("burst_histories", "burst_delete_tx_committed", "burst_deleted_entities", "child_histories", "child_delete_tx_committed",
                    "child_deleted_entities", "rc_child_histories", "linkseq_histories", "linkseq_bool_observations", "linkseq_delete_tx_committed",
                    "linkseq_deleted_entities", "rc_seq_histories", "samename_histories", "samename_group_histories", "samename_delete_tx_committed",
                    "samename_deleted_entities", "samename_delete_with_restrict_referrers_left", "pfx_histories", "pfx_deleted_entities",
                    "pfx_nested_field_facts", "pfx_burst_histories", "pfx_group_histories", "pfx_child_subject_histories"):
            c.cov[key] = c.cov["input_distribution"].get(key, 0)
    except Exception:
        pass
    if disagreements and not c.violations:
        case, i, m, k, d, idx = disagreements[0]
        c.violation(PID + ":correspondence",
                    "store machine (Store/Model.v) and boltz differ on %d histories (results + all facts); first: tx %d: %s" % (len(disagreements), k, d),
                    dict(correspondence="Store/Model.v vs boltz (C06 projection: results + all facts)", case=case, impl=i, model=m, tx=k,
                         difference=d, gen=dict(gen, index=idx)),
                    no_input=True)


def main(argv):
    c = vlib.Check(PID, argv)
    c.assumptions = ["bbolt rollback restores the previous content (trusted; observed by the full traversal after every transaction)",
                     "schemas satisfy wf_notrace_b (checked by computation for the harness wirings idx, fkc, casc, cl and the child-level "
                     "wirings C06cp, C06cx, C06cm and the same-name wirings C06sa, C06sb, C06sc and the path-prefix wirings C06pa, C06pb, C06pc in Examples/C06Wirings.v)",
                     "where a field is stored inside the entity bucket (path prefix of its symbol) is not part of the model: the harness projects nested fields as "
                     "ordinary field facts (store_c06_pfx.go) and treats every other nested bucket as JUNK"]
    files = [f for f in FILES if os.path.exists(os.path.join(vlib.COQ, f))]
    proof_ok = c.proof_step(files) and len(files) == len(FILES)
    run(c)
    if not proof_ok:
        c.violation(PID + ":proof", "proof obligation no longer checks: %s" % json.dumps(getattr(c, "proof_broken", "files missing"))[:600],
                    dict(broken=getattr(c, "proof_broken", "files missing")), no_input=True)
    return c.finish()
