"""C04 - foreign keys: targets exist, back-references exact, delete restricts or cascades.

Store-family check.  The histories run in child processes (harness sub-command store-iso): a delete
over a hostile id or a reference cycle can make the real code recurse until the Go runtime aborts,
which must not end the run; such a case is observed as  CRASH:<kind>."""
import json
import os

import storefam
import vlib

PID = "C04"
FILES = ["theories/Properties/C04.v", "theories/Examples/C04Examples.v", "theories/Examples/C04Wirings.v",
         "theories/Examples/C04Diamonds.v"]

# (root, field) of fk fields / (root, set) of back-reference sets / (child store, field) of fk fields that live in a child
# bucket, of the current schema
_cur = {"fk": set(), "back": set(), "cfk": set()}


def own_child_field(sd, field):
    """the field is declared by the child store itself (it lives in the child bucket: CF facts)"""
    return bool(sd["parent"]) and any(fn == field for fn, _ in sd["fields"])


def fk_names(sch):
    fk, back, cfk = set(), set(), set()
    for sname in sch.order:
        sd = sch.stores[sname]
        for c in sd["cons"]:
            if c[0] in ("FI", "FC"):
                if own_child_field(sd, c[1]):
                    cfk.add((sname, c[1]))
                else:
                    fk.add((sch.root(sname), c[1]))
                if c[0] == "FI":
                    back.add((sch.root(c[2]), c[3]))
    return fk, back, cfk


def c04_fk_oracle(sch, facts):
    """targets exist, back-reference sets are exact - for edges between root stores AND edges that start or end at a
    child store: the referrers of an edge declared on a child store over a field of its own are the entities with data
    in that child store (the value lives in the child bucket); the target of an edge that ends at a child store must
    have data in THAT store (IsEntityPresent of the linked store), a back-reference set of such a target is projected
    by the harness to the same S:<root>:<id>:<set> facts"""
    probs = []
    ents, fvals, cvals, setm, child = {}, {}, {}, {}, set()
    for f in facts:
        p = f.split(":")
        if p[0] == "E":
            ents.setdefault(p[1], set()).add(p[2])
        elif p[0] == "F":
            fvals[(p[1], p[2], p[3])] = p[4]
        elif p[0] == "CF":
            cvals[(p[1], p[2], p[3], p[4])] = p[5]
        elif p[0] == "S":
            setm.setdefault((p[1], p[2], p[3]), set()).add(p[4])
        elif p[0] == "C":
            child.add((p[1], p[2], p[3]))
    for sname in sch.order:
        sd = sch.stores[sname]
        root = sch.root(sname)
        for c in sd["cons"]:
            if c[0] not in ("FI", "FC"):
                continue
            field, target = c[1], c[2]
            troot = sch.root(target)
            tchild = sch.stores[target]["parent"] is not None
            own = own_child_field(sd, field)

            def in_target(t):
                return t in ents.get(troot, ()) and (not tchild or (troot, t, target) in child)

            refs = {}
            for i in ents.get(root, ()):
                if own:
                    if (root, i, sname) not in child:
                        continue
                    v = cvals.get((root, i, sname, field), "absent")
                else:
                    v = fvals.get((root, i, field), "absent")
                if v.startswith("s") and v != "s-":
                    t = v[1:]
                    if not in_target(t):
                        probs.append("fk %s.%s: entity %s references missing %s %s" % (sname, field, i, target, t))
                    refs.setdefault(t, set()).add(i)
            if c[0] == "FI":
                back = c[3]
                for t in ents.get(troot, ()):
                    have = setm.get((troot, t, back), set())
                    want = refs.get(t, set())
                    if have != want:
                        probs.append("fk %s.%s: back-references %s.%s of %s are %s, referrers are %s" % (
                            sname, field, target, back, t, sorted(have), sorted(want)))
    return probs


def proj(facts):
    """the C04 projection of the facts: entities, fk field values, back-reference sets"""
    out = []
    for f in facts:
        p = f.split(":")
        if p[0] == "E" or p[0] == "C":
            out.append(f)
        elif p[0] == "F" and (p[1], p[3]) in _cur["fk"]:
            out.append(f)
        elif p[0] == "CF" and (p[3], p[4]) in _cur["cfk"]:
            out.append(f)
        elif p[0] == "S" and (p[1], p[3]) in _cur["back"]:
            out.append(f)
        elif p[0] == "JUNK":
            out.append(f)
    return tuple(out)


def norm_results(tx):
    # the machine's "cascade recursion deeper than the fuel" is the repaired code's cycle error
    rs = tuple("err" if r == "FUEL" else r for r in tx["results"])
    return rs + (("COMMIT",) if tx["commit"] else ("ROLLBACK",))


def compare(a, b):
    ra, rb = norm_results(a), norm_results(b)
    if ra != rb:
        return "results impl %s vs model %s" % (ra, rb)
    fa, fb = proj(a["facts"]), proj(b["facts"])
    if fa != fb:
        return "entity / fk field / back-reference facts differ: only impl %s ; only model %s" % (
            sorted(set(fa) - set(fb))[:6], sorted(set(fb) - set(fa))[:6])
    return None


def tx_op_spans(toks):
    """(index of the op-count token, [(kind, store, idhex, start, end)]) of a transaction token list (after 'TX')"""
    nv = int(toks[2])
    p = 3 + 3 * nv
    cnt = p
    no = int(toks[p])
    p += 1
    ops = []
    for _ in range(no):
        k = toks[p]
        start = p
        if k == "FAIL":
            ops.append((k, "", "", start, p + 1))
            p += 1
            continue
        store, idh = toks[p + 1], toks[p + 2]
        if k == "D":
            p += 3
        elif k in ("AL", "RL"):
            p += 5 + int(toks[p + 4])
        elif k == "FAILT":
            p += 3
        else:
            p += 4 if k == "C" else 3
            nf = int(toks[p])
            p += 1 + 2 * nf
            ns = int(toks[p])
            p += 1
            for _ in range(ns):
                p += 2 + int(toks[p + 1])
            if k == "UP":
                p += 1 if toks[p] == "-" else 1 + int(toks[p])
        ops.append((k, store, idh, start, p))
    return cnt, ops


def tx_ops(toks):
    """[(kind, store, idhex)] of a transaction token list (after 'TX')"""
    return [o[:3] for o in tx_op_spans(toks)[1]]


def tx_without_op(text, n):
    """the transaction text without its n-th operation (None when it is the only one)"""
    toks = text.split()
    cnt, ops = tx_op_spans(toks)
    if len(ops) <= 1 or n >= len(ops):
        return None
    _, _, _, a, b = ops[n]
    out = toks[:a] + toks[b:]
    out[cnt] = str(len(ops) - 1)
    return " ".join(out)


def ents(facts):
    return set(f for f in facts if f.startswith("E:"))


def oracle(sch, txs, io, mo):
    _cur["fk"], _cur["back"], _cur["cfk"] = fk_names(sch)
    out = []
    prev_i, prev_m = (), ()
    for k, a in enumerate(io):
        b = mo[k] if k < len(mo) else None
        ops = tx_ops(txs[k]) if k < len(txs) else []
        crash = [r for r in a["results"] if r.startswith("CRASH")]
        if crash:
            cyc = b is not None and "FUEL" in b["results"]
            key = "C04:cascade-cycle" if cyc else "C04:cascade-crash"
            what = ("a delete over a reference cycle under CascadeDelete never terminates (%s)" if cyc else
                    "a delete made the process die (%s) although the reference graph has no cycle") % crash[0]
            out.append((key, what + "; transaction ops %s" % [(o[0], o[1], unhex(o[2])) for o in ops], k))
            break
        same_pre = b is not None and proj(prev_i) == proj(prev_m)
        if a["commit"]:
            probs = c04_fk_oracle(sch, a["facts"])
            if probs:
                kind = "backrefs" if "back-references" in probs[0] else "target-missing"
                out.append(("C04:fk-" + kind, "after a committed transaction: " + "; ".join(probs[:3]), k))
                break
            if same_pre and b["commit"] and norm_results(a) == norm_results(b) and any(o[0] == "D" for o in ops):
                ri, rm = ents(prev_i) - ents(a["facts"]), ents(prev_m) - ents(b["facts"])
                if ri != rm:
                    extra, missing = sorted(ri - rm), sorted(rm - ri)
                    key = "C04:cascade-extra-delete" if extra else "C04:cascade-missing-delete"
                    out.append((key, "a successful delete removed %s; exactly the transitive referrers are %s (extra %s, missing %s); ops %s" % (
                        sorted(ri), sorted(rm), extra, missing, [(o[0], o[1], unhex(o[2])) for o in ops]), k))
                    break
        else:
            if proj(a["facts"]) != proj(prev_i):
                fa, fp = set(proj(a["facts"])), set(proj(prev_i))
                out.append(("C04:rejected-op-changed-state", "a rolled-back transaction changed entities, fk fields or back-references: +%s -%s" % (
                    sorted(fa - fp)[:4], sorted(fp - fa)[:4]), k))
                break
            if same_pre and b is not None and b["results"] and b["results"][-1] == "FUEL" and a["results"] and a["results"][-1] == "err" \
                    and len(a["results"]) == len(b["results"]):
                # a cascade delete over a reference cycle: the repaired code refuses it with an error instead of
                # deleting the cycle (the property asks for the cascade); recorded as a known finding
                n = len(a["results"]) - 1
                if n < len(ops) and ops[n][0] == "D":
                    out.append(("C04:cascade-cycle-refused", "delete of %s %r, which sits on a reference cycle under CascadeDelete, is refused with an "
                                "error instead of deleting the referrers" % (ops[n][1], unhex(ops[n][2])), k))
            if same_pre:
                # a delete refused with an unclassified error where the property demands success or a reference-exists refusal
                ra, rb = a["results"], [("err" if r == "FUEL" else r) for r in b["results"]]
                n = len(ra) - 1
                if n >= 0 and n < len(rb) and n < len(ops) and ra[:n] == rb[:n] and ops[n][0] == "D" and ra[n] in ("err", "notfound") and rb[n] in ("ok", "refexists"):
                    # "not found" is the answer for an entity that does not exist; the deleted entity exists here (same state
                    # before the transaction, same results of the earlier operations, the machine deletes / refuses it): the
                    # error comes from inside the delete - e.g. a cascade that meets an entity a nested cascade removed already
                    how = "failed with an unclassified error" if ra[n] == "err" else "of an existing entity failed with a not-found error"
                    out.append(("C04:delete-spurious-error", "delete of %s %r %s; the property demands %s" % (
                        ops[n][1], unhex(ops[n][2]), how, "success (cascade to exactly the transitive referrers)" if rb[n] == "ok" else "a reference-exists refusal"), k))
                    break
        prev_i = a["facts"]
        if b is not None:
            prev_m = b["facts"]
    return out


def unhex(h):
    if h == "-":
        return ""
    try:
        return bytes.fromhex(h).decode("latin1")
    except ValueError:
        return h


def run_one(case, work, tmp):
    """run one case line on both sides -> (case text as printed by the harness, impl obs, model obs) or None"""
    harness = os.path.join(vlib.BUILD, "storageharness")
    model = os.path.join(vlib.BUILD, "model_store")
    d = os.path.join(work, "shrink")
    os.makedirs(d, exist_ok=True)
    with open(os.path.join(d, "in.txt"), "w") as f:
        f.write(case + "\n")
    rc, _ = vlib.run([harness, "store-iso", "--out", d, "--tmp", tmp or d, "--n", "0", "--corpus", os.path.join(d, "in.txt"),
                      "--case-timeout", "8"], timeout=120)
    if rc != 0:
        return None
    try:
        m = vlib.run_model(model, "store", os.path.join(d, "cases.txt"), os.path.join(d, "model.txt"), timeout=60)
    except RuntimeError:
        return None
    cs, im = vlib.read_lines(os.path.join(d, "cases.txt")), vlib.read_lines(os.path.join(d, "impl.txt"))
    if not cs or not im or not m:
        return None
    return cs[0], im[0], m[0]


def shrink_replays(c, tmp, budget_s=20):
    """greedy minimisation of the replays of direct violations: drop transactions, then single operations, while the same key reproduces"""
    import time
    t0 = time.time()
    seen = set()
    for key, path, no_input in list(c.violations):
        if no_input or key in seen or time.time() - t0 > budget_s:
            continue
        seen.add(key)
        full = os.path.join(vlib.VERIF, path)
        try:
            rp = json.load(open(full))
        except Exception:
            continue
        if "case" not in rp or rp.get("gen", {}).get("index", 0) < 0:
            continue
        parts = rp["case"].split(" TX ")
        head, txs = parts[0], parts[1:]
        if len(txs) <= 1 and len(tx_ops(txs[0].split())) <= 1:
            continue

        def reproduces(cand):
            r = run_one(head + "".join(" TX " + t for t in cand), c.work, tmp)
            if r is None:
                return None
            case, i, m = r
            sch, ctx = storefam.split_case(case)
            got = oracle(sch, ctx, storefam.parse_obs(i), storefam.parse_obs(m))
            hit = [tk for k, _, tk in got if k == key]
            return (case, i, m, hit[0]) if hit else None

        best = None
        n0 = len(txs)
        k = len(txs) - 1
        while k >= 0 and len(txs) > 1 and time.time() - t0 <= budget_s:
            cand = txs[:k] + txs[k + 1:]
            r = reproduces(cand) if cand else None
            if r is not None:
                txs, best = cand, r
            k -= 1
        # then single operations inside the remaining transactions (a transaction keeps at least one)
        dropped = 0
        for k in range(len(txs) - 1, -1, -1):
            n = len(tx_ops(txs[k].split())) - 1
            while n >= 0 and time.time() - t0 <= budget_s:
                t = tx_without_op(txs[k], n)
                if t is not None:
                    cand = txs[:k] + [t] + txs[k + 1:]
                    r = reproduces(cand)
                    if r is not None:
                        txs, best = cand, r
                        dropped += 1
                n -= 1
        if best is not None:
            rp["original_case"] = rp["case"]
            rp["case"], rp["impl"], rp["model"], rp["tx"] = best
            rp["shrunk"] = "greedy removal of transactions (%d of %d remain), then of single operations (%d dropped)" % (len(txs), n0, dropped)
            with open(full, "w") as f:
                json.dump(rp, f, indent=1, sort_keys=True)


SCHEMA_TIES = [("C04Wirings.v", "C04cp,C04cx,C04cd"), ("C04Diamonds.v", "C04da,C04db,C04dc,C04dd")]


def schema_tie(c):
    """the schemas between the markers of Examples/C04Wirings.v (C04cp / C04cx / C04cd) and Examples/C04Diamonds.v (C04da ...
    C04dd) are the derived schemas of the harness wirings: regenerate the Coq text from the wirings (sub-command
    c04-coqschema) and compare (white space normalised)"""
    harness = os.path.join(vlib.BUILD, "storageharness")
    if not os.path.exists(harness):
        return
    ties = []
    for fname, wirings in SCHEMA_TIES:
        d = os.path.join(c.work, "coqschema_" + fname.split(".")[0])
        os.makedirs(d, exist_ok=True)
        rc, out = vlib.run([harness, "c04-coqschema", "--wirings", wirings, "--out", d], timeout=60)
        src = open(os.path.join(vlib.COQ, "theories", "Examples", fname)).read()
        have = None
        if "(* generated: begin *)" in src and "(* generated: end *)" in src:
            have = src.split("(* generated: begin *)", 1)[1].split("(* generated: end *)", 1)[0]
        want = open(os.path.join(d, "schemas.v.txt")).read() if rc == 0 and os.path.exists(os.path.join(d, "schemas.v.txt")) else None
        ties.append("Examples/%s generated block == c04-coqschema of the harness wirings %s" % (fname, wirings.replace(",", ", ")))
        if have is None or want is None or " ".join(have.split()) != " ".join(want.split()):
            c.violation(PID + ":wiring-schema-drift",
                        "the schemas of Examples/%s (wf_* computations, guard / cascade instances) are not the derived schemas of the "
                        "harness wirings %s any more: regenerate the block with `storageharness c04-coqschema --wirings %s`" % (
                            fname, wirings.replace(",", " / "), wirings),
                        dict(correspondence="Examples/%s generated block vs harness wirings" % fname, log=(out or "")[-800:]), no_input=True)
    c.cov["schema_tie"] = "; ".join(ties)


def main(argv):
    c = vlib.Check(PID, argv)
    c.assumptions = ["bbolt rollback restores the previous content (trusted; observed by the full traversal after every transaction)",
                     "a child process that dies while executing a history is an observation (CRASH), not a harness failure"]
    proof_ok = c.proof_step(FILES)
    tmp = None
    if os.path.isdir("/dev/shm") and os.access("/dev/shm", os.W_OK):
        tmp = os.path.join("/dev/shm", "verif_c04_%d" % os.getpid())
        os.makedirs(tmp, exist_ok=True)
    try:
        storefam.run_family(
            c, "c04", 1500, 30000, compare, oracle,
            "per hostile id (30: quotes, backslashes, filter keywords, =, parentheses, blanks, control and NUL bytes) three fixed scenario shapes "
            "(hostile id as deleted target, as referrer, as bystander) on the cascade / restrict wirings, then seeded histories from a "
            "foreign-key aware generator (4-13 transactions x 1-3 ops: create / full and field-restricted update (re-parenting) / delete "
            "biased to referenced entities / link ops; invalid on purpose: missing target, empty fk, self reference, duplicate id) over the "
            "wirings idx (nullable self fk index, fk index, child store), fkc (fk constraints restrict + cascade), casc (cascade fk index "
            "chain a<-b<-c + restrict) and cyc (self-referencing store and two-store loop under cascade delete: the only stream in which "
            "reference cycles occur); every second round draws ids from the hostile alphabet. One history in four runs all its "
            "transactions with ONE shared mutate context; 8 % of the transactions have 4-7 ops; fk values and create ids are drawn with a "
            "small probability from the ids deleted earlier in the same context; about every seventh transaction position is the life "
            "cycle of one fk target inside one context over a random fk edge (fk index / nullable / cascade fk index / fk constraint "
            "restrict or cascade): create or pick the target, reference it (new referrer through the root or a child store, or an "
            "existing one re-pointed), release (delete, null, re-point, or left to the cascade), delete the target, then reference it "
            "again (must be refused) or re-create and reference it (must be accepted), as one transaction or cut into consecutive "
            "transactions of the shared context; plus bounded-exhaustive op sequences (<= 3 of 14 ops) inside one transaction and as "
            "one-op transactions under the shared context on the self-referencing store. A further stream (2/5 of the size) runs the "
            "same generator over the wirings c04ia/c04ib/c04fa/c04ca/c04ya: idx / fkc / casc / cyc with an entity strategy whose fk "
            "fields are known to the FieldChecker under an api name (PersistContext.WithFieldOverrides, or asked by the strategy) or are "
            "written whatever the checker says, so that the checker's answer for the STORED name and the written value differ; plus "
            "bounded-exhaustive patch sequences (<= 2 quick / <= 3 thorough) over five small scenarios of these wirings (root and child "
            "stores, every fk edge kind). Streams 6 / 3d: fk edges that start or end at a child store (C04cp / C04cx / C04cd). Streams 7 / 3e: "
            "cascade graphs with shared descendants over the wirings C04da / C04db / C04dc / C04dd (a store with two cascading fk "
            "fields whose targets are connected by a cascade: fk constraints with CascadeDelete, cascading fk indexes, a self "
            "reference, guards on child stores, restricting edges in between) + casc / fkc: every history starts with a DAG built on "
            "purpose (apex, 2-5 referrers created with one cascading fk field at a node of the DAG and the other fk fields at further "
            "nodes - references only to older entities, so no cycle -, now and then a restricting referrer) followed by the delete of "
            "the apex or an inner node through the root or a child store; ids plain / prefix-related / hostile so that the inner "
            "node sorts before and after the shared descendant; bounded-exhaustive op sequences after four committed diamonds. "
            "Each history runs in a child process (stack "
            "limit, memory limit, timeout). Compared with the extracted machine: op result kinds, entities, fk field values, back-reference "
            "sets; oracle on the implementation's facts: targets exist, back-reference sets exact, a successful delete removed exactly the "
            "transitive referrers, a refused operation changed nothing, no delete fails with an unclassified error.",
            trusted_extra=["harness store_c04.go (C04 generator, child-process isolation: a dead child is reported as CRASH)"],
            subcmd="store-iso", tmpdir=tmp, extra_args=["--case-timeout", "8"])
        if not c.replay:
            schema_tie(c)
        if c.violations and not c.replay:
            shrink_replays(c, tmp)
    finally:
        if tmp:
            import shutil
            shutil.rmtree(tmp, ignore_errors=True)
    if not proof_ok:
        c.violation(PID + ":proof", "proof obligation no longer checks: %s" % json.dumps(c.proof_broken)[:600],
                    dict(broken=c.proof_broken), no_input=True)
    return c.finish()
