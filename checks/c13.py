"""C13 - stored values and compound keys round-trip.
Proof: coq/theories/Properties/C13.v (models Codec/{Varint,CompoundKey,FieldCodec,Containers,Persist,Getters,CheckerRepr}.v).
Correspondence: the extracted model against boltz.TypedBucket over a real bbolt database (values
read back in a later transaction AND the raw bucket bytes), boltz.PersistContext over chains of real
parent/child stores (contexts derived by GetParentContext / WithFieldOverrides), boltz.EncodeStringSlice /
DecodeStringSlice / DecodeNext, GetTypeAndValue / FieldTo*, binary.PutUvarint / Uvarint.
Every difference is classified with the property's own oracle, evaluated on the implementation's
observation alone: a written value must read back equal (int32 widens, times as instants, string
lists as sorted sets), nil stays distinct from "", a checker-restricted phase leaves every
unselected field's raw bytes untouched - in the persisting store's part of the entity and in every
ancestor store's part written through a derived context -, decode(encode l) = l, distinct lists never share an
encoding, the decoder never panics."""
import json
import os

import vlib

PID = "C13"
FILES = ["theories/Properties/C13.v", "theories/Examples/C13Examples.v", "theories/Examples/C13PersistExamples.v", "theories/Examples/C13CheckerReprExamples.v"]
MARKER = b"__list__size__36484231-110c-4767-afe2-01b6e3db107a"


def unhex(h):
    return b"" if h == "-" else bytes.fromhex(h)


class Toks:
    def __init__(self, toks):
        self.t = toks
        self.p = 0

    def next(self):
        v = self.t[self.p]
        self.p += 1
        return v

    def peek(self):
        return self.t[self.p] if self.p < len(self.t) else None

    def int(self):
        return int(self.next())


# ---- parsing of case / observation syntax -------------------------------------------------

def parse_dump(s):
    """D <n> (<key> (L <val> | dump))*  -> dict key -> ('L', bytes) | ('D', dict)"""
    assert s.next() == "D"
    out = {}
    for _ in range(s.int()):
        k = unhex(s.next())
        if s.peek() == "L":
            s.next()
            out[k] = ("L", unhex(s.next()))
        else:
            out[k] = ("D", parse_dump(s))
    return out


def parse_value(s, observed=False):
    """normalised value: ('n',) ('s',b) ('i',z) ('l',z) ('f',bits) ('b',0/1) ('t',sec,nsec) ('m',{k:v}) ('a',[v]) ('x',)"""
    k = s.next()
    if k == "n":
        return ("n",)
    if k == "s":
        return ("s", unhex(s.next()))
    if k == "i":
        return ("i", int(s.next()))
    if k in ("l", "I"):
        return ("l", int(s.next()))
    if k in ("f", "g"):
        return ("f", s.next())
    if k == "b":
        return ("b", int(s.next()))
    if k == "t":
        sec, nsec = int(s.next()), int(s.next())
        if not observed:
            s.next()  # zone
        return ("t", sec, nsec)
    if k == "x":
        if not observed:
            s.next()
        return ("x",)
    if k == "M":
        return ("m", {})
    if k == "A":
        return ("a", [])
    if k == "m":
        m = {}
        for _ in range(s.int()):
            key = unhex(s.next())
            m[key] = parse_value(s, observed)
        return ("m", m)
    if k == "a":
        return ("a", [parse_value(s, observed) for _ in range(s.int())])
    raise ValueError("bad value token %r" % k)


def value_guard_ok(v):
    """the stated guard of container_roundtrip: supported types only, map keys non-empty, at most
    MaxKeySize bytes and different from the list-size marker key"""
    if v[0] == "x":
        return False
    if v[0] == "m":
        return all(len(k) > 0 and len(k) <= 32768 and k != MARKER and value_guard_ok(x) for k, x in v[1].items())
    if v[0] == "a":
        return all(value_guard_ok(x) for x in v[1])
    return True


def has_marker_key(v):
    if v[0] == "m":
        return any(k == MARKER or has_marker_key(x) for k, x in v[1].items())
    if v[0] == "a":
        return any(has_marker_key(x) for x in v[1])
    return False


REPRS = {
    "mn": "a nil boltz.MapFieldChecker (var m boltz.MapFieldChecker: a nil map inside the FieldChecker interface)",
    "ma": "an allocated boltz.MapFieldChecker",
    "pm": "a *boltz.MapFieldChecker",
    "em": "a struct embedding boltz.MapFieldChecker",
    "pp": "a pointer-receiver FieldChecker implementation",
    "pn": "a typed nil pointer whose IsUpdated answers false on the nil receiver",
    "sv": "a struct-value FieldChecker implementation",
    "sl": "a slice-typed FieldChecker implementation",
    "sn": "a nil slice of a slice-typed FieldChecker implementation",
    "fn": "a func-typed FieldChecker implementation",
    "f0": "a nil func of a func-typed FieldChecker implementation",
    "mb": "a map[string]bool-typed FieldChecker implementation",
}


class Chk:
    """a field checker as the property sees it: the predicate 'IsUpdated(name)' of the value handed to the library,
    whatever Go value carries it (Codec/CheckerRepr.v: a nil map / typed nil pointer / nil slice / nil func inside the
    interface is NOT the nil interface - it selects what its IsUpdated answers, a nil map nothing)"""

    def __init__(self, fn, desc, names=None):
        self.fn = fn
        self.desc = desc
        if names is not None:
            self.names = names       # MapFieldChecker.ToSlice is observed against them

    def __call__(self, f):
        return self.fn(f)


def cdesc(chk):
    return chk.desc if chk is not None else "the nil interface: no restriction"


def names_desc(names):
    return "selecting no field" if not names else "selecting %s" % sorted(names)[:6]


def parse_checker(s):
    k = s.next()
    if k == "*":
        return None
    if k == "c":
        names = set(unhex(s.next()) for _ in range(s.int()))
        return Chk(lambda f: f in names, "boltz.MapFieldChecker %s" % names_desc(names), names)
    if k == "r":
        repr_ = s.next()
        names = set(unhex(s.next()) for _ in range(s.int()))
        return Chk(lambda f: f in names, "%s %s" % (REPRS[repr_], names_desc(names)), names if repr_ in ("mn", "ma") else None)
    if k in ("o", "on"):
        mp = {}
        if k == "o":
            for _ in range(s.int()):
                a, b = unhex(s.next()), unhex(s.next())
                mp.setdefault(a, b)
        inner = parse_checker(s)
        if inner is None:
            return None
        return Chk(lambda f: inner(mp.get(f, f)), "MappedFieldChecker (%s) around %s" % ("nil mappings" if k == "on" else "%d mappings" % len(mp), inner.desc))
    raise ValueError("bad checker token %r" % k)


def parse_op(s):
    kind = s.next()
    name = unhex(s.next())
    if kind == "nil":
        return (kind, name, ("n",))
    if kind in ("str", "gss", "req"):
        return (kind, name, ("s", unhex(s.next())))
    if kind == "strp":
        return (kind, name, ("n",) if s.next() == "n" else ("s", unhex(s.next())))
    if kind == "bool":
        return (kind, name, ("b", int(s.next())))
    if kind == "i32":
        return (kind, name, ("i", int(s.next())))
    if kind == "i64":
        return (kind, name, ("l", int(s.next())))
    if kind == "f64":
        return (kind, name, ("f", s.next()))
    if kind == "time":
        sec, nsec, _ = int(s.next()), int(s.next()), s.next()
        return (kind, name, ("t", sec, nsec))
    if kind == "timep":
        if s.next() == "n":
            return (kind, name, ("n",))
        sec, nsec, _ = int(s.next()), int(s.next()), s.next()
        return (kind, name, ("t", sec, nsec))
    if kind in ("slist", "gsl"):
        return (kind, name, ("sl", [unhex(s.next()) for _ in range(s.int())]))
    if kind == "map":
        an = s.next() == "1"
        m = {}
        for _ in range(s.int()):
            key = unhex(s.next())
            m[key] = parse_value(s)
        return ("map" if an else "map0", name, ("m", m))
    if kind == "list":
        return (kind, name, ("a", [parse_value(s) for _ in range(s.int())]))
    raise ValueError("bad op %r" % kind)


def write_must_succeed(kind, name, val):
    """the guards of field_write_succeeds / strlist_write_succeeds / container_write_succeeds for one
    setter call on an empty bucket: usable field name, supported value within bbolt's limits"""
    if len(name) == 0 or len(name) > 32768:
        return False
    if kind == "req" and len(val[1]) == 0:
        return False
    if val[0] == "sl":
        return all(len(x) + 1 <= 32768 for x in val[1])
    if val[0] == "m":
        if kind == "map0" and any(x[0] in ("m", "a") for x in val[1].values()):
            return False
        return value_guard_ok(val)
    if val[0] == "a":
        return value_guard_ok(val)
    return True


def parse_scenario(case):
    s = Toks(case.split())
    assert s.next() == "S"
    init = parse_dump(s)
    phases = []
    for _ in range(s.int()):
        assert s.next() == "P"
        s.next()  # api
        chk = parse_checker(s)
        ops = [parse_op(s) for _ in range(s.int())]
        phases.append((chk, ops))
    assert s.next() == "R"
    names = [unhex(s.next()) for _ in range(s.int())]
    return init, phases, names


def sections(line):
    return [sec.split() for sec in line.split(" | ")]


def tokens_match(impl, model):
    """model tokens '...=u' / 'gss:u' (not modelled) and '...=p' (the code panics on bytes no setter
    writes; the property is silent there) match anything"""
    if len(impl) != len(model):
        return False
    for a, b in zip(impl, model):
        if a == b or b.endswith("=u") or b == "gss:u" or b.endswith("=p"):
            continue
        return False
    return True


DFLT = dict(swd="s:64666c74", soe="s:-", soee="1", bd="10", i32d="-4242", i64d="424242", toe="0:0", toee="1", tod="63000000000:7", sle="1", par="n")


def slist_tok(l):
    return ":".join([str(len(l))] + [(x.hex() or "-") for x in l])


def check_defaults(name, val, g, bad):
    """the getters with a default (GetStringWithDefault, GetStringOrError, GetBoolWithDefault, GetInt32/64WithDefault,
    GetTimeOrError, GetTimeOrDefault, IsStringListEmpty): the stored value when the field holds one of the getter's type,
    the default (and, for *OrError, an error on the bucket) when the field is null or absent; val None: absent field"""
    want = dict(DFLT)
    if val is not None:
        if val[0] == "s":
            want.update(swd="s:" + (val[1].hex() or "-"), soe="s:" + (val[1].hex() or "-"), soee="0")
        elif val[0] == "b":
            want.update(bd=str(val[1]) * 2)
            del want["swd"], want["soe"], want["soee"]      # GetString renders a bool as text
        elif val[0] == "i":
            want.update(i32d=str(val[1]), i64d=str(val[1]))
            del want["swd"], want["soe"], want["soee"]
        elif val[0] == "l":
            want.update(i64d=str(val[1]))
            del want["swd"], want["soe"], want["soee"]
        elif val[0] == "t":
            want.update(toe="%d:%d" % (val[1], val[2]), toee="0", tod="%d:%d" % (val[1], val[2]))
            del want["swd"], want["soe"], want["soee"]
        elif val[0] == "sl":
            want.update(sle=str(int(len(set(val[1])) == 0)), par="1")
        elif val[0] == "f":
            del want["swd"], want["soe"], want["soee"]
        elif val[0] in ("m", "a"):
            want.update(par="1")                              # GetBucket(name).GetParent() is the entity bucket
            del want["sle"]                                   # a map / list bucket is not a string list
    diff = sorted(k for k in want if g.get(k) != want[k])
    if diff:
        bad.append(("default-getter", "field %r %s: the getters with a default return %s, expected %s"
                    % (name[:40], "is absent" if val is None else "holds a %s" % val[0], {k: g.get(k) for k in diff}, {k: want[k] for k in diff})))


def check_readback(name, val, o, bad):
    """the last value written to a field must read back equal; o: the getters' observation of the field"""
    f = o["F"]
    if "G" in o:
        check_defaults(name, val, o["G"], bad)
    if val[0] == "n":
        if any(f[k] != "n" for k in ("str", "bool", "i32", "i64", "f64", "time")):
            bad.append(("roundtrip-nil", "nil written to %r reads back as %r" % (name, f)))
    elif val[0] == "s":
        want = "s:" + (val[1].hex() or "-")
        if f["str"] != want:
            bad.append(("roundtrip-string", "string %r written to %r reads back as %s" % (val[1][:40], name, f["str"][:80])))
    elif val[0] == "b":
        if f["bool"] != str(val[1]):
            bad.append(("roundtrip-bool", "bool %s reads back as %s" % (val[1], f["bool"])))
    elif val[0] == "i":
        if f["i32"] != str(val[1]) or f["i64"] != str(val[1]):
            bad.append(("roundtrip-int32", "int32 %d reads back as int32 %s / int64 %s" % (val[1], f["i32"], f["i64"])))
    elif val[0] == "l":
        if f["i64"] != str(val[1]):
            bad.append(("roundtrip-int64", "int64 %d reads back as %s" % (val[1], f["i64"])))
    elif val[0] == "f":
        if f["f64"] != val[1]:
            bad.append(("roundtrip-float64", "float64 bits %s read back as %s" % (val[1], f["f64"])))
    elif val[0] == "t":
        if f["time"] != "%d:%d" % (val[1], val[2]):
            bad.append(("roundtrip-time", "instant %d s %d ns reads back as %s" % (val[1], val[2], f["time"])))
    elif val[0] == "sl":
        want = sorted(set(val[1]))
        want_tok = ":".join([str(len(want))] + [(x.hex() or "-") for x in want])
        if f["sl"] != want_tok:
            bad.append(("roundtrip-strlist", "string list of %d reads back as %s" % (len(val[1]), f["sl"][:120])))
    elif val[0] in ("m", "a"):
        # no guard: whatever the store accepted must come back equal (container_read_back)
        sec = o["M"] if val[0] == "m" else o["L"]
        try:
            got = parse_value(Toks(sec), observed=True) if sec not in (["n"], ["p"], ["x"]) else None
        except Exception:  # noqa
            got = None
        if got != val:
            if has_marker_key(val):
                bad.append(("reserved-key-map", "a map with the reserved list-size key written to %r is accepted but reads back different (as a list)" % name))
            else:
                bad.append(("roundtrip-map" if val[0] == "m" else "roundtrip-list", "%s written to %r reads back different" % ("map" if val[0] == "m" else "list", name)))


def prune_dump(d, x):
    """a bucket tree without the keys named x at any depth"""
    return {k: (v if v[0] == "L" else ("D", prune_dump(v[1], x))) for k, v in d.items() if k != x}


def entity_sections_oracle(secs, state, bad):
    """ForEachTypedBucket enumerates exactly the sub-buckets of the entity, in key order; TypedBucket.Copy of the entity
    into an empty bucket reads back equal (a deep copy), with a filter it is the entity without the rejected keys, and
    copying the whole over a partial copy gives the whole; state: the entity's final stored tree"""
    for sec in secs:
        if sec[0] == "B":
            want = ["%s:%d" % (k.hex() or "-", len(v[1])) for k, v in sorted(state.items()) if v[0] == "D"]
            if sec[1] == "panic" or sec[2:] != want:
                bad.append(("for-each-bucket", "ForEachTypedBucket yields %s for an entity with the sub-buckets %s" % (sec[1:8], want[:8])))
        elif sec[0] in ("C", "E", "O"):
            if "ok" not in sec:
                if sec[-1] != "skip":
                    bad.append(("copy-roundtrip", "TypedBucket.Copy of the entity bucket into a fresh bucket fails (%s)" % sec[-1]))
                continue
            got = parse_dump(Toks(sec[sec.index("ok") + 1:]))
            want = prune_dump(state, unhex(sec[1])) if sec[0] == "E" else state
            if got != want:
                bad.append(("copy-roundtrip", "TypedBucket.Copy (%s) does not read back as the source"
                            % {"C": "whole entity into an empty bucket", "E": "without the keys named %s" % sec[1], "O": "whole entity over a partial copy"}[sec[0]]))


def toslice_oracle(sec, chk, bad):
    """MapFieldChecker.ToSlice: the selected names, as a set"""
    names = getattr(chk, "names", None)
    if names is None:
        return
    toks = [t for t in sec if t.startswith("ts:")]
    if toks != ["ts:" + slist_tok(sorted(names))]:
        bad.append(("checker-to-slice", "MapFieldChecker.ToSlice of a checker over %d names gives %s" % (len(names), toks[:1])))


# ---- the property's oracle on one scenario ----------------------------------------------------

def scenario_oracle(case, impl_line):
    """returns list of (key, description) of property violations visible in the implementation's
    observation alone"""
    bad = []
    init, phases, names = parse_scenario(case)
    secs = sections(impl_line)
    if any(t.startswith("harness-error") for sec in secs for t in sec):
        return [("harness-error", impl_line[:300])]
    idx = 1
    assert secs[idx][0] == "I"
    state = parse_dump(Toks(secs[idx][1:]))
    idx += 1
    last = {}           # field name -> last effective op
    for chk, ops in phases:
        sec = secs[idx]
        idx += 1
        assert sec[0] == "P"
        if sec[1] != "ok":
            if not state and len(phases) == 1 and len(ops) == 1 and chk is None and write_must_succeed(*ops[0]):
                bad.append(("write-refused", "a %s call with a supported value on an empty bucket fails (%s)" % (ops[0][0], sec[1])))
            continue
        d = sec.index("D")
        toslice_oracle(sec[:d], chk, bad)
        after = parse_dump(Toks(sec[d:]))
        touched = set()
        for kind, name, val in ops:
            if kind == "nil" or chk is None or chk(name):
                touched.add(name)
                last[name] = (kind, val)
        for key in set(state) | set(after):
            if key not in touched and state.get(key) != after.get(key):
                bad.append(("checker-frame", "field %r is not selected by the checker (%s) but its stored bytes changed" % (key, cdesc(chk))))
        state = after
    if any(k == "checker-frame" for k, _ in bad):
        return bad      # which call wrote a field last is only known while the frame holds
    obs = {}
    while idx < len(secs):
        sec = secs[idx]
        idx += 1
        if sec[0] in ("F", "G"):
            obs.setdefault(unhex(sec[1]), {})[sec[0]] = dict(t.split("=", 1) for t in sec[2:])
        elif sec[0] in ("L", "M"):
            obs.setdefault(unhex(sec[1]), {})[sec[0]] = sec[2:]
    for name, (kind, val) in last.items():
        o = obs.get(name)
        if o is None:
            continue
        check_readback(name, val, o, bad)
    for name, o in obs.items():
        if name not in state and "G" in o:
            check_defaults(name, None, o["G"], bad)
    entity_sections_oracle(secs[1:], state, bad)
    return bad


# ---- persists through PersistContext over a chain of stores (case kind X) -----------------------

def parse_xop(s, create, ent_id):
    """one setter call through a context: (kind, field name, value it writes)"""
    k = s.peek()
    if k == "links":
        s.next()
        name = unhex(s.next())
        return ("links", name, ("sl", [unhex(s.next()) for _ in range(s.int())]))
    if k == "isc":
        s.next()
        name = unhex(s.next())
        vc, vu = unhex(s.next()), unhex(s.next())
        return ("isc", name, ("s", vc if create else vu))
    if k == "id":
        s.next()
        return ("id", unhex(s.next()), ("s", ent_id))
    if k == "tx":
        s.next()
        return ("tx", unhex(s.next()), ("b", 1))
    return parse_op(s)


def parse_persist_scenario(case):
    s = Toks(case.split())
    assert s.next() == "X"
    chain = []
    for _ in range(s.int()):
        chain.append(tuple(unhex(s.next()) for _ in range(s.int())))
    ent_id = unhex(s.next())
    init = parse_dump(s)
    phases = []
    for _ in range(s.int()):
        assert s.next() == "P"
        create = s.next() == "1"
        chk = parse_checker(s)
        stmts = []
        for _ in range(s.int()):
            k = s.next()
            if k == "g":
                stmts.append(("g", s.int()))
            elif k == "w":
                slot = s.int()
                mp = {}
                for _ in range(s.int()):
                    a, b = unhex(s.next()), unhex(s.next())
                    mp.setdefault(a, b)
                stmts.append(("w", slot, mp))
            elif k == "wn":
                stmts.append(("w", s.int(), {}))
            elif k == "s":
                slot = s.int()
                stmts.append(("s", slot, parse_xop(s, create, ent_id)))
            else:
                raise ValueError("bad statement %r" % k)
        phases.append((create, chk, stmts))
    assert s.next() == "R"
    reads = [(s.int(), unhex(s.next())) for _ in range(s.int())]
    return chain, ent_id, init, phases, reads


def with_overrides(chk, mp):
    """PersistContext.WithFieldOverrides: a nil checker stays nil"""
    if chk is None:
        return None
    return Chk(lambda f: chk(mp.get(f, f)), "WithFieldOverrides (%d mappings) on %s" % (len(mp), chk.desc))


def persist_writes(chain, chk, stmts):
    """what the property demands of one persist restricted by checker chk: every context derived by
    GetParentContext belongs to the same restricted write (its checker is the receiver's at that
    moment), WithFieldOverrides renames fields for the checker of that one context.  Returns the
    key paths of the fields that proceeding calls name, with the call, or None when the program
    uses a context that does not exist (outside the property)."""
    slots = {0: (0, chk)}
    out = []
    for st in stmts:
        if st[1] not in slots:
            return None
        lvl, c = slots[st[1]]
        if st[0] == "g":
            if lvl + 1 >= len(chain):
                return None
            slots[st[1] + 1] = (lvl + 1, c)
        elif st[0] == "w":
            slots[st[1]] = (lvl, with_overrides(c, st[2]))
        else:
            kind, name, val = st[2]
            if kind == "nil" or c is None or c(name):
                out.append((chain[lvl] + (name,), lvl, kind, val))
    return out


def frame_diffs(before, after, addr, touched, created):
    """key paths of nodes that changed although no proceeding call names them, a field above them or
    a field below them; before/after: ('L', bytes) | ('D', dict) | None; created: the path of the
    bucket a Create may make"""
    if addr in touched:
        return []
    below = any(t[:len(addr)] == addr for t in touched)
    on_created = created is not None and created[:len(addr)] == addr
    if not addr or below or on_created:
        if before is None and on_created:
            before = ("D", {})
        if before is not None and after is not None and before[0] == "D" and after[0] == "D":
            out = []
            for k in sorted(set(before[1]) | set(after[1])):
                out += frame_diffs(before[1].get(k), after[1].get(k), addr + (k,), touched, created)
            return out
    if before == after:
        return []
    # name the innermost changed node
    if before is not None and after is not None and before[0] == "D" and after[0] == "D":
        out = []
        for k in sorted(set(before[1]) | set(after[1])):
            out += frame_diffs(before[1].get(k), after[1].get(k), addr + (k,), set(), None)
        return out or [addr]
    return [addr]


def persist_oracle(case, impl_line):
    """the property on one X case, from the implementation's observation alone: after every persist
    each stored node that the checker-selected calls do not name (in the store's own part and in every
    ancestor store's part of the entity) holds the bytes it held before; the last value written to a
    field reads back equal"""
    bad = []
    chain, ent_id, init, phases, reads = parse_persist_scenario(case)
    secs = sections(impl_line)
    if any(t.startswith("harness-error") for sec in secs for t in sec):
        return [("harness-error", impl_line[:300])]
    idx = 1
    assert secs[idx][0] == "I"
    state = parse_dump(Toks(secs[idx][1:]))
    idx += 1
    last = {}           # key path of a field -> (level, name, value of the last proceeding call)
    for create, chk, stmts in phases:
        sec = secs[idx]
        idx += 1
        assert sec[0] == "P"
        if sec[1] != "ok":
            continue
        toslice_oracle(sec[:sec.index("D")], chk, bad)
        after = parse_dump(Toks(sec[sec.index("D"):]))
        writes = persist_writes(chain, chk, stmts)
        if writes is not None:
            touched = set(w[0] for w in writes)
            seen = set()
            for addr in frame_diffs(("D", state), ("D", after), (), touched, chain[0] if create else None):
                # the store whose part of the entity the node lies in: the deepest bucket of the chain above it
                lvl = max((l for l, p in enumerate(chain) if len(p) < len(addr) and addr[:len(p)] == p), key=lambda l: len(chain[l]), default=None)
                field = addr[:len(chain[lvl]) + 1] if lvl is not None else addr
                if field in seen:
                    continue
                seen.add(field)
                if lvl is not None and lvl > 0:
                    bad.append(("checker-frame-parent-context",
                                "a persist restricted by a field checker (%s) changed field %r in the part of the entity that belongs to ancestor store #%d "
                                "(written through the context derived by GetParentContext) although no call the checker selects names it"
                                % (cdesc(chk), field[-1], lvl)))
                else:
                    bad.append(("checker-frame", "stored node %s is not named by any call the checker (%s) selects but its stored bytes changed"
                                % ("/".join(repr(k) for k in field), cdesc(chk))))
            for addr, lvl, kind, val in writes:
                last[addr] = (lvl, addr[-1], val)
                for other in [a for a in last if a != addr and (a[:len(addr)] == addr or addr[:len(a)] == a)]:
                    del last[other]
        else:
            last = {}
        state = after
    if bad:
        return bad      # which call wrote a field last is only known while the frame holds
    obs = {}
    while idx < len(secs):
        sec = secs[idx]
        idx += 1
        if sec[0] in ("F", "G") and sec[-1] != "nobucket":
            obs.setdefault((int(sec[1]), unhex(sec[2])), {})[sec[0]] = dict(t.split("=", 1) for t in sec[3:])
        elif sec[0] in ("L", "M"):
            obs.setdefault((int(sec[1]), unhex(sec[2])), {})[sec[0]] = sec[3:]
    for addr, (lvl, name, val) in last.items():
        o = obs.get((lvl, name))
        if o is None or "F" not in o:
            continue
        check_readback(name, val, o, bad)
    for (lvl, name), o in obs.items():
        node = ("D", state)
        for k in chain[lvl] + (name,):
            node = node[1].get(k) if node is not None and node[0] == "D" else None
        if node is None and "G" in o:
            check_defaults(name, None, o["G"], bad)
    entity_sections_oracle(secs[1:], state, bad)
    return bad


def scenario_corresponds(impl_line, model_line):
    """section-wise comparison; where the model says the code panics (a crafted bucket no setter
    produces) the property is silent and anything is accepted; returns name of first differing section"""
    si, sm = sections(impl_line), sections(model_line)
    for k in range(max(len(si), len(sm))):
        if k >= len(si) or k >= len(sm):
            return "shape"
        a, b = si[k], sm[k]
        if b[:2] == ["P", "panic"]:
            return None      # the rest of the history is outside the model
        if b and b[0] in ("L", "M", "A") and ("x" in b[1:] or b[-1] == "p"):
            continue
        if not tokens_match(a, b):
            return "%s %s" % (b[0] if b else "?", b[1][:24] if len(b) > 1 and b[0] in "FLM" else "")
    return None


def main(argv):
    c = vlib.Check(PID, argv)
    c.cov["trusted_base"] = [
        "Coq 8.16.1 kernel (coqc; coqchk in the thorough tier); vm_compute in Examples only; no axioms",
        "hand-written models Codec/Varint.v, CompoundKey.v, FieldCodec.v, Containers.v, Persist.v, Getters.v, CheckerRepr.v of boltz/encode.go, boltz/typed_bucket.go, boltz/base.go PersistContext, "
        "encoding/binary varints, time.Time (Un)MarshalBinary and of a bbolt bucket (sorted key -> value | sub-bucket; Put/CreateBucket error rules)",
        "extraction (ExtrOcamlBasic only) + extraction/c13_driver.ml + drv_common.ml",
        "Go harness cmd/storageharness/c13.go, c13gen.go, c13x.go, c13r.go (generators, bucket walker, store chains, checker representations) and this comparison / oracle",
        "bbolt (the store the values are written to and read from; compared, not verified)",
    ]
    c.assumptions = [
        "a Go map is modelled by its key-sorted association list (keys are unique); the iteration order of range over the map is irrelevant (theorem put_map_order_irrelevant)",
        "container_read_back has no guard on keys (whatever the store accepts reads back equal); the write is accepted (container_roundtrip) for supported dynamic types, "
        "map keys non-empty, <= 32768 bytes (bbolt MaxKeySize) and different from the reserved list-size marker key (refused since fix C13-reserved-map-key), "
        "values < 2^31-2 bytes, lists shorter than 2^31",
        "compound keys: components of at most 4096 bytes (MaxLinkedSetKeySize) - longer ones are rejected by the encoder",
        "float32 values are compared through their float64 widening (no NaN payloads); float formatting and int->float coercion (GetFloat64 on an int field, GetString on a float/time field) are not modelled and not compared",
        "persists over store chains (X): field names never equal a key of a store's bucket path (a setter replacing the bucket of a descendant store leaves stale bucket handles in the code); "
        "SetLinkedIds is modelled on the entity's own side, on a field that only SetLinkedIds writes and with ids of existing entities (the far side of a link is C05's)",
        "reads of crafted buckets that no setter produces (short payloads, negative list size, GetList on an absent field) may panic in the code; the property is silent there and the comparison accepts any behaviour",
    ]
    proof_ok = c.proof_step(FILES)
    model = vlib.build_model("C13")
    harness, err = vlib.build_harness()
    if harness is None:
        c.violation("C13:harness-build", "harness does not build against the repository: " + err[-800:],
                    dict(correspondence="harness build", log=err[-3000:]), no_input=True)
        return c.finish()

    cases_path = os.path.join(c.work, "cases.txt")
    if c.replay:
        rp = json.load(open(c.replay))
        rin = os.path.join(c.work, "replay_in.txt")
        with open(rin, "w") as f:
            f.write(rp["case"] + "\n")
        args = [harness, "c13", "--out", c.work, "--replaycase", rin]
    else:
        args = [harness, "c13", "--seed", str(c.seed), "--tier", c.tier, "--out", c.work]
    rc, out = vlib.run(args, timeout=2400)
    if rc != 0:
        c.violation("C13:harness-run", "harness failed rc=%s: %s" % (rc, out[-500:]),
                    dict(correspondence="harness run", log=out[-3000:]), no_input=True)
        return c.finish()
    cases = vlib.read_lines(cases_path)
    impl = vlib.read_lines(os.path.join(c.work, "impl.txt"))
    modl = vlib.run_model(model, "c13", cases_path, os.path.join(c.work, "model.txt"))
    assert len(cases) == len(impl) == len(modl), (len(cases), len(impl), len(modl))

    distinct = set()
    disagreements = []      # (section, case, impl, model): model != impl without a property verdict
    encodings = {}          # compound key encoding -> list that produced it
    kinds = {}
    for case, i, m in zip(cases, impl, modl):
        kind = case[0]
        kinds[kind] = kinds.get(kind, 0) + 1
        if "driver-error" in m:
            disagreements.append(("driver", case, i, m))
            continue
        if kind == "S":
            try:
                bad = scenario_oracle(case, i)
            except Exception as e:  # noqa
                bad = [("oracle-error", "cannot interpret the observation: %r" % e)]
            for key, what in bad:
                c.violation("C13:" + key, what, dict(case=case, impl=i, model=m))
            if not bad:
                sec = scenario_corresponds(i, m)
                if sec is not None:
                    disagreements.append((sec, case, i, m))
            distinct.add(case)
        elif kind == "X":
            try:
                bad = persist_oracle(case, i)
            except Exception as e:  # noqa
                bad = [("oracle-error", "cannot interpret the observation: %r" % e)]
            for key, what in bad:
                c.violation("C13:" + key, what, dict(case=case, impl=i, model=m))
            if not bad:
                sec = scenario_corresponds(i, m)
                if sec is not None:
                    disagreements.append(("X " + sec, case, i, m))
            distinct.add(case)
        elif kind == "K":
            cf, fi = case.split(), i.split()
            comps = cf[2:]
            if fi[1] in ("panic", "fatal") or (len(fi) > 3 and fi[3] in ("panic", "fatal")):
                c.violation("C13:codec-panic", "EncodeStringSlice/DecodeStringSlice panics on a list of %d components" % len(comps),
                            dict(case=case, impl=i, model=m))
            elif fi[1] == "ok":
                enc = fi[2]
                if fi[3] != "ok" or fi[5:] != comps or fi[4] != str(len(comps)):
                    c.violation("C13:compound-key-roundtrip", "decode(encode l) is not l for a list of %d components (lengths %s)"
                                % (len(comps), [len(unhex(x)) for x in comps][:8]), dict(case=case, impl=i, model=m))
                elif enc in encodings and encodings[enc] != comps:
                    c.violation("C13:compound-key-collision", "two different lists share the encoding %s" % enc[:60],
                                dict(case=case, other="K %d %s" % (len(encodings[enc]), " ".join(encodings[enc])), impl=i, model=m))
                else:
                    encodings[enc] = comps
                    if i != m:
                        disagreements.append(("K", case, i, m))
            elif fi[1] == "err" and all(len(unhex(x)) <= 4096 for x in comps):
                c.violation("C13:compound-key-refused", "EncodeStringSlice refuses a list whose components are all within MaxLinkedSetKeySize (lengths %s)"
                            % [len(unhex(x)) for x in comps][:8], dict(case=case, impl=i, model=m))
            elif i != m:
                disagreements.append(("K", case, i, m))
            if comps:
                distinct.add(case)
        elif kind in ("D", "N"):
            fi = i.split()
            if fi[1] in ("panic", "fatal"):
                c.violation("C13:decode-panic", "%s panics on malformed input %s" % ("DecodeStringSlice" if kind == "D" else "DecodeNext", case[2:80]),
                            dict(case=case, impl=i, model=m))
            elif i != m:
                disagreements.append((kind, case, i, m))
            if case.split()[1] != "-":
                distinct.add(case)
        else:   # T U V
            if not tokens_match(i.split(), m.split()):
                disagreements.append((kind, case, i, m))
            distinct.add(case)
    if c.replay:
        for case, i, m in zip(cases, impl, modl):
            vlib.log("REPLAY case=%s\n  impl =%s\n  model=%s" % (case[:3000], i[:3000], m[:3000]))
    c.cov["evaluations"] = len(cases)
    c.cov["distinct_nontrivial"] = len(distinct)
    c.cov["disagreements_checked"] = len(disagreements)
    c.cov["rule"] = ("S: scenarios on a real bbolt file - boundary tables (strings incl. empty/invalid UTF-8/32 KiB, int32/int64 limits, special floats and NaN payloads, "
                     "instants from year 1 to int64 limits in 22 zones, empty/typed-nil containers, unsupported types), all 16 checker subsets over 4 fields, seeded random "
                     "multi-phase histories (TypedBucket and PersistContext setters, mapped checkers, containers nested <= 4) and hostile ones (crafted raw buckets, marker key, "
                     "bad keys); after every phase the raw bucket bytes are walked in a later transaction and compared with the model byte for byte, then every getter on every field "
                     "(incl. the *WithDefault / *OrDefault / *OrError getters, IsStringListEmpty, GetParent), ForEachTypedBucket on the entity and TypedBucket.Copy of it (whole, filtered, overlaid); "
                     "MapFieldChecker.ToSlice of every plain checker. The checker of a phase is handed to the library in every representation: nil interface, nil / allocated "
                     "boltz.MapFieldChecker, *MapFieldChecker, embedding struct, pointer-receiver type and its typed nil pointer, struct value, slice / func / map[string]bool types "
                     "(nil and non-nil), MappedFieldChecker wrappers nested to any depth with allocated / nil / shared mapping tables (deterministic block of 581 cases + 40 % of all random selections). "
                     "X: persists through boltz.PersistContext over chains of 1-4 real stores (child bucket nested 1-3 keys below the parent's, sibling buckets): the context a store builds "
                     "for Create/Update, contexts derived by GetParentContext (also re-derived, also on the root store) and WithFieldOverrides before/after deriving, every PersistContext setter "
                     "incl. SetLinkedIds, IsCreate-dependent values, ctx.Id, ctx.Tx(); all checker subsets over the fields of two and three stores, random multi-phase programs; the raw bytes of the "
                     "whole entity tree compared after every persist, frame oracle per store part. "
                     "K: all lists of <= 3 components over a 6-symbol prefix-ambiguous alphabet + random lists around the 127/128/4096 boundaries; D/N: malformed keys (truncations, junk, "
                     "non-canonical and overflowing varints, hostile lengths) in a child process with an address-space limit; T: FieldTo* on arbitrary payloads; U/V: varints. "
                     "Non-trivial: every S/T/U/V case, K with >= 1 component, D/N with non-empty input; distinct by case text")
    pick = sorted(set((0, min(1, len(cases) - 1), len(cases) // 3, len(cases) // 2, len(cases) - 1)))
    c.cov["samples"] = [dict(case=cases[k][:1500], impl=impl[k][:1500], model=modl[k][:1500]) for k in pick]
    try:
        st = json.load(open(os.path.join(c.work, "stats.json")))
        st.update({"cases_" + k: v for k, v in kinds.items()})
        c.cov["input_distribution"] = st
    except Exception:  # noqa
        pass
    if disagreements and not c.violations:
        sec, case, i, m = disagreements[0]
        by = {}
        for d in disagreements:
            by[d[0]] = by.get(d[0], 0) + 1
        c.violation("C13:correspondence", "the codec models and boltz differ on %d cases (by section: %s), first in section %s; no explored input violates the property itself"
                    % (len(disagreements), dict(sorted(by.items())[:8]), sec),
                    dict(correspondence="Codec/*.v vs boltz typed_bucket.go / encode.go / base.go", theorems=["field_roundtrip", "container_roundtrip", "compound_key_roundtrip", "checker_frame", "persist_frame"],
                         case=case, impl=i, model=m), no_input=True)
    if not proof_ok:
        c.violation("C13:proof", "proof obligation no longer checks: %s" % json.dumps(c.proof_broken)[:600],
                    dict(broken=c.proof_broken), no_input=True)
    return c.finish()
