"""C20 - public-symbol validation sees every symbol a query references.

Proof: coq/theories/Properties/C20.v over the generic table-driven visitor model Ast/Visitor.v;
the table of package ast (Gen/GenAstTable.v) is REGENERATED FROM THE GO SOURCE by
translators/asttable on every run and `generated_table_complete` is re-checked against it.

Correspondence: harness c20 parses generated queries with the real parser/typer, dumps the real
trees by reflection and compares (a) the sequence of VisitSymbol calls of a real visitor and the
verdict of the real boltz.ValidateSymbolsArePublic with the extracted model on the same tree,
(b) the verdict with the property's own oracle computed from the identifiers the generator wrote
into the query text, (c) the names the real EVALUATOR asks for with the names that were visited.

When the regenerated table breaks `generated_table_complete` for (kind K, field F), the run's
cases whose real tree holds a symbol under F of a K node are used as the targeted search: the
real validator must still reject when exactly that symbol is non-public.

Public-ness is a matter of symbol NAMES (what a query writes), never of the bucket KEY a symbol is
stored under.  The harness' stores have symbols whose key differs from their name and coincides
with the name of other symbols; the text oracle works from the public NAMES the harness asked for
(not from what the store reports back), and every store configuration (a program of API calls,
cfg_cases.txt) is also (d) run through the Coq model Ast/PublicCfg.v (GetPublicSymbols, registered
map names, IsPublicSymbol on probe names) and (e) judged directly: IsPublicSymbol of an element of a
registered map symbol must equal IsPublicSymbol of the map's name.

HISTORIES (seq_spec.txt, harness c20_seq.go, model Ast/ValidateSeq.v): validation is a function of the query and the
store's public set - [gen_validate_seq] answers every step on its own (theorem c20_history_independent).  Real stores
live through sequences of validations (look-alike queries: same String() rendering, same skeleton, same shape, one
containing the other; both orders; two stores; MakeSymbolPublic in between; random); every verdict is judged by the
property's oracle from the identifiers of THAT step's text under the public names of THAT store at that moment.
A violation's replay is the history, shrunk to the steps needed."""
import json
import os

import vlib

PID = "C20"
FILES = ["theories/Properties/C20.v", "theories/Examples/C20Examples.v", "theories/Examples/C20CfgExamples.v",
         "theories/Examples/C20SeqExamples.v"]
DOT = b"."


def unhex(h):
    return b"" if h == "-" else bytes.fromhex(h)


def read_list(f, pos):
    n = int(f[pos])
    return [unhex(x) for x in f[pos + 1:pos + 1 + n]], pos + 1 + n


def is_public(x, pub, maps):
    """the property's reading of 'public': listed, or an element of a public map symbol"""
    if x in pub:
        return True
    if DOT in x:
        base = x.split(DOT)[0]
        return base in maps and base in pub
    return False


class Tree:
    __slots__ = ("kind", "strs", "kids")

    def __init__(self, kind, strs, kids):
        self.kind, self.strs, self.kids = kind, strs, kids


def parse_tree(f, pos):
    assert f[pos] == "T", f[pos]
    kind = f[pos + 1]
    ns = int(f[pos + 2])
    pos += 3
    strs = []
    for _ in range(ns):
        strs.append((f[pos], unhex(f[pos + 1])))
        pos += 2
    nk = int(f[pos])
    pos += 1
    kids = []
    for _ in range(nk):
        name, n = f[pos], int(f[pos + 1])
        pos += 2
        ts = []
        for _ in range(n):
            t, pos = parse_tree(f, pos)
            ts.append(t)
        kids.append((name, ts))
    return Tree(kind, strs, kids), pos


def strings_under(t, acc):
    """every string field value anywhere in t (an over-approximation of the symbols below t)"""
    for _, v in t.strs:
        acc.add(v)
    for _, ts in t.kids:
        for k in ts:
            strings_under(k, acc)
    return acc


def symbols_under_field(t, kind, field, acc):
    """string values held in / below field `field` of every node of kind `kind` in t"""
    if t.kind == kind:
        for name, v in t.strs:
            if name == field:
                acc.add(v)
        for name, ts in t.kids:
            if name == field:
                for k in ts:
                    strings_under(k, acc)
    for _, ts in t.kids:
        for k in ts:
            symbols_under_field(k, kind, field, acc)
    return acc


def model_table(model):
    rc, out = vlib.run([model, "table"], timeout=120)
    info = dict(complete=None, validator=None, gaps=[], kinds=[])
    if rc != 0:
        return info
    for line in out.split("\n"):
        f = line.split()
        if not f:
            continue
        if f[0] == "complete":
            info["complete"] = f[1] == "1"
        elif f[0] == "validator":
            info["validator"] = f[1] == "1"
        elif f[0] == "gap":
            info["gaps"].append((f[1], unhex(f[2]).decode("utf-8", "replace"), f[3]))
        elif f[0] == "kind":
            info["kinds"].append(f[1])
    return info


def key_hint(names, sym_keys, pubs):
    """say so when a symbol involved is stored under a key that differs from its name"""
    out = []
    for x in names:
        base = x.split(DOT)[0].decode("utf-8", "replace")
        key = sym_keys.get(base)
        if key:
            h = "symbol %r is stored under key %r" % (base, key)
            if h not in " ".join(out):
                h += " (%r %s a public name here)" % (key, "is" if key.encode() in pubs else "is not")
                out.append(h)
    return (" [" + "; ".join(out) + " - public-ness goes by NAME]") if out else ""


def check_cfg(c, model, harness, sym_keys):
    """store configurations: model Ast/PublicCfg.v vs the real store, and the map-element rule on the real store alone"""
    cfg_path = os.path.join(c.work, "cfg_cases.txt")
    if not os.path.exists(cfg_path):
        return 0, []
    cases = vlib.read_lines(cfg_path)
    impl = vlib.read_lines(os.path.join(c.work, "cfg_impl.txt"))
    modl = vlib.run_model(model, "cfg", cfg_path, os.path.join(c.work, "cfg_model.txt"))
    assert len(cases) == len(impl) == len(modl), (len(cases), len(impl), len(modl))
    disagreements = []
    for case, i, m in zip(cases, impl, modl):
        cf, fi = case.split(), i.split()
        nops = int(cf[1])
        ops = [cf[2 + 5 * k: 7 + 5 * k] for k in range(nops)]
        probes, _ = read_list(cf, 2 + 5 * nops)
        pretty = ["%s%s(%s%s%s)" % (o[0], "" if o[1] == "0" else "@child", unhex(o[2]).decode(),
                                     ("" if o[3] in ("-", o[2]) else " key=" + unhex(o[3]).decode()),
                                     (" linked" if o[0] == "K" and o[4] == "1" else "")) for o in ops]
        rep = dict(cfgcase=case, program=pretty, store="child" if cf[0] == "1" else "store", impl=i, model=m)
        if fi == ["E"]:
            c.violation("C20:validator-failed", "configuring / probing the store panicked: %s" % pretty, rep)
            continue
        pub, pos = read_list(fi, 0)
        maps, pos = read_list(fi, pos)
        bits = "" if fi[pos] == "-" else fi[pos]
        pubs, mapss = set(pub), set(maps)
        bad = False
        for x, b in zip(probes, bits):
            want = is_public(x, pubs, mapss)
            if want == (b == "1"):
                continue
            base = x.split(DOT)[0]
            rep2 = dict(rep, probe=x.decode(), public=sorted(y.decode() for y in pub), map_symbols=sorted(y.decode() for y in maps))
            if DOT in x and base in mapss and x not in pubs:
                c.violation("C20:map-element-differs-from-map",
                            "IsPublicSymbol(%r) = %s although the map symbol %r %s public (store configured by %s): an element of a map "
                            "symbol must be public exactly when the map - by NAME - is" %
                            (x.decode(), b == "1", base.decode(), "is" if base in pubs else "is not", " ".join(pretty)), rep2)
            else:
                c.violation("C20:is-public-symbol", "IsPublicSymbol(%r) = %s, but the store lists %s as public and has the map symbols %s (configured by %s)" %
                            (x.decode(), b == "1", sorted(y.decode() for y in pub), sorted(y.decode() for y in maps), " ".join(pretty)), rep2)
            bad = True
            break
        if not bad and i.split() != m.split():
            disagreements.append((case, i, m, pretty))
    return len(cases), disagreements


def parse_spec(line):
    """seq_spec.txt line -> (pubs, steps); step = ('V', store, mode, text, syms) | ('K', store, name)"""
    f = line.split()
    pos = 1
    pubs = []
    for _ in range(int(f[0])):
        xs, pos = read_list(f, pos)
        pubs.append(xs)
    n = int(f[pos])
    pos += 1
    steps = []
    for _ in range(n):
        if f[pos] == "K":
            steps.append(("K", int(f[pos + 1]), unhex(f[pos + 2])))
            pos += 3
        else:
            store, mode, text = int(f[pos + 1]), f[pos + 2], unhex(f[pos + 3])
            syms, pos = read_list(f, pos + 4)
            steps.append(("V", store, mode, text, syms))
    return pubs, steps


def spec_line(pubs, steps):
    hx = lambda b: b.hex() or "-"
    out = [str(len(pubs))]
    for p in pubs:
        out += [str(len(p))] + [hx(x) for x in p]
    out.append(str(len(steps)))
    for st in steps:
        if st[0] == "K":
            out += ["K", str(st[1]), hx(st[2])]
        else:
            out += ["V", str(st[1]), st[2], hx(st[3]), str(len(st[4]))] + [hx(x) for x in st[4]]
    return " ".join(out)


def pretty_history(steps):
    out = []
    for st in steps:
        if st[0] == "K":
            out.append("store%d.MakeSymbolPublic(%s)" % (st[1], st[2].decode("utf-8", "replace")))
        else:
            out.append("validate[%s]@store%d  %s" % ("typed" if st[2] == "Y" else "untyped", st[1], st[3].decode("utf-8", "replace")))
    return out


def seq_verdicts(fi):
    """seq_impl.txt fields -> list of verdicts (lists)"""
    n, pos, out = int(fi[0]), 1, []
    for _ in range(n):
        if fi[pos] == "R":
            out.append(fi[pos:pos + 2])
            pos += 2
        else:
            out.append([fi[pos]])
            pos += 1
    return out


def seq_judge(step, iverdict, intendeds, mapss):
    """the property's oracle for ONE step of a history, from the identifiers of that step's text:
    None | (key, nonpublic, what)"""
    text, syms = step[3], step[4]
    nonpublic = [x for x in syms if not is_public(x, intendeds, mapss)]
    if iverdict == ["E"]:
        return "C20:validator-failed", nonpublic, "validation / traversal of %r failed (panic or foreign error)" % text
    if nonpublic and iverdict == ["A"]:
        return "C20:accepts-nonpublic", nonpublic, "validation accepts %r although %s is not public" % (
            text, sorted(set(x.decode() for x in nonpublic)))
    if not nonpublic and iverdict != ["A"]:
        return "C20:rejects-public", nonpublic, "validation rejects %r (%s) although every referenced symbol is public" % (
            text, unhex(iverdict[1]) if len(iverdict) > 1 else "?")
    if nonpublic and iverdict[0] == "R" and unhex(iverdict[1]) not in set(nonpublic):
        return "C20:names-wrong-symbol", nonpublic, "validation of %r rejects naming %r, which is not a non-public symbol of the query %s" % (
            text, unhex(iverdict[1]), sorted(set(x.decode() for x in nonpublic)))
    return None


def seq_rerun(c, harness, pubs, steps, tag):
    """run one history in a fresh process; -> (verdicts, intended sets per V step) or None"""
    d = os.path.join(c.work, "seq_" + tag)
    os.makedirs(d, exist_ok=True)
    for name in ("seq_spec.txt", "seq_impl.txt", "seq_oracle.txt"):
        pth = os.path.join(d, name)
        if os.path.exists(pth):
            os.remove(pth)
    rin = os.path.join(d, "in.txt")
    with open(rin, "w") as f:
        f.write(spec_line(pubs, steps) + "\n")
    rc, _ = vlib.run([harness, "c20", "--out", d, "--replayseq", rin], timeout=120)
    if rc != 0:
        return None
    impl = vlib.read_lines(os.path.join(d, "seq_impl.txt"))
    orc = vlib.read_lines(os.path.join(d, "seq_oracle.txt"))
    if len(impl) != 1 or len(orc) != 1:
        return None
    fo = orc[0].split()
    pos, intended = 1, []
    for _ in range(int(fo[0])):
        xs, pos = read_list(fo, pos)
        intended.append(set(xs))
    return seq_verdicts(impl[0].split()), intended


def seq_shrink(c, harness, pubs, steps, key, mapss, budget=24):
    """drop steps before the last one while the last step still violates with the same key (fresh process each)"""
    def still(cand):
        r = seq_rerun(c, harness, pubs, cand, "shrink")
        if r is None:
            return False
        verdicts, intended = r
        nv = [s for s in cand if s[0] == "V"]
        if len(verdicts) != len(nv):
            return False
        j = seq_judge(nv[-1], verdicts[-1], intended[-1], mapss)
        return j is not None and j[0] == key
    if not still(steps):
        return steps, False      # does not reproduce in a fresh process: keep the history as observed
    cur = list(steps)
    changed = True
    while changed and budget > 0:
        changed = False
        for k in range(len(cur) - 1):
            budget -= 1
            cand = cur[:k] + cur[k + 1:]
            if still(cand):
                cur, changed = cand, True
                break
            if budget <= 0:
                break
    return cur, True


def check_seq(c, model, harness):
    """histories of validations: every verdict judged on its own; model = gen_validate_seq"""
    spec_path = os.path.join(c.work, "seq_spec.txt")
    if not os.path.exists(spec_path):
        return 0, 0, [], {}
    specs = vlib.read_lines(spec_path)
    if not specs:
        return 0, 0, [], {}
    impl = vlib.read_lines(os.path.join(c.work, "seq_impl.txt"))
    orc = vlib.read_lines(os.path.join(c.work, "seq_oracle.txt"))
    cases_path = os.path.join(c.work, "seq_cases.txt")
    modl = vlib.run_model(model, "seq", cases_path, os.path.join(c.work, "seq_model.txt"))
    assert len(specs) == len(impl) == len(orc) == len(modl), (len(specs), len(impl), len(orc), len(modl))
    case_lines = vlib.read_lines(cases_path)
    disagreements = []
    steps_total = 0
    info = dict(histories=len(specs), verdict_changes_inside_history=0, accepted_then_rejected_lookalike=0, with_make_public=0)
    reported = set()
    for spec, i, o, m, cl in zip(specs, impl, orc, modl, case_lines):
        pubs, steps = parse_spec(spec)
        vsteps = [(k, st) for k, st in enumerate(steps) if st[0] == "V"]
        verdicts = seq_verdicts(i.split())
        fo = o.split()
        pos, intended = 1, []
        for _ in range(int(fo[0])):
            xs, pos = read_list(fo, pos)
            intended.append(set(xs))
        if m.split() == ["?"]:
            disagreements.append((spec, i, m, "model could not read the history"))
            continue
        fm = m.split()
        mp, mres = 1, []
        for _ in range(int(fm[0])):
            shaped = fm[mp] == "1"
            if fm[mp + 1] == "A":
                mv, mp = ["A"], mp + 2
            else:
                mv, mp = fm[mp + 1:mp + 3], mp + 3
            mall, mp = read_list(fm, mp)
            mres.append((shaped, mv, mall))
        # the public set the real store reports at each step (what the model was given)
        cf = cl.split()
        cpos, reported_pubs, mapss = 1, [], set()
        for _ in range(int(cf[0])):
            pub, cpos = read_list(cf, cpos + 1)
            maps, cpos = read_list(cf, cpos)
            _, cpos = parse_tree(cf, cpos)
            reported_pubs.append(set(pub))
            mapss = set(maps)
        assert len(vsteps) == len(verdicts) == len(intended) == len(mres) == len(reported_pubs)
        steps_total += len(vsteps)
        if any(st[0] == "K" for st in steps):
            info["with_make_public"] += 1
        kinds = set(v[0] for v in verdicts)
        if len(kinds) > 1:
            info["verdict_changes_inside_history"] += 1
        for n, (k, st) in enumerate(vsteps):
            hist = steps[:k + 1]
            rep = dict(seqcase=spec_line(pubs, hist), history=pretty_history(hist),
                       stores=[sorted(x.decode() for x in p) for p in pubs], step=n,
                       query=st[3].decode("utf-8", "replace"), impl=" ".join(verdicts[n]), model=" ".join(mres[n][1]))
            if intended[n] != reported_pubs[n]:
                c.violation("C20:public-set-differs", "after %s the store lacks the public names %s and has %s in excess" % (
                    pretty_history(hist[:-1]), sorted(x.decode() for x in intended[n] - reported_pubs[n]),
                    sorted(x.decode() for x in reported_pubs[n] - intended[n])), rep)
                break
            j = seq_judge(st, verdicts[n], intended[n], mapss)
            if j is not None:
                key, nonpublic, what = j
                if key in reported:
                    break
                reported.add(key)
                alone = seq_rerun(c, harness, pubs, [s for s in hist[:-1] if s[0] == "K" and s[1] == st[1]] + [st], "alone")
                alone_raw = alone[0][-1] if alone and alone[0] else ["?"]
                alone_v = "accepted" if alone_raw == ["A"] else ("rejected naming %r" % unhex(alone_raw[1]).decode("utf-8", "replace")
                                                                if len(alone_raw) > 1 else " ".join(alone_raw))
                dropped = [x for x in nonpublic if x not in set(mres[n][2])]
                if key == "C20:accepts-nonpublic" and nonpublic and set(dropped) == set(nonpublic) and st[2] == "Y":
                    key = "C20:symbol-dropped-by-typer"
                    what += ": the typed query no longer contains the symbol"
                small, reproduced = seq_shrink(c, harness, pubs, hist, j[0], mapss) if len(hist) > 1 else (hist, True)
                rep = dict(rep, seqcase=spec_line(pubs, small), history=pretty_history(small), observed_history=pretty_history(hist),
                           verdict_of_the_query_validated_alone=alone_v, reproduced_in_fresh_process=reproduced)
                if len(small) > 1 and alone_raw != verdicts[n]:
                    what += (" - AFTER the history %s on store%d with public names %s; validated alone on a fresh store the same query "
                             "is %s: the verdict depends on what was validated before (validation must be a function of the query "
                             "and the store's public symbols)" % (pretty_history(small[:-1]), st[1],
                                                                 sorted(x.decode() for x in intended[n]), alone_v))
                else:
                    what += " (history: %s)" % pretty_history(small)
                c.violation(key, what, rep)
                break
            if not mres[n][0]:
                disagreements.append((spec, i, m, "a tree of the history does not have the shape the generated table describes"))
                break
            if verdicts[n] != mres[n][1]:
                disagreements.append((spec, i, m, "verdict of step %d of a history differs from the model's (the step validated on its own)" % n))
                break
            if n > 0 and verdicts[n] == ["R"] + verdicts[n][1:] and verdicts[n - 1] == ["A"] and vsteps[n - 1][1][1] == st[1]:
                info["accepted_then_rejected_lookalike"] += 1
    return len(specs), steps_total, disagreements, info


def main(argv):
    c = vlib.Check(PID, argv)
    c.cov["trusted_base"] = [
        "Coq 8.16.1 kernel (coqc; coqchk in the thorough tier); vm_compute for the finite obligation generated_table_complete "
        "(a forallb over the 53 generated kind descriptions) and in Examples; no axioms",
        "translators/asttable (go/packages + go/types): correct reading of struct fields, Accept bodies and of boltz/validate.go; "
        "statements it does not understand become AUnknown / k_unsupported and fail the obligation",
        "generic model Ast/Visitor.v (what a table-following visitor sees; IsPublicSymbol; first-error latch)",
        "model Ast/PublicCfg.v of the store configuration API (addSymbol / AddMapSymbol / MakeSymbolPublic / GrantSymbols): symbol NAMES "
        "decide, bucket keys are recorded and never read; compared with real stores on every configuration of the run",
        "model Ast/ValidateSeq.v: a history of validations is answered step by step by [validate] (nothing carried from call to call); real "
        "stores live through the same histories (c20_seq.go) and every verdict is judged on its own",
        "the explicit exclusion list gen_aliases (AllOf/AnyOfSetExprNode.name, AnyOfSetExprNode.seekablePredicate): part of `shaped`, "
        "evaluated by the extracted model on every real tree of the run",
        "extraction (ExtrOcamlBasic only) + extraction/c20_driver.ml + drv_common.ml",
        "Go harness cmd/storageharness/c20.go (query generator, reflection dump of real trees, recording visitor / ast.Symbols) and this comparison",
        "ANTLR parser and the typer (ast.Parse) produce the trees; they are observed, not modelled",
    ]
    c.assumptions = [
        "the query handed to ValidateSymbolsArePublic is a tree of node kinds of package ast (the table is regenerated from that package); "
        "a Query implemented outside the package is not covered",
        "symbols dropped by the typer before validation are outside the theorem (all_syms ranges over the validated tree); the harness "
        "compares the validated tree's symbols with the identifiers of the query text to find such drops",
    ]
    proof_ok = c.proof_step(FILES, translators=["asttable"])
    try:
        model = vlib.build_model("C20")
    except RuntimeError as e:
        c.violation("C20:model-build", "extracted model does not build: " + str(e)[-800:],
                    dict(correspondence="model build", log=str(e)[-3000:]), no_input=True)
        return c.finish()
    harness, err = vlib.build_harness()
    if harness is None:
        c.violation("C20:harness-build", "harness does not build against the repository: " + err[-800:],
                    dict(correspondence="harness build", log=err[-3000:]), no_input=True)
        return c.finish()

    table = model_table(model)
    # generated-table obligations of this run: one kind_ok per regenerated kind description (the conjuncts of
    # generated_table_complete), counted from the table the extracted model was built with
    c.cov["obligations"] += len(table["kinds"])
    if proof_ok and table["complete"]:
        c.cov["discharged"] += len(table["kinds"])
    else:
        broken_kinds = set(g[0] for g in table["gaps"])
        c.cov["discharged"] += len([k for k in table["kinds"] if k not in broken_kinds]) if table["gaps"] else 0
    cases_path = os.path.join(c.work, "cases.txt")
    if c.replay:
        rp = json.load(open(c.replay))
        if "case" not in rp and "cfgcase" not in rp and "seqcase" not in rp:
            vlib.log("REPLAY: %s names a proof obligation / correspondence, not an input: %s" % (c.replay, rp.get("what", "")))
            vlib.log("  table complete=%s validator=%s gaps=%s" % (table["complete"], table["validator"], table["gaps"]))
            return c.finish()
        rin = os.path.join(c.work, "replay_in.txt")
        with open(rin, "w") as f:
            f.write(rp.get("seqcase", rp.get("cfgcase", rp.get("case"))) + "\n")
        args = [harness, "c20", "--out", c.work,
                "--replayseq" if "seqcase" in rp else "--replaycfg" if "cfgcase" in rp else "--replaycase", rin]
    else:
        args = [harness, "c20", "--seed", str(c.seed), "--tier", c.tier, "--out", c.work]
    rc, out = vlib.run(args, timeout=1800)
    if rc != 0:
        c.violation("C20:harness-run", "harness failed rc=%s: %s" % (rc, out[-500:]),
                    dict(correspondence="harness run", log=out[-3000:]), no_input=True)
        return c.finish()
    cases = vlib.read_lines(cases_path)
    impl = vlib.read_lines(os.path.join(c.work, "impl.txt"))
    oracle = vlib.read_lines(os.path.join(c.work, "oracle.txt"))
    modl = vlib.run_model(model, "c20", cases_path, os.path.join(c.work, "model.txt"))
    assert len(cases) == len(impl) == len(modl) == len(oracle), (len(cases), len(impl), len(modl), len(oracle))

    try:
        sym_keys = json.load(open(os.path.join(c.work, "stats.json"))).get("symbol_keys", {})
    except Exception:
        sym_keys = {}
    distinct = set()
    disagreements = []
    nontrivial_rule_hits = 0
    searched = {}     # gap -> [cases placing a lone non-public symbol there, of which accepted]
    gaps = [g for g in table["gaps"]]
    for case, i, m, orc in zip(cases, impl, modl, oracle):
        cf, fi, fm, fo = case.split(), i.split(), m.split(), orc.split()
        mode = cf[0]
        pub, pos = read_list(cf, 1)
        maps, pos = read_list(cf, pos)
        tree_pos = pos
        pubs, mapss = set(pub), set(maps)
        text = unhex(fo[1])
        text_syms, p2 = read_list(fo, 2)
        evaluated, p3 = read_list(fo, p2)
        intended, _ = read_list(fo, p3)
        intendeds = set(intended)
        replay_case = "%s %d %s %d %s" % (fo[1], len(text_syms), " ".join(x.hex() or "-" for x in text_syms),
                                          len(pub), " ".join(x.hex() or "-" for x in pub))
        replay_case = " ".join(replay_case.split())
        rep = dict(case=replay_case, query=text.decode("utf-8", "replace"), tree=mode,
                   public=sorted(x.decode() for x in pub), map_symbols=sorted(x.decode() for x in maps), impl=i, model=m)
        if fm == ["?"]:
            disagreements.append((case, i, m, "model could not read the case"))
            continue
        # impl: <nvis> {hex} verdict
        ivis, ip = read_list(fi, 0)
        iverdict = fi[ip:]
        # model: shaped <nvis> {hex} verdict <nall> {hex}
        shaped = fm[0] == "1"
        mvis, mp = read_list(fm, 1)
        if fm[mp] == "A":
            mverdict, mp = ["A"], mp + 1
        else:
            mverdict, mp = fm[mp:mp + 2], mp + 2
        mall, _ = read_list(fm, mp)

        # ---- the property's own oracle, from the identifiers of the query text
        # (from the public NAMES the harness asked the configuration API for - not from what the store reports)
        if intendeds != pubs:
            c.violation("C20:public-set-differs", "the store was configured (AddSymbol[WithKey] / AddFkSymbol[WithKey] / AddMapSymbol / MakeSymbolPublic) "
                        "to have exactly the public symbol NAMES asked for, but GetPublicSymbols lacks %s and has %s in excess%s" %
                        (sorted(x.decode() for x in intendeds - pubs), sorted(x.decode() for x in pubs - intendeds),
                         key_hint(intendeds ^ pubs, sym_keys, pubs)), rep)
            continue
        nonpublic = [x for x in text_syms if not is_public(x, intendeds, mapss)]
        if nonpublic:
            nontrivial_rule_hits += 1
            distinct.add((fo[1], tuple(sorted(set(nonpublic)))))
        if iverdict == ["E"]:
            c.violation("C20:validator-failed", "validation / traversal of %r failed (panic or foreign error)" % text, rep)
            continue
        if nonpublic and iverdict == ["A"]:
            dropped = [x for x in nonpublic if x not in set(mall)]
            if set(dropped) == set(nonpublic) and mode == "Y":
                c.violation("C20:symbol-dropped-by-typer",
                            "validation accepts %r although %s is not public: the typed query no longer contains the symbol (the typer "
                            "dropped the sub-tree before validation)" % (text, sorted(set(x.decode() for x in dropped))), rep)
            else:
                c.violation("C20:accepts-nonpublic", "validation accepts %r although %s is not public%s" %
                            (text, sorted(set(x.decode() for x in nonpublic)), key_hint(nonpublic, sym_keys, pubs)), rep)
            continue
        if not nonpublic and iverdict != ["A"]:
            c.violation("C20:rejects-public", "validation rejects %r (%s) although every referenced symbol is public%s" %
                        (text, unhex(iverdict[1]) if len(iverdict) > 1 else "?",
                         key_hint([unhex(iverdict[1])] if len(iverdict) > 1 else [], sym_keys, pubs)), rep)
            continue
        if nonpublic and iverdict[0] == "R" and unhex(iverdict[1]) not in set(nonpublic):
            c.violation("C20:names-wrong-symbol", "validation of %r rejects naming %r, which is not a non-public symbol of the query %s" %
                        (text, unhex(iverdict[1]), sorted(set(x.decode() for x in nonpublic))), rep)
            continue
        # ---- independent dynamic oracle: every name the evaluator asks for was visited
        if mode == "Y":
            missed = [x for x in evaluated if x not in set(ivis)]
            if missed:
                witness = [x for x in missed if not is_public(x, pubs, mapss)]
                c.violation("C20:evaluated-not-visited",
                            "evaluating %r asks the row for %s, which no VisitSymbol call announced%s" %
                            (text, sorted(x.decode() for x in missed),
                             " (and which is not public under this assignment)" if witness else ""), rep)
                continue
        # ---- model vs implementation on the same tree
        if not shaped:
            disagreements.append((case, i, m, "the real tree does not have the shape the generated table describes "
                                              "(fields differ, or an excluded field is not a duplicate)"))
        elif ivis != mvis:
            disagreements.append((case, i, m, "sequence of VisitSymbol arguments differs"))
        elif iverdict != mverdict:
            disagreements.append((case, i, m, "verdict differs"))
        # ---- targeted search material for broken table obligations
        if gaps and mode == "Y" and len(set(nonpublic)) == 1:
            tree, _ = parse_tree(cf, tree_pos)
            for g in gaps:
                under = symbols_under_field(tree, g[0], g[1], set())
                if nonpublic[0] in under:
                    s = searched.setdefault(g, [0, 0])
                    s[0] += 1

    n_cfg, cfg_disagreements = check_cfg(c, model, harness, sym_keys)
    n_seq, n_seq_steps, seq_disagreements, seq_info = check_seq(c, model, harness)
    disagreements += [(spec[:3000], i, m, why) for spec, i, m, why in seq_disagreements]
    if c.replay:
        for name in ("cfg_cases.txt", "cfg_impl.txt", "cfg_model.txt", "seq_spec.txt", "seq_impl.txt", "seq_model.txt"):
            pth = os.path.join(c.work, name)
            if os.path.exists(pth) and vlib.read_lines(pth):
                vlib.log("REPLAY %s: %s" % (name, vlib.read_lines(pth)[0][:600]))
        for case, i, m in zip(cases, impl, modl):
            vlib.log("REPLAY case=%s\n  impl =%s\n  model=%s" % (case[:400], i, m))
    c.cov["evaluations"] = len(cases) + n_cfg + n_seq_steps
    c.cov["store_configurations"] = n_cfg
    c.cov["validation_histories"] = dict(seq_info, steps=n_seq_steps)
    c.cov["distinct_nontrivial"] = len(distinct)
    c.cov["disagreements_checked"] = len(disagreements) + len(cfg_disagreements)
    c.cov["rule"] = ("every lhs shape (each scalar type, map element, linked composite, anyOf/allOf/count over each set kind) x every "
                     "operator/literal template of the grammar's `operation` rule, also inside sub-queries; boolean forms, isEmpty, sort/skip/"
                     "limit; seeded random compositions (and/or/not/groups/sub-queries/sort). Each query under: all public, each referenced "
                     "symbol (and map base) alone non-public, dotted name published without its base, nothing public, random sets. Typed (Y) "
                     "and untyped (U) tree of each. Non-trivial: at least one referenced symbol non-public; distinct by (query text, set of "
                     "non-public referenced symbols). Store symbols include maps / scalars / fks whose bucket key differs from their name and equals "
                     "other symbols' names; for those also: symbol alone public, symbol vs the symbol named like its key public/non-public "
                     "independently. Plus store configurations (programs of API calls incl. MakeSymbolPublic order, GrantSymbols; hand-written "
                     "+ random over a 5-name pool) observed through GetPublicSymbols / registered map names / IsPublicSymbol on probe names. "
                     "Plus HISTORIES: stores that live through sequences of validations - ordered pairs / triples of look-alike queries (same "
                     "String() rendering of the typed query, same text without quotes, same skeleton, same shape, a query and one containing it) "
                     "under public sets on which the two verdicts differ, both orders, one and two stores, typed and untyped, and random "
                     "sequences with repeats and MakeSymbolPublic in between; every verdict judged on its own")
    mid = len(cases) // 2
    c.cov["samples"] = [dict(case=cases[k][:600], impl=impl[k], model=modl[k][:300], oracle=oracle[k][:300])
                        for k in sorted(set((0, min(1, len(cases) - 1), mid, len(cases) - 1))) if cases]
    try:
        st = json.load(open(os.path.join(c.work, "stats.json")))
        st["kinds_in_table"] = len(table["kinds"])
        st["kinds_exercised"] = len([k for k in table["kinds"] if st.get("kinds", {}).get(k)])
        st["kinds_never_built_by_the_parser"] = [k for k in table["kinds"] if not st.get("kinds", {}).get(k)]
        st["cases_with_nonpublic_reference"] = nontrivial_rule_hits
        c.cov["input_distribution"] = st
    except Exception:
        pass
    c.cov["generated_table"] = dict(complete=table["complete"], validator_ok=table["validator"], gaps=["%s.%s: %s" % g for g in gaps])

    if disagreements and not c.violations:
        case, i, m, why = disagreements[0]
        c.violation("C20:correspondence", "model Ast/Visitor.v over the generated table and the real visitor differ on %d cases (%s), e.g. impl %s model %s"
                    % (len(disagreements), why, i[:200], m[:200]),
                    dict(correspondence="Ast/Visitor.v (visit, validate, shaped) over Gen/GenAstTable.v vs ast.*.Accept / boltz.ValidateSymbolsArePublic",
                         theorems=["visit_covers_all_symbols", "validator_iff_all_public"], why=why, case_line=case[:3000], impl=i, model=m), no_input=True)
    if cfg_disagreements and not c.violations:
        case, i, m, pretty = cfg_disagreements[0]
        c.violation("C20:store-config-correspondence",
                    "model Ast/PublicCfg.v and the real store differ on %d store configurations (public names / registered map names / "
                    "IsPublicSymbol of the probes), e.g. %s: impl %s model %s" % (len(cfg_disagreements), " ".join(pretty), i[:300], m[:300]),
                    dict(correspondence="Ast/PublicCfg.v (cfg_run, cs_is_public) vs boltz BaseStore addSymbol / AddMapSymbol / MakeSymbolPublic / "
                                        "GrantSymbols / IsPublicSymbol", theorems=["cfg_public_is_by_name", "cfg_map_element_public"],
                         cfgcase=case, program=pretty, impl=i, model=m), no_input=True)
    if not proof_ok or table["complete"] is False or table["validator"] is False:
        # a proof obligation broke.  The run above IS the targeted search (every (kind, field) the parser can build is
        # covered with a lone non-public symbol below it); a concrete failing input has been reported above if one exists.
        if not c.violations:
            what = []
            for g in gaps:
                n = searched.get(g, [0, 0])[0]
                what.append("%s.%s (%s): %d queries placed a lone non-public symbol there, all were rejected" % (g[0], g[1], g[2], n))
            if table["validator"] is False:
                what.append("the validating visitor of boltz/validate.go is no longer the one modelled (see Gen/GenAstTable.v `validator`)")
            c.violation("C20:proof", "proof obligation no longer checks: %s ; %s" %
                        ("; ".join(what) or "see log", json.dumps(getattr(c, "proof_broken", None))[:500]),
                        dict(broken=getattr(c, "proof_broken", None), theorem="generated_table_complete",
                             obligations=["%s.%s: %s" % g for g in gaps], searched={("%s.%s" % g[:2]): v[0] for g, v in searched.items()}),
                        no_input=True)
    return c.finish()
