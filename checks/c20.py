"""C20 - public-symbol validation sees every symbol a query references.

Proof: coq/theories/Properties/C20.v over the generic table-driven visitor model Ast/Visitor.v;
the table of package ast (Gen/GenAstTable.v) is REGENERATED FROM THE GO SOURCE by
translators/asttable on every run and `generated_table_complete` is re-checked against it.

Correspondence: harness c20 parses generated queries with the real parser/typer, dumps the real
trees by reflection and compares (a) the sequence of VisitSymbol calls of a real visitor and the
verdict of the real boltz.ValidateSymbolsArePublic with the extracted model on the same tree,
(b) the verdict with the property's own oracle computed from the identifiers the generator wrote
into the query text, (c) the names the real EVALUATOR asks for with the names that were visited.

When the regenerated table breaks `generated_table_complete` for (kind K, field F), the run's
cases whose real tree holds a symbol under F of a K node are used as the targeted search: the
real validator must still reject when exactly that symbol is non-public.

Public-ness is a matter of symbol NAMES (what a query writes), never of the bucket KEY a symbol is
stored under.  The harness' stores have symbols whose key differs from their name and coincides
with the name of other symbols; the text oracle works from the public NAMES the harness asked for
(not from what the store reports back), and every store configuration (a program of API calls,
cfg_cases.txt) is also (d) run through the Coq model Ast/PublicCfg.v (GetPublicSymbols, registered
map names, IsPublicSymbol on probe names) and (e) judged directly: IsPublicSymbol of an element of a
registered map symbol must equal IsPublicSymbol of the map's name."""
import json
import os

import vlib

PID = "C20"
FILES = ["theories/Properties/C20.v", "theories/Examples/C20Examples.v", "theories/Examples/C20CfgExamples.v"]
DOT = b"."


def unhex(h):
    return b"" if h == "-" else bytes.fromhex(h)


def read_list(f, pos):
    n = int(f[pos])
    return [unhex(x) for x in f[pos + 1:pos + 1 + n]], pos + 1 + n


def is_public(x, pub, maps):
    """the property's reading of 'public': listed, or an element of a public map symbol"""
    if x in pub:
        return True
    if DOT in x:
        base = x.split(DOT)[0]
        return base in maps and base in pub
    return False


class Tree:
    __slots__ = ("kind", "strs", "kids")

    def __init__(self, kind, strs, kids):
        self.kind, self.strs, self.kids = kind, strs, kids


def parse_tree(f, pos):
    assert f[pos] == "T", f[pos]
    kind = f[pos + 1]
    ns = int(f[pos + 2])
    pos += 3
    strs = []
    for _ in range(ns):
        strs.append((f[pos], unhex(f[pos + 1])))
        pos += 2
    nk = int(f[pos])
    pos += 1
    kids = []
    for _ in range(nk):
        name, n = f[pos], int(f[pos + 1])
        pos += 2
        ts = []
        for _ in range(n):
            t, pos = parse_tree(f, pos)
            ts.append(t)
        kids.append((name, ts))
    return Tree(kind, strs, kids), pos


def strings_under(t, acc):
    """every string field value anywhere in t (an over-approximation of the symbols below t)"""
    for _, v in t.strs:
        acc.add(v)
    for _, ts in t.kids:
        for k in ts:
            strings_under(k, acc)
    return acc


def symbols_under_field(t, kind, field, acc):
    """string values held in / below field `field` of every node of kind `kind` in t"""
    if t.kind == kind:
        for name, v in t.strs:
            if name == field:
                acc.add(v)
        for name, ts in t.kids:
            if name == field:
                for k in ts:
                    strings_under(k, acc)
    for _, ts in t.kids:
        for k in ts:
            symbols_under_field(k, kind, field, acc)
    return acc


def model_table(model):
    rc, out = vlib.run([model, "table"], timeout=120)
    info = dict(complete=None, validator=None, gaps=[], kinds=[])
    if rc != 0:
        return info
    for line in out.split("\n"):
        f = line.split()
        if not f:
            continue
        if f[0] == "complete":
            info["complete"] = f[1] == "1"
        elif f[0] == "validator":
            info["validator"] = f[1] == "1"
        elif f[0] == "gap":
            info["gaps"].append((f[1], unhex(f[2]).decode("utf-8", "replace"), f[3]))
        elif f[0] == "kind":
            info["kinds"].append(f[1])
    return info


def key_hint(names, sym_keys, pubs):
    """say so when a symbol involved is stored under a key that differs from its name"""
    out = []
    for x in names:
        base = x.split(DOT)[0].decode("utf-8", "replace")
        key = sym_keys.get(base)
        if key:
            h = "symbol %r is stored under key %r" % (base, key)
            if h not in " ".join(out):
                h += " (%r %s a public name here)" % (key, "is" if key.encode() in pubs else "is not")
                out.append(h)
    return (" [" + "; ".join(out) + " - public-ness goes by NAME]") if out else ""


def check_cfg(c, model, harness, sym_keys):
    """store configurations: model Ast/PublicCfg.v vs the real store, and the map-element rule on the real store alone"""
    cfg_path = os.path.join(c.work, "cfg_cases.txt")
    if not os.path.exists(cfg_path):
        return 0, []
    cases = vlib.read_lines(cfg_path)
    impl = vlib.read_lines(os.path.join(c.work, "cfg_impl.txt"))
    modl = vlib.run_model(model, "cfg", cfg_path, os.path.join(c.work, "cfg_model.txt"))
    assert len(cases) == len(impl) == len(modl), (len(cases), len(impl), len(modl))
    disagreements = []
    for case, i, m in zip(cases, impl, modl):
        cf, fi = case.split(), i.split()
        nops = int(cf[1])
        ops = [cf[2 + 5 * k: 7 + 5 * k] for k in range(nops)]
        probes, _ = read_list(cf, 2 + 5 * nops)
        pretty = ["%s%s(%s%s%s)" % (o[0], "" if o[1] == "0" else "@child", unhex(o[2]).decode(),
                                     ("" if o[3] in ("-", o[2]) else " key=" + unhex(o[3]).decode()),
                                     (" linked" if o[0] == "K" and o[4] == "1" else "")) for o in ops]
        rep = dict(cfgcase=case, program=pretty, store="child" if cf[0] == "1" else "store", impl=i, model=m)
        if fi == ["E"]:
            c.violation("C20:validator-failed", "configuring / probing the store panicked: %s" % pretty, rep)
            continue
        pub, pos = read_list(fi, 0)
        maps, pos = read_list(fi, pos)
        bits = "" if fi[pos] == "-" else fi[pos]
        pubs, mapss = set(pub), set(maps)
        bad = False
        for x, b in zip(probes, bits):
            want = is_public(x, pubs, mapss)
            if want == (b == "1"):
                continue
            base = x.split(DOT)[0]
            rep2 = dict(rep, probe=x.decode(), public=sorted(y.decode() for y in pub), map_symbols=sorted(y.decode() for y in maps))
            if DOT in x and base in mapss and x not in pubs:
                c.violation("C20:map-element-differs-from-map",
                            "IsPublicSymbol(%r) = %s although the map symbol %r %s public (store configured by %s): an element of a map "
                            "symbol must be public exactly when the map - by NAME - is" %
                            (x.decode(), b == "1", base.decode(), "is" if base in pubs else "is not", " ".join(pretty)), rep2)
            else:
                c.violation("C20:is-public-symbol", "IsPublicSymbol(%r) = %s, but the store lists %s as public and has the map symbols %s (configured by %s)" %
                            (x.decode(), b == "1", sorted(y.decode() for y in pub), sorted(y.decode() for y in maps), " ".join(pretty)), rep2)
            bad = True
            break
        if not bad and i.split() != m.split():
            disagreements.append((case, i, m, pretty))
    return len(cases), disagreements


def main(argv):
    c = vlib.Check(PID, argv)
    c.cov["trusted_base"] = [
        "Coq 8.16.1 kernel (coqc; coqchk in the thorough tier); vm_compute for the finite obligation generated_table_complete "
        "(a forallb over the 53 generated kind descriptions) and in Examples; no axioms",
        "translators/asttable (go/packages + go/types): correct reading of struct fields, Accept bodies and of boltz/validate.go; "
        "statements it does not understand become AUnknown / k_unsupported and fail the obligation",
        "generic model Ast/Visitor.v (what a table-following visitor sees; IsPublicSymbol; first-error latch)",
        "model Ast/PublicCfg.v of the store configuration API (addSymbol / AddMapSymbol / MakeSymbolPublic / GrantSymbols): symbol NAMES "
        "decide, bucket keys are recorded and never read; compared with real stores on every configuration of the run",
        "the explicit exclusion list gen_aliases (AllOf/AnyOfSetExprNode.name, AnyOfSetExprNode.seekablePredicate): part of `shaped`, "
        "evaluated by the extracted model on every real tree of the run",
        "extraction (ExtrOcamlBasic only) + extraction/c20_driver.ml + drv_common.ml",
        "Go harness cmd/storageharness/c20.go (query generator, reflection dump of real trees, recording visitor / ast.Symbols) and this comparison",
        "ANTLR parser and the typer (ast.Parse) produce the trees; they are observed, not modelled",
    ]
    c.assumptions = [
        "the query handed to ValidateSymbolsArePublic is a tree of node kinds of package ast (the table is regenerated from that package); "
        "a Query implemented outside the package is not covered",
        "symbols dropped by the typer before validation are outside the theorem (all_syms ranges over the validated tree); the harness "
        "compares the validated tree's symbols with the identifiers of the query text to find such drops",
    ]
    proof_ok = c.proof_step(FILES, translators=["asttable"])
    try:
        model = vlib.build_model("C20")
    except RuntimeError as e:
        c.violation("C20:model-build", "extracted model does not build: " + str(e)[-800:],
                    dict(correspondence="model build", log=str(e)[-3000:]), no_input=True)
        return c.finish()
    harness, err = vlib.build_harness()
    if harness is None:
        c.violation("C20:harness-build", "harness does not build against the repository: " + err[-800:],
                    dict(correspondence="harness build", log=err[-3000:]), no_input=True)
        return c.finish()

    table = model_table(model)
    # generated-table obligations of this run: one kind_ok per regenerated kind description (the conjuncts of
    # generated_table_complete), counted from the table the extracted model was built with
    c.cov["obligations"] += len(table["kinds"])
    if proof_ok and table["complete"]:
        c.cov["discharged"] += len(table["kinds"])
    else:
        broken_kinds = set(g[0] for g in table["gaps"])
        c.cov["discharged"] += len([k for k in table["kinds"] if k not in broken_kinds]) if table["gaps"] else 0
    cases_path = os.path.join(c.work, "cases.txt")
    if c.replay:
        rp = json.load(open(c.replay))
        if "case" not in rp and "cfgcase" not in rp:
            vlib.log("REPLAY: %s names a proof obligation / correspondence, not an input: %s" % (c.replay, rp.get("what", "")))
            vlib.log("  table complete=%s validator=%s gaps=%s" % (table["complete"], table["validator"], table["gaps"]))
            return c.finish()
        rin = os.path.join(c.work, "replay_in.txt")
        with open(rin, "w") as f:
            f.write(rp.get("cfgcase", rp.get("case")) + "\n")
        args = [harness, "c20", "--out", c.work, "--replaycfg" if "cfgcase" in rp else "--replaycase", rin]
    else:
        args = [harness, "c20", "--seed", str(c.seed), "--tier", c.tier, "--out", c.work]
    rc, out = vlib.run(args, timeout=1800)
    if rc != 0:
        c.violation("C20:harness-run", "harness failed rc=%s: %s" % (rc, out[-500:]),
                    dict(correspondence="harness run", log=out[-3000:]), no_input=True)
        return c.finish()
    cases = vlib.read_lines(cases_path)
    impl = vlib.read_lines(os.path.join(c.work, "impl.txt"))
    oracle = vlib.read_lines(os.path.join(c.work, "oracle.txt"))
    modl = vlib.run_model(model, "c20", cases_path, os.path.join(c.work, "model.txt"))
    assert len(cases) == len(impl) == len(modl) == len(oracle), (len(cases), len(impl), len(modl), len(oracle))

    try:
        sym_keys = json.load(open(os.path.join(c.work, "stats.json"))).get("symbol_keys", {})
    except Exception:
        sym_keys = {}
    distinct = set()
    disagreements = []
    nontrivial_rule_hits = 0
    searched = {}     # gap -> [cases placing a lone non-public symbol there, of which accepted]
    gaps = [g for g in table["gaps"]]
    for case, i, m, orc in zip(cases, impl, modl, oracle):
        cf, fi, fm, fo = case.split(), i.split(), m.split(), orc.split()
        mode = cf[0]
        pub, pos = read_list(cf, 1)
        maps, pos = read_list(cf, pos)
        tree_pos = pos
        pubs, mapss = set(pub), set(maps)
        text = unhex(fo[1])
        text_syms, p2 = read_list(fo, 2)
        evaluated, p3 = read_list(fo, p2)
        intended, _ = read_list(fo, p3)
        intendeds = set(intended)
        replay_case = "%s %d %s %d %s" % (fo[1], len(text_syms), " ".join(x.hex() or "-" for x in text_syms),
                                          len(pub), " ".join(x.hex() or "-" for x in pub))
        replay_case = " ".join(replay_case.split())
        rep = dict(case=replay_case, query=text.decode("utf-8", "replace"), tree=mode,
                   public=sorted(x.decode() for x in pub), map_symbols=sorted(x.decode() for x in maps), impl=i, model=m)
        if fm == ["?"]:
            disagreements.append((case, i, m, "model could not read the case"))
            continue
        # impl: <nvis> {hex} verdict
        ivis, ip = read_list(fi, 0)
        iverdict = fi[ip:]
        # model: shaped <nvis> {hex} verdict <nall> {hex}
        shaped = fm[0] == "1"
        mvis, mp = read_list(fm, 1)
        if fm[mp] == "A":
            mverdict, mp = ["A"], mp + 1
        else:
            mverdict, mp = fm[mp:mp + 2], mp + 2
        mall, _ = read_list(fm, mp)

        # ---- the property's own oracle, from the identifiers of the query text
        # (from the public NAMES the harness asked the configuration API for - not from what the store reports)
        if intendeds != pubs:
            c.violation("C20:public-set-differs", "the store was configured (AddSymbol[WithKey] / AddFkSymbol[WithKey] / AddMapSymbol / MakeSymbolPublic) "
                        "to have exactly the public symbol NAMES asked for, but GetPublicSymbols lacks %s and has %s in excess%s" %
                        (sorted(x.decode() for x in intendeds - pubs), sorted(x.decode() for x in pubs - intendeds),
                         key_hint(intendeds ^ pubs, sym_keys, pubs)), rep)
            continue
        nonpublic = [x for x in text_syms if not is_public(x, intendeds, mapss)]
        if nonpublic:
            nontrivial_rule_hits += 1
            distinct.add((fo[1], tuple(sorted(set(nonpublic)))))
        if iverdict == ["E"]:
            c.violation("C20:validator-failed", "validation / traversal of %r failed (panic or foreign error)" % text, rep)
            continue
        if nonpublic and iverdict == ["A"]:
            dropped = [x for x in nonpublic if x not in set(mall)]
            if set(dropped) == set(nonpublic) and mode == "Y":
                c.violation("C20:symbol-dropped-by-typer",
                            "validation accepts %r although %s is not public: the typed query no longer contains the symbol (the typer "
                            "dropped the sub-tree before validation)" % (text, sorted(set(x.decode() for x in dropped))), rep)
            else:
                c.violation("C20:accepts-nonpublic", "validation accepts %r although %s is not public%s" %
                            (text, sorted(set(x.decode() for x in nonpublic)), key_hint(nonpublic, sym_keys, pubs)), rep)
            continue
        if not nonpublic and iverdict != ["A"]:
            c.violation("C20:rejects-public", "validation rejects %r (%s) although every referenced symbol is public%s" %
                        (text, unhex(iverdict[1]) if len(iverdict) > 1 else "?",
                         key_hint([unhex(iverdict[1])] if len(iverdict) > 1 else [], sym_keys, pubs)), rep)
            continue
        if nonpublic and iverdict[0] == "R" and unhex(iverdict[1]) not in set(nonpublic):
            c.violation("C20:names-wrong-symbol", "validation of %r rejects naming %r, which is not a non-public symbol of the query %s" %
                        (text, unhex(iverdict[1]), sorted(set(x.decode() for x in nonpublic))), rep)
            continue
        # ---- independent dynamic oracle: every name the evaluator asks for was visited
        if mode == "Y":
            missed = [x for x in evaluated if x not in set(ivis)]
            if missed:
                witness = [x for x in missed if not is_public(x, pubs, mapss)]
                c.violation("C20:evaluated-not-visited",
                            "evaluating %r asks the row for %s, which no VisitSymbol call announced%s" %
                            (text, sorted(x.decode() for x in missed),
                             " (and which is not public under this assignment)" if witness else ""), rep)
                continue
        # ---- model vs implementation on the same tree
        if not shaped:
            disagreements.append((case, i, m, "the real tree does not have the shape the generated table describes "
                                              "(fields differ, or an excluded field is not a duplicate)"))
        elif ivis != mvis:
            disagreements.append((case, i, m, "sequence of VisitSymbol arguments differs"))
        elif iverdict != mverdict:
            disagreements.append((case, i, m, "verdict differs"))
        # ---- targeted search material for broken table obligations
        if gaps and mode == "Y" and len(set(nonpublic)) == 1:
            tree, _ = parse_tree(cf, tree_pos)
            for g in gaps:
                under = symbols_under_field(tree, g[0], g[1], set())
                if nonpublic[0] in under:
                    s = searched.setdefault(g, [0, 0])
                    s[0] += 1

    n_cfg, cfg_disagreements = check_cfg(c, model, harness, sym_keys)
    if c.replay:
        for name in ("cfg_cases.txt", "cfg_impl.txt", "cfg_model.txt"):
            pth = os.path.join(c.work, name)
            if os.path.exists(pth) and vlib.read_lines(pth):
                vlib.log("REPLAY %s: %s" % (name, vlib.read_lines(pth)[0][:600]))
        for case, i, m in zip(cases, impl, modl):
            vlib.log("REPLAY case=%s\n  impl =%s\n  model=%s" % (case[:400], i, m))
    c.cov["evaluations"] = len(cases) + n_cfg
    c.cov["store_configurations"] = n_cfg
    c.cov["distinct_nontrivial"] = len(distinct)
    c.cov["disagreements_checked"] = len(disagreements) + len(cfg_disagreements)
    c.cov["rule"] = ("every lhs shape (each scalar type, map element, linked composite, anyOf/allOf/count over each set kind) x every "
                     "operator/literal template of the grammar's `operation` rule, also inside sub-queries; boolean forms, isEmpty, sort/skip/"
                     "limit; seeded random compositions (and/or/not/groups/sub-queries/sort). Each query under: all public, each referenced "
                     "symbol (and map base) alone non-public, dotted name published without its base, nothing public, random sets. Typed (Y) "
                     "and untyped (U) tree of each. Non-trivial: at least one referenced symbol non-public; distinct by (query text, set of "
                     "non-public referenced symbols). Store symbols include maps / scalars / fks whose bucket key differs from their name and equals "
                     "other symbols' names; for those also: symbol alone public, symbol vs the symbol named like its key public/non-public "
                     "independently. Plus store configurations (programs of API calls incl. MakeSymbolPublic order, GrantSymbols; hand-written "
                     "+ random over a 5-name pool) observed through GetPublicSymbols / registered map names / IsPublicSymbol on probe names")
    mid = len(cases) // 2
    c.cov["samples"] = [dict(case=cases[k][:600], impl=impl[k], model=modl[k][:300], oracle=oracle[k][:300])
                        for k in sorted(set((0, min(1, len(cases) - 1), mid, len(cases) - 1))) if cases]
    try:
        st = json.load(open(os.path.join(c.work, "stats.json")))
        st["kinds_in_table"] = len(table["kinds"])
        st["kinds_exercised"] = len([k for k in table["kinds"] if st.get("kinds", {}).get(k)])
        st["kinds_never_built_by_the_parser"] = [k for k in table["kinds"] if not st.get("kinds", {}).get(k)]
        st["cases_with_nonpublic_reference"] = nontrivial_rule_hits
        c.cov["input_distribution"] = st
    except Exception:
        pass
    c.cov["generated_table"] = dict(complete=table["complete"], validator_ok=table["validator"], gaps=["%s.%s: %s" % g for g in gaps])

    if disagreements and not c.violations:
        case, i, m, why = disagreements[0]
        c.violation("C20:correspondence", "model Ast/Visitor.v over the generated table and the real visitor differ on %d cases (%s), e.g. impl %s model %s"
                    % (len(disagreements), why, i[:200], m[:200]),
                    dict(correspondence="Ast/Visitor.v (visit, validate, shaped) over Gen/GenAstTable.v vs ast.*.Accept / boltz.ValidateSymbolsArePublic",
                         theorems=["visit_covers_all_symbols", "validator_iff_all_public"], why=why, case_line=case[:3000], impl=i, model=m), no_input=True)
    if cfg_disagreements and not c.violations:
        case, i, m, pretty = cfg_disagreements[0]
        c.violation("C20:store-config-correspondence",
                    "model Ast/PublicCfg.v and the real store differ on %d store configurations (public names / registered map names / "
                    "IsPublicSymbol of the probes), e.g. %s: impl %s model %s" % (len(cfg_disagreements), " ".join(pretty), i[:300], m[:300]),
                    dict(correspondence="Ast/PublicCfg.v (cfg_run, cs_is_public) vs boltz BaseStore addSymbol / AddMapSymbol / MakeSymbolPublic / "
                                        "GrantSymbols / IsPublicSymbol", theorems=["cfg_public_is_by_name", "cfg_map_element_public"],
                         cfgcase=case, program=pretty, impl=i, model=m), no_input=True)
    if not proof_ok or table["complete"] is False or table["validator"] is False:
        # a proof obligation broke.  The run above IS the targeted search (every (kind, field) the parser can build is
        # covered with a lone non-public symbol below it); a concrete failing input has been reported above if one exists.
        if not c.violations:
            what = []
            for g in gaps:
                n = searched.get(g, [0, 0])[0]
                what.append("%s.%s (%s): %d queries placed a lone non-public symbol there, all were rejected" % (g[0], g[1], g[2], n))
            if table["validator"] is False:
                what.append("the validating visitor of boltz/validate.go is no longer the one modelled (see Gen/GenAstTable.v `validator`)")
            c.violation("C20:proof", "proof obligation no longer checks: %s ; %s" %
                        ("; ".join(what) or "see log", json.dumps(getattr(c, "proof_broken", None))[:500]),
                        dict(broken=getattr(c, "proof_broken", None), theorem="generated_table_complete",
                             obligations=["%s.%s: %s" % g for g in gaps], searched={("%s.%s" % g[:2]): v[0] for g, v in searched.items()}),
                        no_input=True)
    return c.finish()
