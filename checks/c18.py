"""C18 - concurrent use: snapshot-isolated reads and no data races.
Proof: coq/theories/Properties/C18.v, C18Table.v (Db/Mvcc.v for all interleavings; Db/Access.v + the table
Gen/GenAccess.v regenerated from the Go source by translators/access on every run).
Correspondence: N reader goroutines (parse + symbol resolution + index / link / back-reference reads +
filter queries, every result tagged with the version marker read in the same transaction) against one
writer committing multi-operation transactions; every tagged answer is compared with the model's
serial answer for that version; a helper hammer; everything in a binary built with -race, a race
report is a violation.
Third strengthening (harness c18_s3.go): transactions composed of Db calls that join them against a restore
("D" scenarios on the schedule of Db/LockTable.v, the same forms inside the main workload, a stall watchdog),
and values kept beyond the read transaction, read again after later commits and restores ("K" lines;
Properties/C18.v kept_observations_persist); tables lock_table / view_table of Gen/GenAccess.v with
Properties/C18Locks.v, C18Views.v.
Sixth strengthening (harness c18_s6.go): writer transactions that fail part-way - after entity, index and link
writes - through Db.Update, Db.Batch alone and Db.Batch from several goroutines at once (coalesced by bbolt): the
model skips them (Db/Mvcc.v: a failed ECommit changes nothing; Properties/C18.v failed_transaction_leaves_no_trace),
the version marker must not move, and besides the readers the writer itself reads what the transaction touched
right afterwards ("Q w <ordinal of the W line> ..." lines) -> C18:failed-transaction-visible."""
import glob
import json
import os
import re

import vlib

PID = "C18"
FILES = ["theories/Properties/C18.v", "theories/Examples/C18Examples.v", "theories/Properties/C18Table.v",
         "theories/Properties/C18Locks.v", "theories/Properties/C18Views.v", "theories/Examples/C18LockExamples.v"]
MOD = "github.com/openziti/storage/"


def parse_race_reports(paths):
    """-> list of dict(func, text): one per 'WARNING: DATA RACE' block"""
    out = []
    for p in paths:
        try:
            txt = open(p, errors="replace").read()
        except OSError:
            continue
        pid = p.rsplit(".", 1)[-1]
        for block in txt.split("WARNING: DATA RACE")[1:]:
            block = block.split("==================")[0]
            m = re.search(r"^\s+" + re.escape(MOD) + r"([A-Za-z0-9_./*()\[\]]+?)\(\)\s*$", block, re.M)
            func = m.group(1) if m else "unknown"
            func = re.sub(r"\[\.\.\.\]", "", func)
            out.append(dict(func=func, text="WARNING: DATA RACE" + block[:3000], pid=pid))
    # one report per function is enough, and a handful in total
    seen, uniq = set(), []
    for r in out:
        if r["func"] not in seen and len(uniq) < 6:
            seen.add(r["func"])
            uniq.append(r)
    return uniq


# hammered query helpers with a fixed population of their own (harness c18.go): the replay of a race
# report in query evaluation is the hammer that exercises that code, not the whole run
X_EMPTY_PAGED = "boltz.BaseStore.QueryIdsC/empty-filter-with-own-paging"
X_DOTTED = "boltz.BaseStore.QueryIds/dotted-symbols-and-subqueries"
X_EXT = "boltz.ExternalSymbol/filters-and-sorts-at-every-place"
X_IDX = "boltz.indexes/reads-of-different-keys-at-every-base-path-depth"
X_SHARED = "boltz.indexes/concurrent-readers-sharing-their-argument-slices"
RACE_HINTS = [
    (("FindMatching", "IteratorMatching"), X_SHARED),
    (("ExternalSymbol", "FuncSymbol"), X_EXT),
    (("setIndex", "uniqueIndex", "fkIndex", "linkCollectionImpl", "LinkedSetSymbol", "Indexer"), X_IDX),
    (("compositeEntity", "stackedCursor", "EntitySetSymbol", "entitySetSymbol", "GetSymbol"), X_DOTTED),
    (("queryNode", "setPaging", "LimitExprNode", "SkipExprNode", "SortByNode"), X_EMPTY_PAGED),
]


COLD_PIDS = {}   # pid of a cold-start child -> its "C <variant> <workers>" line


def race_replay_case(r, cases, run_case):
    """the smallest case that re-runs the code a race report is about"""
    if r.get("pid") in COLD_PIDS:   # reported by a cold-start child (c18_s9b.go): the replay is that cold start
        return COLD_PIDS[r["pid"]]
    for x in cases:
        if x.startswith("X ") and "/" not in x and x[2:].split(".")[-1] in r["func"]:
            return x
    for where in (r["func"], r["text"]):   # the racing function first, then the stacks
        for words, helper in RACE_HINTS:
            if any(w in where for w in words):
                return "X " + helper
    return run_case


def table_conflicts(path):
    """conflicting unsynchronised accesses of the generated table (same definition as Db/Access.v)"""
    try:
        txt = open(path).read()
    except OSError:
        return []
    helpers = []
    for hm in re.finditer(r'h_name := "([^"]+)"; h_acc := \[(.*?)\] \|\}', txt, re.S):
        accs = re.findall(r'a_loc := "([^"]+)"; a_kind := (\w+); a_sync := (\w+); a_via := "([^"]+)"', hm.group(2))
        helpers.append((hm.group(1), accs))
    out = []
    for n1, a1 in helpers:
        for n2, a2 in helpers:
            for loc, kind, sync, via in a1:
                if kind == "AWrite" and sync == "false" and any(l2 == loc and s2 == "false" for l2, _, s2, _ in a2):
                    out.append((n1, n2, loc, via))
    return out


def lock_offenders(path):
    """rows of the generated lock_table that acquire the handle's lock on their in-transaction path"""
    try:
        txt = open(path).read()
    except OSError:
        return []
    m = re.search(r"Definition lock_table : list lockfn := \[(.*?)\n\]\.", txt, re.S)
    out = []
    for name, acq in re.findall(r'lf_name := "([^"]+)"; lf_in_tx := \[(.*?)\] \|\}', m.group(1) if m else "", re.S):
        if acq.strip():
            out.append((name, re.findall(r'"([^"]+)"', acq)))
    return out


def foreign_views(path):
    """rows of the generated view_table that view memory the function did not allocate"""
    try:
        txt = open(path).read()
    except OSError:
        return []
    m = re.search(r"Definition view_table : list memview := \[(.*?)\n\]\.", txt, re.S)
    return [(fn, what, op) for fn, what, op, owned in
            re.findall(r'mv_fn := "([^"]+)"; mv_what := "([^"]+)"; mv_operand := "([^"]+)"; mv_owned := (\w+)', m.group(1) if m else "")
            if owned != "true"]


def unhex(h):
    try:
        t = bytes.fromhex(h).decode("utf-8", "replace")
    except ValueError:
        return h
    return "".join(ch if ch.isprintable() else "." for ch in t)


def main(argv):
    c = vlib.Check(PID, argv)
    c.cov["trusted_base"] = [
        "Coq 8.16.1 kernel (coqc; coqchk in the thorough tier); vm_compute for the finite table obligation and in Examples; no axioms",
        "hand-written model Db/Mvcc.v (bbolt MVCC: a read transaction sees the version current at begin; a write transaction becomes visible atomically at commit) - bbolt itself is trusted and exercised",
        "Db/Workload.v: model of the harness's own workload (items/links/queries) used for the serial answers",
        "translators/access (Go, go/packages): reading of the Go AST/types; its rules for write / synchronised / call graph (design/C18.md)",
        "the Go memory model and the race detector: a data race is not expressible in Gallina; the theorem is about the access table, the -race run supplies schedules",
        "extraction (ExtrOcamlBasic only) + extraction/c18_driver.ml + drv_common.ml",
        "Go harness cmd/storageharness/c18.go, c18_s2.go, c18_s3.go, c18_s6.go, c18_s9.go, c18_s9b.go, c17_stores.go and this comparison",
        "Db/RwLock.v (the reload-lock system of C17: sync.RWMutex by its specification, writer preference) and the translator's rules for lock_table / view_table (translators/access/locks.go)",
    ]
    c.assumptions = [
        "one writer at a time (bbolt serialises write transactions)",
        "the access table covers package-level variables, fields of the store, variables captured by function literals stored in struct fields and appends on shared slices (translator rules: design/C18.md); other writes to objects reachable from several goroutines are covered by the race detector run only",
        "a once-guarded write is ordered before the reads that follow the same Once.Do (true of the generated ANTLR static data)",
        "restoring the committed state that is current (streamed out by StreamToWriter) changes no version: the main workload restores only such states (what a restore reproduces is C17's subject)",
        "[]byte values handed out by cursors / symbol evaluation / index reads belong to the transaction (bbolt's contract); kept beyond it are strings, string lists, maps and entities",
    ]
    proof_ok = c.proof_step(FILES, translators=["access"])
    model = None
    try:
        model = vlib.build_model("C18")
    except Exception as e:  # the model does not depend on the generated table; a failure here is a framework problem
        c.violation("C18:model-build", "extracted model does not build: %s" % str(e)[-600:], dict(correspondence="model build"), no_input=True)
        return c.finish()
    harness, err = vlib.build_harness(race=True)
    if harness is None:
        c.violation("C18:harness-build", "race-enabled harness does not build against the repository: " + err[-800:],
                    dict(correspondence="harness build -race", log=err[-3000:]), no_input=True)
        return c.finish()

    race_prefix = os.path.join(c.work, "race")
    env = dict(os.environ, GORACE="halt_on_error=0 log_path=%s" % race_prefix)
    rp = json.load(open(c.replay)) if c.replay else None
    if rp and rp.get("case", "").startswith("RUN "):
        m = re.match(r"RUN seed=(\d+) tier=(\w+)", rp["case"])
        args = [harness, "c18", "--seed", m.group(1), "--tier", m.group(2), "--out", c.work]
    elif c.replay:
        rin = os.path.join(c.work, "replay_in.txt")
        with open(rin, "w") as f:
            f.write(rp["case"] + "\n")
        args = [harness, "c18", "--out", c.work, "--replaycase", rin, "--seed", str(c.seed)]
    else:
        args = [harness, "c18", "--seed", str(c.seed), "--tier", c.tier, "--out", c.work]
    rc, out = vlib.run(args, timeout=1500 if c.thorough else 300, env=env)
    for ln in vlib.read_lines(os.path.join(c.work, "cold_pids.txt")) if os.path.exists(os.path.join(c.work, "cold_pids.txt")) else []:
        COLD_PIDS[ln.split()[0]] = ln.split(" ", 1)[1]
    races = parse_race_reports(glob.glob(race_prefix + ".*"))
    if "WARNING: DATA RACE" in out:
        races += parse_race_reports([])  # reports normally go to log_path; stderr only when the log could not be opened
    if rc not in (0, 66) or (rc == 66 and not races):
        # the run died: a Go runtime fatal error (concurrent map access), the watchdog, or a crash
        run_case = "RUN seed=%d tier=%s" % (c.seed, c.tier)
        fatal = re.search(r"fatal error: (concurrent map [a-z ]+)", out)
        frame = re.search(r"^" + re.escape(MOD) + r"(.+)\([^()]*\)\s*$", out, re.M)
        where = re.sub(r"\[\.\.\.\]", "", frame.group(1)) if frame else "unknown"
        for r in races:
            c.violation("C18:data-race:" + r["func"], "the race detector reported a data race in %s (the run then died, rc=%s)" % (r["func"], rc),
                        dict(case=run_case, race_report=r["text"], function=r["func"]))
        if fatal:
            c.violation("C18:concurrent-map-access:" + where, "Go runtime: %s in %s while readers ran concurrently" % (fatal.group(1), where),
                        dict(case=run_case, log=out[-4000:]))
        elif rc == 9:
            try:
                dl = open(os.path.join(c.work, "DEADLOCK.txt")).read().strip().split("\n")
            except OSError:
                dl = [run_case]
            dline, frames = dl[0], " ".join(dl[1:])
            c.violation("C18:deadlock", "the writer of the main workload, composed of Db calls that join its transaction, made no progress any more while a restore "
                        "was pending: it waits for the reload lock inside its own transaction (%s), the restore waits for the transaction; equivalent scenario: %s"
                        % (frames, dline), dict(case=dline if dline.startswith("D ") else run_case, run=run_case, waiting=frames, log=out[-6000:]))
        elif rc == 7:
            c.violation("C18:hang", "the concurrent run did not finish (watchdog); first repository frame: %s" % where, dict(case=run_case, log=out[-4000:]))
        elif rc == 8:
            c.violation("C18:memory-blowup", "the concurrent run exhausted memory (watchdog): %s" % out[-300:], dict(case=run_case, log=out[-4000:]))
        elif not races:
            c.violation("C18:harness-run", "harness failed rc=%s: %s" % (rc, out[-600:]),
                        dict(correspondence="harness run", log=out[-3000:]), no_input=True)
        if not proof_ok and not c.violations:
            c.violation("C18:proof", "proof obligation no longer checks: %s" % json.dumps(c.proof_broken)[:600], dict(broken=c.proof_broken), no_input=True)
        return c.finish()
    cases = vlib.read_lines(os.path.join(c.work, "cases.txt"))
    impl = vlib.read_lines(os.path.join(c.work, "impl.txt"))
    modl = vlib.run_model(model, "c18", os.path.join(c.work, "cases.txt"), os.path.join(c.work, "model.txt"))
    assert len(cases) == len(impl) == len(modl), (len(cases), len(impl), len(modl))

    wlines = [k for k, x in enumerate(cases) if x.startswith("W ")]
    committed = []      # indexes of W lines that produced a version (model side)
    prev = 0
    for k in wlines:
        v = int(modl[k].split()[1])
        if v != prev:
            committed.append(k)
            prev = v

    # ---- transactions that did not commit (flag 0: rollback requested, or failed part-way) and left a trace ----
    # a trace = the version marker differs from the model's right after it (while it agreed before it), or the
    # writer's own read transaction after it (lines "Q w <ordinal> <version> <query>") differs from the serial answer
    # Once the marker has moved on a transaction that did not commit, the numbering of the run and of the model are
    # apart: what follows is a consequence, only the first such transaction is reported through this route.
    visible = set()     # indexes of such W lines
    moved_at = None     # index of the first W line (flag 0) after which the marker differs from the model's
    prev_ok = True
    def wver(x):
        f = x.split()
        return int(f[1]) if len(f) == 2 and f[1].isdigit() else None

    for k in wlines:
        # the marker is written as "the version before + 1": a transaction that did not commit and moved it is one ahead
        if cases[k].split()[1] == "0" and prev_ok and wver(impl[k]) is not None and wver(impl[k]) == wver(modl[k]) + 1:
            visible.add(k)
            moved_at = k
            break
        prev_ok = impl[k] == modl[k]
    # the writer's own read transactions: "Q wb .." before and "Q w .." after the transaction while the readers are
    # held back - nothing but the transaction lies between the two (for a member of a coalesced batch: and the members
    # that committed), so "the serial answer before, the same serial answer expected after, another answer after" is
    # the transaction's doing (an answer that is wrong before as well, or a question whose serial answer the committed
    # members change, is not attributed: reader-not-serial); "Q wu .." after it with the readers running
    # (reader-not-serial when it differs)
    before = {}
    for k, x in enumerate(cases):
        if x.startswith("Q wb "):
            f = x.split()
            before[(f[2], " ".join(f[4:]))] = (impl[k], modl[k])

    def attributable(k):
        """the look after an uncommitted transaction at line k differs and only the transaction can be the reason"""
        f = cases[k].split()
        b = before.get((f[2], " ".join(f[4:])))
        return f[1] == "w" and impl[k] != modl[k] and b is not None and b[0] == b[1] and b[1] == modl[k]
    for k, x in enumerate(cases):
        if x.startswith("Q w ") and impl[k] != modl[k]:
            f = x.split()
            o = int(f[2])
            if 0 <= o < len(wlines) and (moved_at is None or wlines[o] <= moved_at) and attributable(k):
                visible.add(wlines[o])

    def history(ver, upto=None):
        """the committed writer transactions up to version ver, with the uncommitted ones that left a trace at
        their places (none on a tree where the property holds); upto = index of a W line to stop after"""
        last = committed[ver] if ver < len(committed) else len(cases)
        if upto is not None:
            last = upto + 1
        keep = set(committed[:ver]) | set(j for j in visible if j < last)
        if upto is not None:
            keep.add(upto)
        return [cases[j] for j in sorted(keep) if j < last]

    def describe_failed(line):
        f = line.split()
        form = f[f.index("form") + 1] if "form" in f else "flat"
        how = {"bu": "Db.Batch(nil, ..)", "cb": "Db.Batch(nil, ..) called from several goroutines at once (one bolt batch)"}.get(
            form, "Db.Update(nil, ..)" + ("" if form == "flat" else " composed of joined calls (%s)" % form))
        if "fail" in f:
            kind, pos = f[f.index("fail") + 1], f[f.index("fail") + 2]
            why = {"caller": "its function returned an error of its own before operation %s" % pos,
                   "precommit": "a pre-commit action failed after all operations and the version marker were written",
                   "unique": "operation %s violated the unique index" % pos,
                   "notfound": "operation %s addressed an entity that does not exist" % pos,
                   "veto": "operation %s was refused by an entity constraint after the entity was written" % pos}.get(kind, kind)
        else:
            why = "its function asked for a rollback after the last write"
        return "a transaction of %s operations through %s failed (%s)" % (f[2], how, why)

    def replay_failed(k):
        """a failed transaction that is visible: history, the transaction, the writer's look"""
        f = cases[k].split()
        o = int(f[2])
        wk = wlines[o]
        lines = history(len([j for j in committed if j < wk]), upto=wk)
        ord_in_replay = len(lines) - 1
        # in the replay the look before the transaction comes before it, the look after it after it
        return "\n".join(lines[:-1] + ["Q wb %d %s" % (ord_in_replay, " ".join(f[3:])), lines[-1], "Q w %d %s" % (ord_in_replay, " ".join(f[3:]))])

    def replay_for(k):
        """minimal replay of a reader disagreement: the committed writer transactions up to the
        version the reader had bound, then the query.  Listings and paged queries are wrapped in a
        sequential probe for state leaking between query objects (the serial re-execution of the query
        alone cannot show an answer that was disturbed by another caller's paging): a paged empty-filter
        listing before it, an unpaged one after it"""
        f = cases[k].split()
        ver = int(f[3])
        lines = history(ver)
        kind = f[6] if f[4] == "at" and len(f) > 6 else f[4]   # "at <place> <query>": the family the query addresses
        if kind in ("list", "glist", "all", "page"):
            lines += ["Q 0 0 %d list 2 1" % ver, cases[k], "Q 0 0 %d all" % ver, "Q 0 0 %d glist -1 -1" % ver, "X " + X_EMPTY_PAGED]
        elif kind in ("xb", "xbs", "xs", "xss", "xg", "xw", "gxb"):
            lines += [cases[k], "X " + X_EXT]
        elif kind in ("tag", "tagm", "tagany", "tagc", "tagkeys", "name", "gidx", "gitems", "links", "rlinks", "linked"):
            lines += [cases[k], "X " + X_IDX]
        elif kind in ("f4", "f5", "f6", "f7", "f8", "wcount", "subhas", "subcount", "gname", "gtag", "gwtag", "gsub"):
            # the serial re-execution gives the serial answer by construction; the concurrent counterpart is
            # the hammer of the same filters (many read transactions at once on a fixed population)
            lines += [cases[k], "X " + X_DOTTED]
        else:
            lines.append(cases[k])
        return "\n".join(lines)

    def replay_kept(k):
        """a value kept beyond its transaction: the committed transactions up to its version, load and keep,
        the following commits, read again; once more after a restore"""
        f = cases[k].split()
        if f[0] != "K" or len(f) < 7:
            return cases[k]
        ver, later = int(f[3]), max(2, min(int(f[4]), 12))
        return "\n".join([cases[j] for j in committed[:ver]] + ["K 0 0 %d 0 0 %s" % (ver, " ".join(f[6:]))]
                         + [cases[j] for j in committed[ver:ver + later]] + ["KC 0", "KC 1"])

    distinct = set()
    disagreements = []
    versions_seen = set()
    kept = dict(checked=0, after_restore=0, changed=0)
    probes = dict(checked=0, differ=0)
    dynamic = set()
    for k, (case, i, m) in enumerate(zip(cases, impl, modl)):
        kind = case[0]
        if kind == "Q":
            f = case.split()
            versions_seen.add(f[3])
            distinct.add(" ".join(f[3:]))
            if f[1] in ("w", "wb", "wu"):
                probes["checked"] += 1
                o = int(f[2])
                wl = cases[wlines[o]] if 0 <= o < len(wlines) else "W ?"
                if i != m:
                    probes["differ"] += 1
                if 0 <= o < len(wlines) and wlines[o] in visible and attributable(k):
                    c.violation("C18:failed-transaction-visible",
                                "%s, yet the next read transaction (version marker %s) sees what it wrote: query %s impl %s serial answer on the committed state %s"
                                % (describe_failed(wl), f[3], " ".join(f[4:]), i[:200], m[:200]),
                                dict(case=replay_failed(k), impl=i, model=m, query=case, transaction=wl[:600]))
                elif i != m:
                    c.violation("C18:reader-not-serial",
                                "the writer's own read transaction %s a transaction that did not commit (bound to version %s) got an answer different from the "
                                "serial execution on that version: query %s impl %s serial %s"
                                % ("before" if f[1] == "wb" else "after", f[3], " ".join(f[4:]), i[:200], m[:200]),
                                dict(case=replay_for(k), impl=i, model=m, query=case))
            elif i.startswith("Q torn"):
                c.violation("C18:torn-read", "a read transaction saw the version marker change: %s" % i, dict(case=replay_for(k), impl=i, query=case))
            elif i != m:
                c.violation("C18:reader-not-serial",
                            "reader %s (transaction %s, bound to version %s) got an answer different from the serial execution on that version: query %s impl %s serial %s"
                            % (f[1], f[2], f[3], " ".join(f[4:]), i[:200], m[:200]),
                            dict(case=replay_for(k), impl=i, model=m, query=case))
        elif kind == "W":
            if i != m:
                disagreements.append((case, i, m))
            if k == moved_at:
                c.violation("C18:failed-transaction-visible",
                            "%s, yet the version marker readers bind to moved: it reads %s, the committed history has %s versions"
                            % (describe_failed(case), i, m.split()[-1]),
                            dict(case="\n".join(history(int(m.split()[1]), upto=k)), impl=i, model=m, transaction=case[:600]))
        elif kind == "D":
            distinct.add(case)
            if i.startswith("D stuck"):
                dynamic.add("deadlock")
                where = unhex(i.split()[2]) if len(i.split()) > 2 else ""
                c.violation("C18:deadlock",
                            "a transaction composed of Db calls that join it never finished while a restore was pending (the model Db/LockTable.v "
                            "lock_scenario finishes: %s); stuck at: %s" % (m, where), dict(case=case, impl=i, model=m, stuck_at=where))
            elif i != m:
                c.violation("C18:joined-transaction-differs", "a transaction composed of joined Db calls with a restore: %s, the lock model says %s"
                            % (i[:300], m), dict(case=case, impl=i, model=m))
        elif kind == "K":
            kept["checked"] += 1
            f = case.split()
            if len(f) > 5 and f[0] == "K" and f[5] != "0":
                kept["after_restore"] += 1
            if i != m:
                kept["changed"] += 1
                dynamic.add("kept")
                f2 = i.split()
                what = ("reading it faults: %s" % unhex(f2[2])) if i.startswith("K fault") and len(f2) > 2 else \
                       ("now %s, when loaded %s" % (unhex(f2[2])[:160], unhex(f2[3])[:160])) if i.startswith("K changed") and len(f2) > 3 else i[:200]
                c.violation("C18:kept-value-changed",
                            "what a reader obtained in a read transaction (%s, version %s) changed after the transaction: after %s later commits and %s restores %s"
                            % ((" ".join(f[6:]), f[3], f[4], f[5], what) if f[0] == "K" and len(f) > 6 else
                               ("the values kept by the K lines of this replay", "as given there", "the following", f[1] if len(f) > 1 else "0", what)),
                            dict(case=replay_kept(k), impl=i, model=m, kept=case))
        elif kind == "R":
            if i != m and disagreements:
                disagreements.append((case, i, m))   # the numbering has been apart since an earlier writer transaction
            elif i != m:
                c.violation("C18:restore-of-current-state-differs", "streaming the committed state out and restoring it: %s, expected %s" % (i[:200], m),
                            dict(case="\n".join([cases[j] for j in wlines if j < k][-40:] + [case]), impl=i, model=m))
        elif kind in "SP":
            if i != m:
                arg = case.split()[1]
                c.violation("C18:concurrent-%s-differs" % ("parse" if kind == "P" else "symbol"),
                            "%s gave a different answer under concurrency than sequentially: %s" % ("ast.Parse" if kind == "P" else "GetSymbol", i[:300]),
                            dict(case=case, impl=i, input=bytes.fromhex(arg).decode("utf-8", "replace") if arg != "-" else ""))
        elif kind == "C":
            # ninth strengthening (c18_s9b.go): a fresh process whose FIRST parses / symbol lookups / queries are concurrent
            distinct.add(case)
            f = case.split()
            what = "a fresh process (the harness started again, sub-command c18cold) whose first %s calls - ast.Parse, GetSymbol, QueryIds, one per goroutine behind a start barrier - are concurrent" % f[2]
            if i.startswith("C differs"):
                c.violation("C18:cold-start-answer-differs", "%s: %s" % (what, unhex(i.split()[2])[:500]), dict(case=case, impl=i))
            elif i.startswith("C died"):
                err = unhex(i.split()[3]) if len(i.split()) > 3 else ""
                fatal = re.search(r"fatal error: (concurrent map [a-z ]+)", err)
                c.violation("C18:cold-start-" + ("concurrent-map-access" if fatal else "died"), "%s died (%s): %s" % (what, i.split()[1], err[:400]), dict(case=case, impl=i, log=err))
            elif i.startswith("C race") and not any(r.get("pid") in COLD_PIDS for r in races):
                # normally the child's report is in the log directory and reported below with its function
                c.violation("C18:data-race:cold-start", "%s: the race detector reported a data race: %s" % (what, unhex(i.split()[2])[:600] if len(i.split()) > 2 else ""), dict(case=case, impl=i))
            elif i != m and not i.startswith("C race"):
                c.violation("C18:harness-run", "cold start: %s" % i[:300], dict(correspondence="cold start sub-process", case=case, impl=i), no_input=True)
        elif kind == "X":
            distinct.add(case)
            if i != m and "first: argument-changed" in i:
                # ninth strengthening (c18_s9.go): a read wrote to memory its caller owns and shares between readers
                c.violation("C18:read-writes-caller-argument",
                            "a read helper wrote to the argument it was given, which concurrent read transactions of the same caller share (%s rounds wrong): %s"
                            % (i.split()[2], i.split("first: ", 1)[1][:400]), dict(case=case, impl=i))
            elif i != m:
                c.violation("C18:helper-wrong-under-concurrency", "%s answered wrongly when called from many goroutines: %s" % (case[2:], i), dict(case=case, impl=i))
    for r in races:
        c.violation("C18:data-race:" + r["func"], "the race detector reported a data race in %s" % r["func"],
                    dict(case=race_replay_case(r, cases, "RUN seed=%d tier=%s" % (c.seed, c.tier)), race_report=r["text"], function=r["func"]))

    if c.replay:
        for case, i, m in zip(cases, impl, modl):
            vlib.log("REPLAY case=%s\n  impl =%s\n  model=%s" % (case[:400], i[:400], m[:400]))
        for r in races:
            vlib.log("REPLAY race in %s\n%s" % (r["func"], r["text"][:1500]))

    c.cov["evaluations"] = len(cases)
    c.cov["distinct_nontrivial"] = len(distinct)
    c.cov["disagreements_checked"] = len(disagreements)
    c.cov["rule"] = ("evaluations = writer transactions + tagged reader queries + parse/symbol probes + hammered helpers. "
                     "Non-trivial = distinct (version, query) pairs answered by readers while the writer was committing, + helpers hammered; "
                     "versions observed by readers: %d" % len(versions_seen))
    qs = [k for k, x in enumerate(cases) if x.startswith("Q ")]
    c.cov["samples"] = [dict(case=cases[k][:600], impl=impl[k][:600], model=modl[k][:600]) for k in (wlines[:1] + qs[:1] + qs[-1:])]
    c.cov["race_reports"] = len(races)
    c.cov["kept_values"] = kept
    c.cov["looks_after_uncommitted_transactions"] = probes
    c.cov["joined_transaction_scenarios"] = len([x for x in cases if x.startswith("D ")])
    c.cov["cold_starts"] = len([x for x in cases if x.startswith("C ")])
    try:
        c.cov["input_distribution"] = json.load(open(os.path.join(c.work, "stats.json")))
    except Exception:
        pass
    if disagreements and not c.violations:
        case, i, m = disagreements[0]
        c.violation("C18:correspondence", "writer transactions: model Db/Workload.v and the stores differ on %d transactions, e.g. %s: impl %s model %s"
                    % (len(disagreements), case[:200], i, m),
                    dict(correspondence="Db/Workload.v vs boltz stores", case=case, impl=i, model=m), no_input=True)
    if not proof_ok:
        gen = os.path.join(vlib.COQ, "theories", "Gen", "GenAccess.v")
        conflicts = table_conflicts(gen)
        offenders, views = lock_offenders(gen), foreign_views(gen)
        pb = c.proof_broken or {}
        if offenders and "deadlock" in dynamic:
            vlib.log("  (joined_calls_never_deadlock does not hold for the regenerated lock table: %s - the stuck transaction above is its failing schedule)"
                     % "; ".join("%s takes %s" % (n, ", ".join(a)) for n, a in offenders[:3]))
        elif offenders:
            c.violation("C18:proof", "joined_calls_never_deadlock no longer holds: a call that joins a running transaction takes the handle's lock again (%s); "
                        "no explored schedule got stuck" % "; ".join("%s: %s" % (n, ", ".join(a)) for n, a in offenders[:4]),
                        dict(broken=pb, offenders=offenders[:20], theorem="joined_calls_never_deadlock"), no_input=True)
        if views and "kept" in dynamic:
            vlib.log("  (no_foreign_memory_views does not hold for the regenerated view table: %s - the changed kept value above is its failing input)"
                     % "; ".join("%s: %s(%s)" % v for v in views[:3]))
        elif views:
            c.violation("C18:proof", "no_foreign_memory_views no longer holds: %s; no kept value was seen to change"
                        % "; ".join("%s builds %s over %s, memory it did not allocate" % v for v in views[:4]),
                        dict(broken=pb, views=views[:20], theorem="no_foreign_memory_views"), no_input=True)
        if conflicts and any(v[0].startswith("C18:data-race") for v in c.violations):
            vlib.log("  (helpers_no_conflicting_access does not hold for the regenerated table: %s - the race run above is its failing schedule)"
                     % "; ".join("%s/%s on %s (%s)" % x for x in conflicts[:3]))
        elif conflicts or not (offenders or views):
            c.violation("C18:proof", "proof obligation no longer checks (%s)%s" % (
                json.dumps(pb)[:500], "; conflicting accesses in the generated table: %s" % conflicts[:4] if conflicts else ""),
                dict(broken=pb, conflicts=conflicts[:20], theorem="helpers_no_conflicting_access"), no_input=True)
    return c.finish()
