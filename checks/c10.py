"""C10 - parsing and evaluation are total: no panics, invalid input is rejected (language / glue part).
Proof: coq/theories/Properties/C10.v (models Lang/Regex.v, Lang/LexerFull.v, Lang/Lexer.v, Lang/Glue.v).
Correspondence: four streams of filters (grammar-derived sentences with every lhs form x operator x
literal kind, token-level mutations, bounded-exhaustive token sequences, random code points) are lexed
by the real lexer and by the extracted model lexer (tokens with positions, error counts), parsed by
ast.Parse under recover() with ten typings of the identifier x and, when they parse, evaluated over a
filled and an all-null/empty dataset; the sentence matrix with x renamed to every kind of symbol of real boltz stores
is parsed against the store and evaluated through the Store query API over bolt files in which fields, set / link /
prefix / map buckets, entities and stores are filled, nil, empty or were never written (c10_store.go).  Every panic, every accepted input with unrecognised characters and
every accepted non-sentence (skeleton alphabet, decided by the C12 parser model) violates C10.
Every filter of every stream also goes through every public parsing entry point (zitiql.Parse, ParseWithDebug false / true,
Parse after a debug run, the ast listener, ast.Parse and the string query APIs of a boltz and of an objectz store;
c10_entry.go; model Lang/GlueEntry.v, theorems entry_points_agree / every_entry_rejects_lexer_errors): one that accepts text with
unrecognised characters or a non-sentence, panics, or disagrees with the others violates C10.  Stream qcur evaluates filters for
every scanner through Store.QueryWithCursorC with every cursor provider the library offers (c10_cursors.go).
Stream edge (c10_edge.go): every blank-like character that is not white space of the grammar (Go's unicode tables: IsSpace, controls,
separators, format characters, BOM, NUL, U+FFFD, look-alikes of ASCII), byte sequences that are not UTF-8 and mixtures with grammar
white space as first / last characters, at token boundaries and in place of a blank of short valid sentences (model Lang/ForeignBlank.v,
theorems blank_like_characters_are_foreign / text_starting_with_untokenizable_rejected / text_ending_with_untokenizable_rejected).
Termination (c10_term.go, child process): families of valid texts of growing size and their invalid twins (one error at the start / in the
middle / at the end) through every entry point, every call under a time bound relative to the valid twin of the same size; a call that
does not return is C10:parse-does-not-terminate, reported with the shortest stalling text.
Stream lit (c10_lit.go): literals that are tokens of the grammar and have no value (numbers beyond float64 / int64 in every spelling, over-long
digit strings, days that do not exist, second 60, years of 1 / 3 / 5 / 30 digits) at EVERY literal position of every literal-taking construct
(comparison operand, between bounds, element 1..n of in-lists of 1..4 elements, skip / limit of the query and of a sub-query, operands inside /
behind sub-queries and and / or / not), the other positions holding convertible literals, plus the edge values that do convert: ast.Parse must
answer with an error or a query, never panic (the error is latched in the middle of the tree walk).
Stream boltnest (c10_nest.go): 36 symbol names that CLASH between the three bolt-backed stores (every ordered pair of the kinds scalar string /
scalar int64 / fk / string set / fk set / map for every pair of stores) used - as scalar, dotted, in set functions, as sub-query source, in
in-lists and sort clauses - BEHIND sub-queries nested to depth 1-3 over every order of the stores, in the outer scope and in every scope in
between, on rows that reach them; parsed against the real store and evaluated through every Store query API.
Streams boltpage / qcurpage (c10_page.go): skip / limit literals of extreme magnitude (2^48+1 .. int64 max, sums that overflow, int64 min) on unsorted, id-sorted
and field-sorted queries and on sub-queries, through every Store query API / every cursor provider; huge ALLOCATABLE limits (2^28 .. 2^47) in a child process under an
address-space limit (page_step): evaluation whose memory follows the literal instead of the rows dies there - C10:eval-allocates-by-paging-literal."""
import json
import os
import time

import vlib

PID = "C10"
FILES = ["theories/Properties/C10.v", "theories/Examples/C10Examples.v"]
THEOREMS = ["lexer_error_rejects", "accepted_query_is_unaltered", "entry_points_agree", "every_entry_rejects_lexer_errors",
            "grammar_ws_is_four_characters", "blank_like_characters_are_foreign", "text_starting_with_untokenizable_rejected",
            "text_ending_with_untokenizable_rejected", "foreign_blank_at_an_edge_rejected"]


# the datasets of the store-backed streams (harness c10_store.go): <root> or only:<the one entity of the main store that is needed>
STORE_DATASETS = {
    "all": "the bolt file with every entity profile (set indexes filled)",
    "orphan": "a bolt file in which the stores that the symbols link to - and the index buckets - were never created",
    "hollow": "a bolt file whose store buckets and set-index buckets exist and hold no entity / no key",
    "void": "a bolt file in which not even the root bucket of the stores (or of their indexes) exists",
    "only:m1-full": "a store whose only entity has every field, set, link and map entry written",
    "only:m2-full": "a store whose only entity has every field, set, link and map entry written (second value profile)",
    "only:m3-absent": "a store whose only entity was stored WITHOUT any field: no scalar, no list bucket of a set, no link bucket, no prefix bucket, no map bucket was ever written",
    "only:m4-nil": "a store whose only entity has every scalar written nil and every set / link / map written empty",
    "only:m5-scalars": "a store whose only entity has its scalars written and no set / link / map / prefix bucket ever written (its fk names an entity without fields)",
    "only:m6-sets": "a store whose only entity has its sets and links written (also to entities that do not exist) and no scalar ever written",
    "only:m7-dangling": "a store whose only entity refers (fk, fk set) to entities that do not exist",
    "only:m8-mistyped": "a store whose only entity holds, in every field, a well-formed value of another type than the symbol declares",
}


# the public parsing entry points, in the order of the letters of the 6th observation field (harness c10_entry.go)
ENTRY_NAMES = [
    "zitiql.Parse",
    "zitiql.ParseWithDebug(debug=false)",
    "zitiql.ParseWithDebug(debug=true)",
    "zitiql.Parse directly after a ParseWithDebug(debug=true) run",
    "zitiql.Parse with the ast.NewListener() listener",
    "ast.Parse against the boltz store",
    "boltz BaseStore.QueryIds(tx, string)",
    "ast.Parse against the objectz store",
    "objectz ObjectStore.QueryEntities(string)",
]
# (k, j): entry point k may only accept what entry point j accepts (k adds checks to j, it never removes one);
# 0..3 are the same decision - syntax only - and must be equal
ENTRY_IMPLIES = [(4, 0), (5, 4), (7, 4), (6, 5), (8, 7)]


def parse_entries(field):
    """n<letters>[;<k>:<site>...] -> (letters, {k: site})"""
    parts = field[1:].split(";")
    sites = {}
    for p in parts[1:]:
        k, _, site = p.partition(":")
        sites[int(k)] = site
    return parts[0], sites


def runes(s):
    """the filter of a case line as the lexer sees it: a byte that is not part of well-formed UTF-8 (xHH) arrives as U+FFFD;
    the exact bytes are in the replay as `filter_go` (a Go string literal)"""
    return "".join(chr(cp) for cp in code_points(s))


def code_points(s):
    """code points as the lexer sees them (a raw non-UTF-8 byte arrives as U+FFFD)"""
    return [] if s == "-" else [0xFFFD if h.startswith("x") else int(h, 16) for h in s.split(".")]


def go_literal(s):
    """the filter of a case line as a Go interpreted string literal (exact bytes)"""
    out = []
    for h in ([] if s == "-" else s.split(".")):
        if h.startswith("x"):
            out.append("\\x" + h[1:])
            continue
        cp = int(h, 16)
        if cp == 0x22 or cp == 0x5C:
            out.append("\\" + chr(cp))
        elif 0x20 <= cp < 0x7F:
            out.append(chr(cp))
        elif cp < 0x80:
            out.append("\\x%02x" % cp)
        elif cp <= 0xFFFF:
            out.append("\\u%04x" % cp)
        else:
            out.append("\\U%08x" % cp)
    return '"' + "".join(out) + '"'

# the entry points of the termination stream (harness c10_term.go): the nine of ENTRY_NAMES + two
TERM_ENTRY_NAMES = ENTRY_NAMES + ["ast.Parse with the in-memory symbol table", "the lexer alone (GetAllTokens)"]


def term_launch(c, harness, only=None):
    """start the termination stream (a child process) in the background; term_step(c, harness, launched=...) evaluates it"""
    import threading
    box = {}

    def work():
        box["res"] = term_run(c, harness, only)
    th = threading.Thread(target=work)
    th.start()
    return th, box


def term_run(c, harness, only=None):
    bound_ms = int(os.environ.get("C10_TERM_BOUND_MS", "5000"))
    tdir = os.path.join(c.work, "term")
    os.makedirs(tdir, exist_ok=True)
    args = [harness, "c10", "--termcase", "1", "--tier", c.tier, "--termbound", str(bound_ms), "--out", tdir]
    if only:
        args += ["--termonly", only]
    t0 = time.time()
    rc, out = vlib.run(args, timeout=1500)
    return rc, out, time.time() - t0, bound_ms, tdir


def term_step(c, harness, only=None, launched=None):
    """termination: families of valid texts of growing size and their invalid twins (one error at the start / middle / end)
    through every entry point, every call under a time bound, in a child process (harness c10_term.go)"""
    if launched is not None:
        th, box = launched
        th.join()
        rc, out, term_wall, bound_ms, tdir = box["res"]
    else:
        rc, out, term_wall, bound_ms, tdir = term_run(c, harness, only)
    lines = [l.split() for l in out.split("\n")]
    tl = [l for l in lines if l and l[0] == "T" and len(l) >= 7]
    stalls = [l for l in lines if l and l[0] == "STALL" and len(l) >= 9]
    done = [l for l in lines if l and l[0] == "DONE"]
    slowest = 0.0
    fams = {}
    for l in tl:
        ms = [float(x) for x in l[6].split(",")] if "," in l[6] else [float(l[6])]
        slowest = max(slowest, max(ms))
        fams.setdefault(l[1], set()).add(int(l[2]))
    c.cov["termination"] = dict(wall_s=round(term_wall, 1), families_not_run_after_two_stalls=[l[1] for l in lines if l and l[0] == "SKIP"], texts=len(tl), calls=int(done[0][2]) if done else None, slowest_call_ms=slowest, bound_ms=bound_ms,
                                families={f: sorted(v) for f, v in fams.items()}, entry_points=TERM_ENTRY_NAMES,
                                rule="every family member of every size: the valid text and 12 invalid twins (a foreign character, a stray parenthesis, a dangling "
                                "connective, a removed token - at the start, in the middle, at the end; for a text with a dotted identifier also 5 twins with ONE path element "
                                "replaced: an unknown name as first / middle / last element, a scalar symbol as first / middle element) through every entry point; the "
                                "cyclic-path families are dotted identifiers of 2..40 (thorough 128) elements that walk a cycle of the store link graph (self link by fk / fk set, "
                                "A -> B -> A, A -> B -> C -> A) as comparison operand, set-function argument, sub-query set expression, sort key; each call bounded by "
                                "max(bound_ms, 100 x the time of the valid twin of the same size through the same entry point)")
    if only:
        for l in lines:
            if l:
                vlib.log("REPLAY " + " ".join(l[:4]) + " " + " ".join(l[5:]))
    # shortest stalling text first
    stalls.sort(key=lambda l: len(code_points(l[7])))
    for l in stalls:
        fam, n, variant, k, bound, valid_ms, text_r, valid_r = l[1], int(l[2]), l[3], int(l[4]), float(l[5]), float(l[6]), l[7], l[8]
        text, valid = runes(text_r), runes(valid_r)
        # what the same entry point needed for the smaller members of the family (same kind of twin)
        hist = []
        for t in tl:
            if t[1] == fam and t[3] == variant and int(t[2]) < n:
                if ":" in t[5]:
                    hist.append((int(t[2]), float(t[6])))
                else:
                    ms = t[6].split(",")
                    if k < len(ms) and t[5][k] not in "?.":
                        hist.append((int(t[2]), float(ms[k])))
        hist = sorted(set(hist))
        c.violation("C10:parse-does-not-terminate",
                    "%s does not answer within %.0f s on a text of %d characters%s: %r (family %s of size %d%s). %s. "
                    "The same entry point answered the smaller members of the family in: %s"
                    % (TERM_ENTRY_NAMES[k], bound / 1000, len(text),
                       "" if variant in ("valid", "noise") else (" in which one element of a dotted identifier does not resolve" if variant.startswith("path-") else " that is not a sentence of the grammar"),
                       text if len(text) <= 400 else text[:400] + "...", fam, n,
                       "" if variant in ("valid", "noise") else ", twin `%s`" % variant,
                       ("The valid text of the same size %r is answered in %.3f ms" % (valid if len(valid) <= 200 else valid[:200] + "...", valid_ms))
                       if variant not in ("valid", "noise") else "Reference time %.3f ms" % valid_ms,
                       ", ".join("%d: %.1f ms" % h for h in hist[-8:]) or "-"),
                    dict(termcase=dict(family=fam, n=n, variant=variant, entry=k), entry_point=TERM_ENTRY_NAMES[k], filter=text, filter_go=go_literal(text_r),
                         valid_twin=valid, valid_twin_ms=valid_ms, bound_ms=bound, smaller_members_ms=hist,
                         how_to_reproduce="call the entry point on `filter_go`; it does not return (in time). The shortest stalling member of the family was searched for "
                         "(growth in steps of one from the first suspiciously slow size / bisection)"))
    if rc != 0 and not stalls:
        hang = ""
        try:
            hang = open(os.path.join(tdir, "HANG.txt")).read().strip()
        except OSError:
            pass
        last = " ".join(tl[-1][:4]) if tl else "-"
        c.violation("C10:parse-does-not-terminate",
                    "the termination stream did not finish (rc=%s): %s" % (rc, ("no progress in " + hang[:300]) if hang else ("last finished text: " + last)),
                    dict(termcase=dict(hang=hang, last=last), rc=rc, log=out[-2000:]))
    return not stalls and rc == 0

def page_step(c, harness, only=None):
    """huge and ALLOCATABLE paging values (2^28 .. 2^47) in a child process under an address-space limit (harness c10_page.go):
    evaluation that allocates in proportion to a skip / limit literal dies there with `fatal error: out of memory`"""
    import shutil
    args = [harness, "c10", "--pagecase", "1", "--out", c.work]
    if only:
        args += ["--pageonly", only]
    t0 = time.time()
    rc, out = vlib.run(args, timeout=600)
    lines = [l.split() for l in out.split("\n")]
    tmp = [l[1] for l in lines if len(l) == 2 and l[0] == "TMP"]
    limit = [l for l in lines if l and l[0] == "LIMIT" and len(l) == 3]
    nolimit = [l for l in lines if l and l[0] == "NOLIMIT"]
    ran = [l[1] for l in lines if len(l) == 2 and l[0] == "RUN"]
    ok = [l[1] for l in lines if len(l) == 2 and l[0] in ("OK", "REJECTED")]
    panics = [l for l in lines if len(l) == 5 and l[0] == "PANIC"]
    at = [l for l in lines if len(l) == 3 and l[0] == "AT"]
    done = [l for l in lines if l and l[0] == "DONE"]
    c.cov["huge_paging_under_memory_limit"] = dict(
        wall_s=round(time.time() - t0, 1), filters=len(ran), finished=len(ok), address_space_limit_bytes=int(limit[0][2]) if limit else None,
        mapped_before_bytes=int(limit[0][1]) if limit else None, not_limited=" ".join(nolimit[0][1:]) if nolimit else None,
        rule="child process `storageharness c10 --pagecase 1`: RLIMIT_AS = mapped + 3 GB, then 3 predicates x 6 scanner-selecting sort clauses x "
        "(limit L, skip 1 limit L, skip L, skip L limit L) + sub-query paging, L in 2^28, 2^31-1, 2^32, 10^12, 2^40, 2^47, through QueryIds / QueryIdsC / "
        "IterateIds / IterateValidIds / QueryWithCursorC over every root; a death of the child while a filter runs (out of memory) or a panic is a violation")
    if only:
        for l in lines:
            if l:
                vlib.log("REPLAY " + " ".join(l))
    how = ("stores and datasets of harness/cmd/storageharness/c10_store.go (c10sBuild); inside db.View: store.%s(tx, filter) with the address space of the process "
           "limited (ulimit -v) - without a limit the call tries to allocate memory in proportion to the limit / skip literal")
    for l in panics[:3]:
        site, api, where, text_r = l[1], l[2], l[3], l[4]
        c.violation("C10:panic-eval:" + site, "filter %r parses against the bolt-backed store and Store.%s panics in %s when it is evaluated over the dataset %s"
                    % (runes(text_r), api, site, where),
                    dict(pagecase=dict(filter=text_r), filter=runes(text_r), filter_go=go_literal(text_r), api=api, dataset=where, site=site, how_to_reproduce=how % api))
    if rc != 0 or not done:
        running = ran[-1] if len(ran) > len(ok) + len(panics) else None
        fatal = [ln for ln in out.split("\n") if ln.startswith("fatal error:") or ln.startswith("runtime: out of memory") or "cannot allocate" in ln]
        if running is not None:
            api, where = (at[-1][1], at[-1][2]) if at else ("?", "?")
            c.violation("C10:eval-allocates-by-paging-literal",
                        "filter %r parses against the bolt-backed store and evaluating it (Store.%s, dataset %s) kills the process: %s. The datasets hold a dozen rows; the memory "
                        "asked for follows the skip / limit literal of the filter text (address space limited to mapped + 3 GB; an unlimited process tries to allocate it)"
                        % (runes(running), api, where, "; ".join(fatal[:2]) or ("rc=%s" % rc)),
                        dict(pagecase=dict(filter=running), filter=runes(running), filter_go=go_literal(running), api=api, dataset=where, rc=rc, log=out[-1500:],
                             how_to_reproduce=how % api))
        else:
            c.violation("C10:harness-run", "the huge-paging child process failed outside a filter (rc=%s): %s" % (rc, out[-500:]),
                        dict(correspondence="harness run", log=out[-3000:]), no_input=True)
    for t in tmp:
        if os.path.basename(t).startswith("c10s") and os.path.isdir(t):
            shutil.rmtree(t, ignore_errors=True)
    return rc == 0 and not panics


def main(argv):
    c = vlib.Check(PID, argv)
    c.cov["trusted_base"] = [
        "Coq 8.16.1 kernel (coqc; coqchk in the thorough tier); vm_compute in Examples only; no axioms",
        "hand-written models: Lang/Regex.v (derivatives), Lang/LexerFull.v (the 36 token rules of ZitiQl.g4 as regular expressions), "
        "Lang/Lexer.v (ANTLR lexer loop with drop-and-continue recovery), Lang/Glue.v (zitiql.parse / ast.Parse listener wiring), "
        "Lang/GlueEntry.v (the debug flag of zitiql.parse and the listeners that pooled lexer / parser instances carry from earlier calls; "
        "modelled, not verified: under SLL prediction the diagnostic listener of the debug mode reports nothing)",
        "Section variable `parser` (Glue.v): the generated ANTLR parser + tree walk is an arbitrary total function in the theorems",
        "extraction (ExtrOcamlBasic only) + extraction/c10_driver.ml + drv_common.ml",
        "Go harness cmd/storageharness/c10.go (generators, in-memory ast.Symbols with null fields / empty sets / sub-query entities), "
        "c10_store.go (real boltz stores over a bolt file: entity profiles full / never written / nil / empty / dangling / mistyped, roots all / orphan / hollow / void), "
        "c10_entry.go (the public parsing entry points, an objectz store), c10_cursors.go (cursor-provider matrix, raw set-index buckets) and this comparison",
        "ANTLR runtime (ATN interpreter termination, adaptive prediction, pooled lexer/parser instances): exercised by the streams, not modelled - C10 is partial by nature here",
        "typer / evaluator totality: Properties/C10Typer.v (separate model, built by the C01 owner)",
    ]
    c.assumptions = ["the input reaches the lexer as code points ([]rune of the Go string; invalid UTF-8 bytes arrive as U+FFFD)"]
    proof_ok = c.proof_step(FILES)
    model = vlib.build_model("C10")
    harness, err = vlib.build_harness()
    if harness is None:
        c.violation("C10:harness-build", "harness does not build against the repository: " + err[-800:],
                    dict(correspondence="harness build", log=err[-3000:]), no_input=True)
        return c.finish()

    cases_path = os.path.join(c.work, "cases.txt")
    if c.replay and "termcase" in json.load(open(c.replay)):
        tc = json.load(open(c.replay))["termcase"]
        if "family" in tc:
            term_step(c, harness, only="%s,%d,%s,%d" % (tc["family"], tc["n"], tc["variant"], tc["entry"]))
        else:
            term_step(c, harness)
        return c.finish()
    if c.replay and "pagecase" in json.load(open(c.replay)):
        page_step(c, harness, only=json.load(open(c.replay))["pagecase"]["filter"])
        return c.finish()
    if c.replay:
        rp = json.load(open(c.replay))
        rin = os.path.join(c.work, "replay_in.txt")
        with open(rin, "w") as f:
            f.write(rp["case"] + "\n")
        args = [harness, "c10", "--out", c.work, "--replaycase", rin]
    else:
        args = [harness, "c10", "--seed", str(c.seed), "--tier", c.tier, "--out", c.work]
    rc, out = vlib.run(args, timeout=3000, env=dict(os.environ, VERIF_JOBS=vlib.NPROC))
    if rc == 7 and os.path.exists(os.path.join(c.work, "HANG.txt")):
        # a worker was busy with one case for longer than the stall limit: parsing / evaluation does not terminate
        hang = open(os.path.join(c.work, "HANG.txt")).read().strip()
        hf = hang.split()
        c.violation("C10:parse-does-not-terminate",
                    "the library did not answer within the stall limit (60 s) on the filter %r (stream %s): parsing or evaluating it does not terminate"
                    % (runes(hf[2]) if len(hf) > 2 else hang, hf[1] if len(hf) > 1 else "?"),
                    dict(case=hang, filter=runes(hf[2]) if len(hf) > 2 else None, filter_go=go_literal(hf[2]) if len(hf) > 2 else None))
        return c.finish()
    if rc != 0:
        c.violation("C10:harness-run", "harness failed rc=%s: %s" % (rc, out[-500:]),
                    dict(correspondence="harness run", log=out[-3000:]), no_input=True)
        return c.finish()
    # the termination stream runs in a child process of its own while the model runs and the observations are classified
    term_bg = term_launch(c, harness) if not c.replay else None
    cases = vlib.read_lines(cases_path)
    impl = vlib.read_lines(os.path.join(c.work, "impl.txt"))
    modl = vlib.run_model(model, "c10", cases_path, os.path.join(c.work, "model.txt"))
    assert len(cases) == len(impl) == len(modl), (len(cases), len(impl), len(modl))
    # W lines: the harness's population of blank-like characters (Go's unicode tables) against the table of Lang/ForeignBlank.v
    table_mismatch = [(ca, i, m) for ca, i, m in zip(cases, impl, modl) if ca.startswith("W ") and i != m]
    c.cov["blank_like_table"] = [dict(impl=i, model=m) for ca, i, m in zip(cases, impl, modl) if ca.startswith("W ")]
    keep = [k for k, ca in enumerate(cases) if not ca.startswith("W ")]
    cases, impl, modl = [cases[k] for k in keep], [impl[k] for k in keep], [modl[k] for k in keep]

    # stream boltnest: what the store says about a use T of a symbol on its own (stream nestuse carries every T alone)
    nest_alone = {}
    for ca, i in zip(cases, impl):
        cf = ca.split()
        if cf[1] == "nestuse" and cf[3] == "store":
            nest_alone[runes(cf[2])] = i.split()[3]

    def nest_hint(stream, text):
        """for a filter of the stream boltnest: the use T behind the (nested) sub-query and the store's verdict on T alone"""
        if stream != "boltnest":
            return "", None
        best = None
        for t, v in nest_alone.items():
            if t != text and t in text and (best is None or len(t) > len(best[0])):
                best = (t, v)
        if best is None:
            return "", None
        t, v = best
        if v == "E":
            return (" The filter uses %r behind a (nested) sub-query; on its own the same store REJECTS %r (ast.Parse returns an error): the symbol was "
                    "checked against the symbol table of another scope, the ill-typed filter was accepted and its evaluation reads a symbol in a way its kind "
                    "does not support" % (t, t)), dict(use=t, verdict_of_the_use_alone=v)
        return " The filter uses %r behind a (nested) sub-query (on its own: %s)" % (t, v), dict(use=t, verdict_of_the_use_alone=v)

    distinct = set()
    disagreements = []
    evaluations = 0
    verdict_hist = {}
    # violations are reported shortest input first so that the first replay of a class is minimal
    def weight(k):
        cps = code_points(cases[k].split()[2])
        return (len(cps), sum(1 for x in cps if x < 32 or x > 126), k)
    order = sorted(range(len(cases)), key=weight)
    for k in order:
        case, i, m = cases[k], impl[k], modl[k]
        cf, fi, fm = case.split(), i.split(), m.split()
        stream, text, typings = cf[1], runes(cf[2]), cf[3].split("/")
        itoks, ierr, verdicts, pooled = fi[1], fi[2], fi[3].split("/"), fi[4]
        entries, entry_sites = parse_entries(fi[5]) if len(fi) > 5 else ("", {})
        mtoks, mdrops, sentence = fm[1], fm[2], fm[3]
        evaluations += len(verdicts)
        if itoks != "-" or ierr != "e0":
            distinct.add(case)
        rep = dict(case=case, impl=i, model=m, filter=text, filter_go=go_literal(cf[2]), typings=typings, verdicts=verdicts)
        flagged = False
        for ty, v in zip(typings, verdicts):
            verdict_hist[v.split(":")[0]] = verdict_hist.get(v.split(":")[0], 0) + 1
            if v.startswith("P:"):
                c.violation("C10:panic-parse:" + v[2:], "ast.Parse(%r) panics in %s when x is typed %s" % (text, v[2:], ty), dict(rep, typing=ty))
                flagged = True
            elif v.startswith("V:") and ty == "cursors":
                # cursor-provider evaluation: V:<site>@QueryWithCursorC:<provider>@<smallest root that still panics>
                site, api, where = (v[2:].split("@") + ["-", "-"])[:3]
                provider = api.partition(":")[2]
                c.violation("C10:panic-eval:" + site,
                            "filter %r parses against the bolt-backed store and Store.QueryWithCursorC(tx, %s, query) - or walking that provider's cursor - panics in %s over %s"
                            % (text, provider, site, STORE_DATASETS.get(where, where)),
                            dict(rep, typing=ty, api="QueryWithCursorC", cursor_provider=provider, dataset=where, dataset_meaning=STORE_DATASETS.get(where, where), site=site,
                                 how_to_reproduce="stores and set indexes of harness/cmd/storageharness/c10_store.go c10sBuild (set index on mains.xss and on the fk set mains.xks), index content "
                                 "c10_cursors.go c10cWriteIndexes (values s/a/m/z with rows, `hollowv` = key bucket without rows, nope/gone = no key; roots orphan and void: index buckets never created, "
                                 "hollow: created and empty); provider as named (c10cMatrix); inside db.View: query, _ := ast.Parse(store, %r); store.QueryWithCursorC(tx, provider, query)" % text))
                flagged = True
            elif v.startswith("V:") and ty == "store":
                # store-backed evaluation: V:<site>@<api>@<smallest dataset that still panics>
                site, api, where = (v[2:].split("@") + ["-", "-"])[:3]
                api, _, provider = api.partition(":")   # QueryWithCursorC:<cursor provider of the matrix of c10_cursors.go>
                call = "%s(tx, %s, query)" % (api, provider) if provider else api
                hint, hint_rep = nest_hint(stream, text)
                c.violation("C10:panic-eval:" + site,
                            "filter %r parses against the bolt-backed store and Store.%s panics in %s when it is evaluated over %s.%s"
                            % (text, call, site, STORE_DATASETS.get(where, where), hint),
                            dict(rep, typing=ty, api=api, cursor_provider=provider or None, dataset=where, dataset_meaning=STORE_DATASETS.get(where, where), site=site, nested_scope=hint_rep,
                                 how_to_reproduce="define the stores of harness/cmd/storageharness/c10_store.go c10sBuild (main store `mains`: scalars s i f b a c d y name xs xi xf xb xd, "
                                 "xp below the bucket path ext/deep, fk xk -> subs, sets ss is xss xis xfs xbs xds, fk sets xks -> subs and xms -> mains, map tags; subs: fk set xks -> leaves, owners -> mains; "
                                 "leaves: owners -> mains; the names q<kM><kS><kL> of c10_nest.go c10nAddClashSymbols: kind s string, i int64, k fk, t string set, u fk set, m map in mains / subs / "
                                 "leaves, fk and fk set to the next store of mains -> subs -> leaves -> mains), write the entity profile named by "
                                 "`dataset` (c10sWriteMain), then call Store.%s(tx, %r) inside db.View" % (api, text)))
                flagged = True
            elif v.startswith("V:"):
                c.violation("C10:panic-eval:" + v[2:], "filter %r parses (x typed %s) and panics in %s when evaluated (null fields / empty sets)" % (text, ty, v[2:]),
                            dict(rep, typing=ty))
                flagged = True
        accepted = [ty for ty, v in zip(typings, verdicts) if v == "ok" or v.startswith("V:")]
        # every public parsing entry point: panics, and who accepts the text
        entry_accepts = [ENTRY_NAMES[k] for k, l in enumerate(entries) if l == "A"]
        for k, l in enumerate(entries):
            if l == "P":
                site = entry_sites.get(k, "?")
                evaluating = (k == 6 and entries[5] == "A") or (k == 8 and entries[7] == "A")
                c.violation("C10:panic-%s:%s" % ("eval" if evaluating else "parse", site), "%s panics in %s on the filter %r" % (ENTRY_NAMES[k], site, text),
                            dict(rep, entry_point=ENTRY_NAMES[k], entries=entries))
                flagged = True
        if ierr != "e0" and (accepted or entry_accepts):
            who = ("ast.Parse (x typed %s)" % accepted[0]) if accepted else entry_accepts[0]
            rejecting = [ENTRY_NAMES[k] for k, l in enumerate(entries) if l == "R"]
            c.violation("C10:lexer-error-accepted",
                        "filter %s = %r contains characters no token rule accepts (%s lexer errors, the regions are dropped) and is nevertheless accepted by %s%s"
                        % (go_literal(cf[2]), text, ierr[1:], who, (" (while %s rejects it)" % rejecting[0]) if rejecting else ""), dict(rep, typing=accepted[0] if accepted else None, accepted_by=["ast.Parse typed " + t for t in accepted] + entry_accepts,
                                                      rejected_by=[ENTRY_NAMES[k] for k, l in enumerate(entries) if l == "R"], entries=entries))
            flagged = True
        if sentence == "0" and (accepted or entry_accepts) and text != "":
            c.violation("C10:non-sentence-accepted", "filter %r is not a sentence of the grammar and is accepted by %s"
                        % (text, ("ast.Parse (x typed %s)" % accepted[0]) if accepted else entry_accepts[0]),
                        dict(rep, accepted_by=["ast.Parse typed " + t for t in accepted] + entry_accepts, entries=entries))
            flagged = True
        # whether a text is refused is a function of the text: the entry points that decide on syntax alone agree, and an entry
        # point that adds symbol / type checks (or evaluates) never accepts what the one below it refuses
        if entries and text != "" and not flagged:
            dis = None
            for k in (1, 2, 3):
                if entries[k] != entries[0] and "P" not in (entries[k], entries[0]):
                    dis = (k, 0)
                    break
            if dis is None:
                for k, j in ENTRY_IMPLIES:
                    if entries[k] == "A" and entries[j] == "R":
                        dis = (k, j)
                        break
            if dis is None and accepted and entries[0] == "R":
                dis = ("ast.Parse (x typed %s)" % accepted[0], 0)
            if dis is not None:
                k, j = dis
                kn = ENTRY_NAMES[k] if isinstance(k, int) else k
                acc, rej = (kn, ENTRY_NAMES[j]) if (not isinstance(k, int) or entries[k] == "A") else (ENTRY_NAMES[j], kn)
                c.violation("C10:entry-points-disagree",
                            "filter %r is accepted by %s and rejected by %s: whether a text is a sentence of the filter grammar cannot depend on the entry point"
                            % (text, acc, rej), dict(rep, accepted_by=acc, rejected_by=rej, entries=entries, entry_points=ENTRY_NAMES))
                flagged = True
        if pooled.startswith("pP:"):
            c.violation("C10:panic-parse:" + pooled[3:], "zitiql.Parse(%r) panics in %s" % (text, pooled[3:]), rep)
            flagged = True
        elif pooled != "p1":
            c.violation("C10:pooled-state", "pooled and fresh lexer/parser instances disagree on syntax errors for %r" % text, rep)
            flagged = True
        if flagged:
            continue
        if itoks != mtoks or ierr != mdrops:
            disagreements.append((case, i, m, "lexer tokens / dropped regions"))
        elif sentence == "1" and "bool" in typings and verdicts[typings.index("bool")] != "ok":
            disagreements.append((case, i, m, "a sentence over boolean symbols is rejected"))
    if c.replay:
        for case, i, m in zip(cases, impl, modl):
            vlib.log("REPLAY case=%s\n  impl =%s\n  model=%s" % (case, i, m))
    # ---- termination in practice: a filter with 40 alternating and/or connectives (245 characters) must parse;
    #      run in a child process under a timeout (the ANTLR prediction can take time exponential in the chain length)
    if not c.replay or "scalecase" in json.load(open(c.replay)):
        limit = 10
        rc, out = vlib.run([harness, "c10", "--scalecase", "20", "--out", c.work], timeout=limit)
        scale = [l.split() for l in out.split("\n") if l.startswith("SCALE ")]
        c.cov["parse_time_scaling_ms"] = {l[1]: float(l[3]) for l in scale}
        if rc != 0 or len(scale) < 4:
            done = ", ".join("%s connectives: %s ms" % (l[1], l[3]) for l in scale)
            c.violation("C10:parse-time-exponential",
                        "parsing `a and a or a and a ...` with 40 connectives (245 characters) did not finish within %d s (%s): "
                        "prediction time grows exponentially with the number of mixed connectives" % (limit, done or "nothing finished"),
                        dict(scalecase=20, filter="a" + " and a or a" * 20, timeout_s=limit, finished=scale, rc=rc))
    if term_bg is not None:
        term_step(c, harness, launched=term_bg)
    if not c.replay:
        page_step(c, harness)
    c.cov["evaluations"] = evaluations
    c.cov["cases"] = len(cases)
    c.cov["distinct_nontrivial"] = len(distinct)
    c.cov["disagreements_checked"] = len(disagreements)
    c.cov["verdicts"] = verdict_hist
    try:
        c.cov["input_distribution"] = json.load(open(os.path.join(c.work, "stats.json")))
    except Exception:
        pass
    c.cov["rule"] = ("streams: sent = every lhs form (x, anyOf/allOf/count(x), count(from x where ..), any-typed, set, dotted) x every operator x every literal kind of the grammar "
                     "+ boolean forms, sub-queries, sort/skip/limit with odd numbers, hand-written malformed filters, each under 10 typings of x (string int float bool datetime any "
                     "set-string set-int set-datetime unknown); mut = token-level mutations of them; seqA = ALL sequences of <= %d pieces over {a and or not ( ) blank}, "
                     "seqB = all of <= %d over {x blank = 1 \"s\" in [ ] null between and not}; rand = random code points / lexer fragments / raw bytes. "
                     "bolt* = the sentence matrix with x renamed to every kind of symbol of real boltz stores (scalars of every type, prefixed field, fk, string/int/float/bool/datetime sets, fk sets, "
                     "dotted chains through fk and fk-set symbols, map elements, unknown names), as top-level filter, as inner filter of sub-queries over the linked stores, wrapped in not/and/or/sort clauses, "
                     "and token-level mutations of those; typing `store`: parsed against the real store and evaluated through QueryIds / QueryIdsC / IterateIds(+Seek) / IterateValidIds / QueryWithCursorC "
                     "(row-id list with ids of missing entities, related-entity cursors) over a bolt file with the entity profiles full / NEVER WRITTEN / nil+empty / scalars only / sets only / dangling references / mistyped / "
                     "ONE STORAGE TYPE (m9-<T>, s9-<T>: every field, set entry, fk / fk-set entry, prefix field and map element - flat and nested - holds a well-formed value of storage type T, "
                     "T in int32 int64 float64 bool time string nil, so that every conversion of the evaluator - string / numeric / datetime / bool operators over any-typed symbols and map elements, "
                     "sort comparators, linked ids - meets every storage type, in the main store and through fk / fk-set links) "
                     "and over the roots all / orphan (linked stores never created) / hollow (no entity) / void (no bucket); a panic is minimised to the single entity profile that is needed. "
                     "lit = literal-taking constructs (comparison operands, between bounds, in-lists of 1..4 elements, skip / limit of the query and of sub-queries, operands inside and behind "
                     "sub-queries, under and / or / not) x every literal position x NUMBER tokens beyond float64 / int64 (1e999, -1e400, 1e309, 310- / 401- / 1260-digit integers, exponents of 20 digits) and "
                     "DATETIME tokens that are no instant (30 February, 29 February of common years, 31 April, second 60, years of 1 / 3 / 5 / 8 / 30 digits), the other positions convertible; all positions at "
                     "once; edge values that convert (int64 min / max and neighbours, largest float64, denormals, -0, underflow, leap days, years 0000 / 9999, 40-digit fractions) at the first and last position; "
                     "ten typings of x; boltlit = every third one with x renamed to int64 / float64 / datetime scalars and sets of the bolt-backed store. "
                     "boltnest = 36 names that clash between the stores mains / subs / leaves (orthogonal array: every ordered pair of the kinds scalar string, scalar int64, fk, string set, fk set, map "
                     "for every pair of stores) + symbols without clash, used (N = .., N.s = .., N.xss, N.i, in-list, anyOf / isEmpty, from N where, sort by) BEHIND a sub-query of depth 1, 2, 3 over every "
                     "order of the stores - in the outer scope (P and T / P or T with P constant, so every row reaches T) and in the middle scopes behind the inner sub-query -, and on their own. "
                     "ins = 17 short valid sentences with one of 42 punctuation / control / blank-like / non-ASCII characters inserted at every position. "
                     "edge = 125 blank-like runes from Go's unicode tables (IsSpace, IsControl, Zs Zl Zp, White_Space, Pattern_White_Space, Bidi / Join controls, soft hyphen, ZWSP, BOM, U+FFFD, "
                     "non-characters, look-alikes of ASCII under case mapping / NFKC) + 11 byte sequences that are not UTF-8 + 12 mixtures with grammar white space: alone, as first / last characters "
                     "of every short sentence (bare and next to grammar white space), behind the first token, in place of a blank, around both ends / middle and last token boundary (every 4th "
                     "sentence), one character of a sentence replaced by its look-alike; the Coq table blank_like_foreign is compared with the population (case line W). "
                     "TERMINATION (coverage key `termination`): 32 families of growing size (7 of them dotted identifiers of 2..40 elements over cycles of the store link graph) x (valid + 12 invalid twins; + 5 twins with one path element replaced) x 11 entry points, each call under max(5 s, 100 x valid twin). "
                     "ENTRY POINTS: every filter of every stream through zitiql.Parse, ParseWithDebug(false), ParseWithDebug(true), Parse after the debug run, Parse with the ast listener, "
                     "ast.Parse + QueryIds(string) of a boltz store, ast.Parse + QueryEntities(string) of an objectz store: accept / reject / panic per entry point; the syntax-only ones must be equal, "
                     "a typed one never accepts what the one below it refuses, none accepts a lexer error or a non-sentence. "
                     "boltpage / qcurpage = 7 predicates x 6 scanner-selecting clauses (unsorted, sort by id asc / desc, field keys) x skip / limit literals 2^48+1, 2^53+1, 2^62, int64 max - 807 / - 1 / max, "
                     "sums that overflow int64, int64 min, -1 (all beyond the largest allocation of the Go runtime: a make() sized by one panics instead of allocating), also as sub-query paging; typing store resp. cursors; "
                     "allocatable huge limits: coverage key `huge_paging_under_memory_limit`. "
                     "qcur = 15 predicates x 13 sort / skip / limit clauses (every scanner), typing `cursors`: QueryWithCursorC + a walk of the cursor in both directions for EVERY provider of the matrix "
                     "(IteratorMatchingAnyOf / AllOf on a string-set and an fk-set index with every value list of length 0..3 (thorough 0..4) over {absent, absent, key without rows, one row, several rows}, "
                     "OpenValueCursor / OpenKeyCursor, tree sets of 0..3 ids, union / filtered cursors over them and over nil / empty cursors, empty and nil providers, entities bucket, related-entity cursors, "
                     "a stored id list) over the four roots (indexes filled with ids of missing entities / never created / created and empty / no bucket); the store typing runs 3 providers per filter. "
                     "evaluations = (filter, typing) verdicts; each parsed filter is evaluated on a filled and an all-null/empty dataset; non-trivial = produces a token or a lexer error; distinct by case text"
                     % ((6, 5) if c.thorough else (5, 4)))
    idx = sorted(set((0, min(7, len(cases) - 1), len(cases) // 2, len(cases) - 1)))
    c.cov["samples"] = [dict(case=cases[k], impl=impl[k], model=modl[k]) for k in idx]
    if table_mismatch and not c.violations:
        ca, i, m = table_mismatch[0]
        c.violation("C10:correspondence", "the blank-like characters of Go's unicode tables (harness c10_edge.go c10wRunes) are not the table blank_like_foreign of "
                    "Lang/ForeignBlank.v that the theorems about the edges of a text cover (t in table, s starts no token, e ends no token, w no grammar white space, "
                    "n size): harness %s model %s" % (i, m),
                    dict(correspondence="Lang/ForeignBlank.v blank_like_foreign vs unicode.IsSpace / IsControl / Zs Zl Zp / format characters", case=ca, impl=i, model=m,
                         theorems=["blank_like_characters_are_foreign", "foreign_blank_at_an_edge_rejected"]), no_input=True)
    if disagreements and not c.violations:
        case, i, m, what = disagreements[0]
        c.violation("C10:correspondence", "model and implementation differ (%s) on %d cases, e.g. %r: impl %s model %s"
                    % (what, len(disagreements), runes(case.split()[2]), i, m),
                    dict(correspondence="Lang/LexerFull.v + Lang/Lexer.v vs zitiql lexer; Lang/BoolGrammar.v vs parser",
                         theorems=THEOREMS, case=case, impl=i, model=m), no_input=True)
    if not proof_ok:
        c.violation("C10:proof", "proof obligation no longer checks: %s" % json.dumps(c.proof_broken)[:600],
                    dict(broken=c.proof_broken), no_input=True)
    return c.finish()
