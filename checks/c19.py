"""C19 - the in-memory object store answers queries like the bolt-backed store.
Proof: coq/theories/Properties/C19.v (models Query/ObjectScan.v, Query/ScalarFilter.v + the C02 models).
Correspondence: objectz.ObjectStore.QueryEntities and boltz Store.QueryIds on the same generated
collections and the same query text, against each other and against the extracted model /
specification."""
import json
import os

import vlib

PID = "C19"
FILES = ["theories/Properties/C19.v", "theories/Examples/C19Examples.v"]

ARITY = {"T": 0, "F": 0, "N": 1, "A": 2, "O": 2}


def fields(line):
    return dict(tok.split("=", 1) for tok in line.split() if "=" in tok)


def split_res(v):
    if ":" not in v:
        return v, None
    cnt, ids = v.split(":", 1)
    return cnt, ([] if ids == "-" else ids.split(","))


def parse_filter(toks, pos):
    """returns (tree, next position); tree = (kind, [children], tokens of this node)"""
    k = toks[pos]
    if k in ARITY:
        kids = []
        p = pos + 1
        for _ in range(ARITY[k]):
            t, p = parse_filter(toks, p)
            kids.append(t)
        return (k, kids, [k]), p
    n = {"cmp": 5, "null": 4, "has": 6, "btw": 5, "sym": 3}.get(k)
    if k == "in":
        n = 4 + int(toks[pos + 3])
    return (k, [], toks[pos:pos + n]), pos + n


def flat(tree):
    k, kids, toks = tree
    out = list(toks) if not kids else [k]
    for t in kids:
        out += flat(t)
    return out


def kinds(tree):
    k, kids, _ = tree
    s = {k}
    for t in kids:
        s |= kinds(t)
    return s


def parse_query(case):
    f = case.split()
    style = "0"
    if f[0] == "QV":        # a query whose text is respelled outside its literals (c19seq.go)
        style, f = f[1], ["Q"] + f[2:]
    tree, p = parse_filter(f, 2)
    ns = int(f[p])
    sort = [tuple(f[p + 1 + 3 * i: p + 4 + 3 * i]) for i in range(ns)]
    return dict(order=f[1], filter=tree, sort=sort, skip=f[p + 1 + 3 * ns], limit=f[p + 2 + 3 * ns], style=style)


def build_query(q):
    head = ["Q"] if q.get("style", "0") == "0" else ["QV", q["style"]]
    toks = head + [q["order"]] + flat(q["filter"]) + [str(len(q["sort"]))]
    for s in q["sort"]:
        toks += list(s)
    return " ".join(toks + [q["skip"], q["limit"]])


def classify(q, got, want, legacy, side):
    gc, gi = split_res(got)
    wc, wi = split_res(want)
    if gi is None:
        return "C19:%s-%s" % (side, gc.lower())
    skip = None if q["skip"] == "-" else int(q["skip"])
    unbounded = q["limit"] in ("-", "none") or int(q["limit"]) < 0
    if side == "objectz" and got == legacy:
        if "null" in kinds(q["filter"]) and gc != wc:
            return "C19:isnil-typed-nil"
        if skip is not None and skip < 0 and gc == wc:
            return "C19:negative-skip-shrinks-page"
        if skip is not None and skip > 0 and gc == wc and (unbounded or skip + int(q["limit"]) >= 2 ** 63):
            return "C19:skip-overflow"
        if "null" in kinds(q["filter"]):
            return "C19:isnil-typed-nil"
    if gc != wc:
        return "C19:%s-count" % side
    if sorted(gi) == sorted(wi):
        return "C19:%s-order" % side
    return "C19:%s-page" % side


class Runner:
    def __init__(self, c, harness, model):
        self.c, self.harness, self.model, self.n = c, harness, model, 0

    def run(self, lines):
        self.n += 1
        wd = os.path.join(self.c.work, "r%d" % self.n)
        os.makedirs(wd, exist_ok=True)
        rin = os.path.join(wd, "in.txt")
        with open(rin, "w") as f:
            f.write("\n".join(lines) + "\n")
        rc, out = vlib.run([self.harness, "c19", "--out", wd, "--replaycase", rin], timeout=300)
        if rc != 0:
            return None, None, out
        impl = vlib.read_lines(os.path.join(wd, "impl.txt"))
        modl = vlib.run_model(self.model, "c19", os.path.join(wd, "cases.txt"), os.path.join(wd, "model.txt"))
        text = [l.split(": ", 1)[1] for l in out.split("\n") if l.startswith("replay query text: ")]
        return impl, modl, text


def verdict(i, m):
    """None when the pair of observations is acceptable, else (side, got, want)"""
    fi, fm = fields(i), fields(m)
    if fi["objectz"] == "PANIC" and fi["boltz"] == "PANIC":
        return None          # the shared evaluator fails identically on both stores: not a C19 matter
    omap = fi.get("objectzmap", fi["objectz"])    # the object store fed through objectz.IterateMap
    if fm["ok"] != "1":
        if fi["objectz"] != fi["boltz"]:
            return ("differs", fi["objectz"], fi["boltz"])
        if omap != fi["boltz"]:
            return ("differs", omap, fi["boltz"])
        return None
    if fi["objectz"] != fm["spec"]:
        return ("objectz", fi["objectz"], fm["spec"])
    if omap != fm["spec"]:
        return ("objectz", omap, fm["spec"])
    if fi["boltz"] != fm["spec"]:
        return ("bolt", fi["boltz"], fm["spec"])
    return None


def via_map(i, m):
    """the violation is one of the store fed through the library's map iterator only"""
    fi, fm = fields(i), fields(m)
    want = fm["spec"] if fm["ok"] == "1" else fi["boltz"]
    return fi["objectz"] == want and fi.get("objectzmap", want) != want


def drop_rows(dline, q, lo, hi):
    """the dataset without rows lo..hi-1 and the query with its iterator order renumbered"""
    f = dline.split()
    n, nc = int(f[1]), int(f[2])
    rows = [f[3 + i * (nc + 1): 3 + (i + 1) * (nc + 1)] for i in range(n)]
    del rows[lo:hi]
    d2 = " ".join(["D", str(len(rows)), str(nc)] + [t for r in rows for t in r])
    order = [] if q["order"] == "-" else [int(x) for x in q["order"].split(",")]
    order = [x - (hi - lo) if x >= hi else x for x in order if not lo <= x < hi]
    q2 = dict(q, order=",".join(str(x) for x in order) if order else "-")
    return d2, q2


def drop_row(dline, q, k):
    return drop_rows(dline, q, k, k + 1)


def show_cell(tok):
    """a cell token in readable form (the replay keeps the exact token)"""
    k, rest = tok[0], tok[1:]
    try:
        if k == "T":
            sec, nsec = (int(x) for x in rest.split(":"))
            if -62135596800 <= sec <= 253402300799:
                import datetime
                t = datetime.datetime(1970, 1, 1) + datetime.timedelta(seconds=sec)
                return "%s.%09dZ" % (t.strftime("%Y-%m-%dT%H:%M:%S").rjust(19, "0"), nsec)
            return "unix %d s + %d ns (outside the years 1-9999)" % (sec, nsec)
        if k == "F":
            import struct
            return repr(struct.unpack(">d", bytes.fromhex(rest))[0])
        if k == "S":
            b = b"" if rest == "-" else bytes.fromhex(rest)
            return repr(b)[1:] if len(b) <= 24 else "%s... (%d bytes)" % (repr(b[:12])[1:], len(b))
        if k == "I":
            return rest
    except Exception:
        pass
    return {"N": "null", "B1": "true", "B0": "false"}.get(tok, tok)


def show_keys(dline, q, limit=6):
    """the sort-key values of the (few) objects of a minimal case: `id{ft=...}`"""
    f = dline.split()
    n, nc = int(f[1]), int(f[2])
    cols = [int(c) for c, _, _ in q["sort"] if c != "id"]
    if not cols or n == 0 or n > limit:
        return ""
    names = ["fs", "fi", "fj", "ff", "fb", "ft", "keep", "grp"]
    out = []
    for i in range(n):
        row = f[3 + i * (nc + 1): 3 + (i + 1) * (nc + 1)]
        out.append("%s{%s}" % (row[0], ", ".join("%s=%s" % (names[c] if c < len(names) else c, show_cell(row[1 + c])) for c in cols)))
    return "; sort keys: " + " ".join(out)


def key_of(q, v, legacy):
    side, got, want = v
    if side == "differs":
        return "C19:differs-on-unmodelled-filter"
    return classify(q, got, want, legacy, side)


def less_skip(q, k):
    """the query with its (positive, small) skip reduced by k; the same query when that is not possible"""
    try:
        sk = int(q["skip"])
    except ValueError:
        return q
    if k <= 0 or sk < k or sk >= 2 ** 31:
        return q
    return dict(q, skip=str(sk - k))


def bad_after(runner, dline, pre, q, key):
    """does the query, asked after the queries `pre` on new stores over the collection, still violate with this key?"""
    lines = [dline] + [build_query(p) for p in pre] + [build_query(q)]
    impl, modl, _ = runner.run(lines)
    if not impl or len(impl) != len(lines) or not modl or len(modl) != len(lines):
        return False
    v = verdict(impl[-1], modl[-1])
    return v is not None and key_of(q, v, fields(modl[-1])["legacy"]) == key


def find_history(runner, dline, q, key, session):
    """the violation does not show when the query is the first one on new stores.  Returns the earlier queries of the
    session (on the same collection) that are needed in front of it: one of them if one suffices (the latest such),
    else all of them (at most the last 40) if that reproduces it, else None"""
    same = []
    for line in session:
        if line.startswith("D"):
            same = []
        elif line.startswith("Q"):
            same.append(parse_query(line))
    same = same[-40:]
    for p in reversed(same[-12:]):
        if bad_after(runner, dline, [p], q, key):
            return [p]
    if len(same) > 1 and bad_after(runner, dline, same, q, key):
        return same
    return None


def shrink(runner, dline, q, key, pre=()):
    pre = list(pre)
    tried = set()

    def still_bad(d2, q2, pre2=None):
        pre2 = pre if pre2 is None else pre2
        case = "\n".join([d2] + [build_query(p) for p in pre2] + [build_query(q2)])
        if case in tried:
            return False
        tried.add(case)
        return bad_after(runner, d2, pre2, q2, key)

    def without(lo, hi):
        d2, q2 = drop_rows(dline, q, lo, hi)
        return d2, q2, [drop_rows(dline, p, lo, hi)[1] for p in pre]
    # large collections (the extreme-value ones): remove blocks of rows first, halving the block size
    size = int(dline.split()[1]) // 2
    while size >= 2:
        lo = 0
        while lo < int(dline.split()[1]):
            hi = min(lo + size, int(dline.split()[1]))
            d2, q2, p2 = without(lo, hi)
            if still_bad(d2, q2, p2):
                dline, q, pre = d2, q2, p2
            elif still_bad(d2, less_skip(q2, hi - lo), p2):
                dline, q, pre = d2, less_skip(q2, hi - lo), p2
            else:
                lo += size
        size //= 2
    changed = True
    while changed:
        changed = False
        for k in range(int(dline.split()[1])):
            d2, q2, p2 = without(k, k + 1)
            if still_bad(d2, q2, p2):
                dline, q, pre, changed = d2, q2, p2, True
                break
            if still_bad(d2, less_skip(q2, 1), p2):      # a row in front of the page: the page moves up with it
                dline, q, pre, changed = d2, less_skip(q2, 1), p2, True
                break
        if changed:
            continue
        for k in range(len(pre)) if len(pre) > 1 else []:
            if still_bad(dline, q, pre[:k] + pre[k + 1:]):
                pre, changed = pre[:k] + pre[k + 1:], True
                break
        if changed:
            continue
        for k in range(len(q["sort"])):
            q2 = dict(q, sort=q["sort"][:k] + q["sort"][k + 1:])
            if still_bad(dline, q2):
                q, changed = q2, True
                break
        if changed:
            continue
        if q.get("style", "0") != "0" and still_bad(dline, dict(q, style="0")):
            q, changed = dict(q, style="0"), True
            continue
        # replace the filter by one of its direct sub-filters, or by `true`
        cands = list(q["filter"][1])
        if q["filter"][0] != "T":
            cands.append(("T", [], ["T"]))
        for sub in cands:
            q2 = dict(q, filter=sub)
            if still_bad(dline, q2):
                q, changed = q2, True
                break
    return dline, q, pre


def ignored_sort_suffix(runner, dline, q, got):
    """k when the (wrong) answer `got` is what the specification demands for the first k sort fields of the
    query only, i.e. the store ignores the fields after the k-th (largest such k); None otherwise"""
    for k in reversed(range(len(q["sort"]))):
        _, modl, _ = runner.run([dline, build_query(dict(q, sort=q["sort"][:k]))])
        if modl and len(modl) == 2 and fields(modl[1]).get("ok") == "1" and fields(modl[1])["spec"] == got:
            return k
    return None


def main(argv):
    c = vlib.Check(PID, argv)
    c.cov["trusted_base"] = [
        "Coq 8.16.1 kernel (coqc; coqchk in the thorough tier); vm_compute in Examples only; no axioms",
        "hand-written models Query/ObjectScan.v (objectz cursor null test, always-sorting scan) and Query/ScalarFilter.v "
        "(typed scalar filter nodes of the ast package) + the C02 models (comparators, setPaging, bounded tree)",
        "objectz comparators / setPaging / memSortingScanner are textual copies of the boltz ones and share their model",
        "extraction (ExtrOcamlBasic only) + extraction/c19_driver.ml + drv_common.ml",
        "Go harness cmd/storageharness/c19.go + c19ext.go + c19long.go + c19seq.go + c02.go (generators, the respelling of query texts outside their literals, filter printer, float literal conversion) and this comparison",
    ]
    c.assumptions = [
        "object ids are unique; the bolt store holds the same values with the symbol's own field type",
        "no NaN float values (sort keys); fewer than 2^63 objects",
        "icontains operands are ASCII; float symbols are not used with contains (float formatting is not modelled)",
        "icontains on a nullable symbol is generated under a `!= null` guard (the unguarded form hits a C01 finding in the shared ast evaluator)",
    ]
    proof_ok = c.proof_step(FILES)
    model = vlib.build_model("C19")
    harness, err = vlib.build_harness()
    if harness is None:
        c.violation("C19:harness-build", "harness does not build against the repository: " + err[-800:],
                    dict(correspondence="harness build", log=err[-3000:]), no_input=True)
        return c.finish()
    runner = Runner(c, harness, model)

    if c.replay:
        rp = json.load(open(c.replay))
        impl, modl, text = runner.run(rp["case"].split("\n"))
        if impl is None:
            vlib.log("replay failed: %s" % text)
            return 1
        bad = 0
        for case, i, m in zip(rp["case"].split("\n"), impl, modl):
            vlib.log("REPLAY case=%s\n  impl =%s\n  model=%s" % (case, i, m))
            if case.startswith("Q") and verdict(i, m) is not None:
                bad += 1
        vlib.log("replay query text: %s" % text)
        vlib.log("REPLAY %s" % ("still violates the specification" if bad else "agrees with the specification"))
        c.finish()
        return 1 if bad else 0

    cases_path = os.path.join(c.work, "cases.txt")
    rc, out = vlib.run([harness, "c19", "--seed", str(c.seed), "--tier", c.tier, "--out", c.work], timeout=1800)
    if rc != 0:
        c.violation("C19:harness-run", "harness failed rc=%s: %s" % (rc, out[-500:]),
                    dict(correspondence="harness run", log=out[-3000:]), no_input=True)
        return c.finish()
    cases = vlib.read_lines(cases_path)
    impl = vlib.read_lines(os.path.join(c.work, "impl.txt"))
    modl = vlib.run_model(model, "c19", cases_path, os.path.join(c.work, "model.txt"))
    assert len(cases) == len(impl) == len(modl), (len(cases), len(impl), len(modl))

    distinct = set()
    reported = {}
    internal = []
    nqueries = both_panic = unmodelled = 0
    samples = []
    dline, dindex = None, 0
    session = None      # the case lines since the last `S` (new object stores); None: the stores of the whole run
    nsessions = nrespelled = history_dependent = 0
    dependent = {}
    probes = 0
    for case, i, m in zip(cases, impl, modl):
        if case.startswith("S"):
            session, nsessions = [], nsessions + 1
            continue
        if case.startswith("D"):
            dline, dindex = case, dindex + 1
            if session is not None:
                session.append(case)
            continue
        nqueries += 1
        q = parse_query(case)
        nrespelled += q["style"] != "0"
        hist = list(session) if session is not None else None
        if session is not None:
            session.append(case)
        fi, fm = fields(i), fields(m)
        if nqueries in (1, 300, 900):
            samples.append(dict(dataset=dline, case=case, impl=i, model=m))
        if fi["objectz"] == "PANIC" and fi["boltz"] == "PANIC":
            both_panic += 1
        if fm["ok"] != "1":
            unmodelled += 1
        elif fm["objectz"] != fm["spec"] or fm["boltz"] != fm["spec"]:
            internal.append((dline, case, i, m))
        sc, si = split_res(fm["spec"])
        if fm["ok"] == "1" and int(sc) >= 1 and (q["filter"][0] != "T" or q["sort"] or q["skip"] != "-" or q["limit"] != "-"):
            distinct.add((dindex, " ".join(case.split()[2:])))
        v = verdict(i, m)
        if v is None:
            continue
        side, got, want = v
        key = key_of(q, v, fm["legacy"])
        reported[key] = reported.get(key, 0) + 1
        over = reported[key] > 2
        if over:
            # enough reports of this class - but inside a session one more look (bounded) whether the disagreement
            # is one that depends on the earlier queries: that deserves its own report with the queries in front
            if hist is None or probes >= 40 or sum(dependent.values()) >= 2:
                continue
            probes += 1
        pre = []
        alone = bad_after(runner, dline, [], q, key)
        if over and alone:
            continue
        if not alone:
            # not reproduced by this query alone on new stores: the answer depends on earlier queries on the same
            # ObjectStore (objectz_session_independent); look for them in the session
            history_dependent += 1
            pre = find_history(runner, dline, q, key, hist) if hist else None
        rkey = key
        if pre:
            # the class of the wrong answer (count / page / order) says little here: report the dependence itself
            rkey = "C19:%s-depends-on-earlier-query" % ("bolt" if side == "bolt" else "objectz")
            dependent[rkey] = dependent.get(rkey, 0) + 1
            if dependent[rkey] > 2:
                continue
        if over and not pre:
            continue
        if pre is None:
            d2, q2, pre = dline, q, []
        else:
            d2, q2, pre = shrink(runner, dline, q, key, pre)
        lines2 = [d2] + [build_query(p) for p in pre] + [build_query(q2)]
        impl2, modl2, text = runner.run(lines2)
        texts = text if isinstance(text, list) and len(text) == len(lines2) - 1 else ["?"] * (len(lines2) - 1)
        text = texts[-1]
        v2 = verdict(impl2[-1], modl2[-1]) if impl2 and len(impl2) == len(lines2) else None
        who = {"objectz": "object store", "bolt": "bolt store", "differs": "object store"}[side]
        if side != "bolt" and via_map(i, m):
            who = "object store fed through objectz.IterateMap"
        what = "%s answers %s, expected %s" % (who, got, want)
        if v2:
            fi2 = fields(impl2[-1])
            what += "; minimal: %s`%s` on %s object(s): %s, expected %s (object store %s, object store fed through objectz.IterateMap %s, bolt store %s)" % (
                "after %s on the same ObjectStore, " % ", ".join("`%s`" % t for t in texts[:-1]) if pre else "",
                text, d2.split()[1], v2[1], v2[2], fi2["objectz"], fi2.get("objectzmap", "?"), fi2["boltz"])
            if pre:
                what += ("; asked alone the query is answered correctly: the answer depends on what was asked before "
                         "(theorem objectz_session_independent: it must not)")
            what += show_keys(d2, q2)
            if side in ("objectz", "bolt") and len(q2["sort"]) > 1 and v2[1] not in ("ERR", "PANIC"):
                k = None if pre else ignored_sort_suffix(runner, d2, q2, v2[1])
                if k is not None:
                    what += "; this is the answer for the first %d of the %d sort fields only: the %s ignores `%s`" % (
                        k, len(q2["sort"]), {"objectz": "object store", "bolt": "bolt store"}[side],
                        ", ".join("%s %s" % ("id" if c0 == "id" else (["fs", "fi", "fj", "ff", "fb", "ft", "keep", "grp"][int(c0)]), "asc" if a == "a" else "desc")
                                  for c0, _, a in q2["sort"][k:]))
        c.violation(rkey, what, dict(case="\n".join(lines2), query_text=text, earlier_queries=texts[:-1],
                                    impl=impl2[-1] if impl2 else i, model=modl2[-1] if modl2 else m,
                                    original_case=dline + "\n" + case, side=side))

    c.cov["evaluations"] = nqueries
    c.cov["distinct_nontrivial"] = len(distinct)
    c.cov["disagreements_checked"] = sum(reported.values()) + len(internal)
    c.cov["sessions"] = nsessions
    c.cov["respelled_queries"] = nrespelled
    c.cov["history_dependent_disagreements"] = history_dependent
    c.cov["both_stores_panic"] = both_panic
    c.cov["unmodelled_filters"] = unmodelled
    c.cov["violation_classes"] = dict(reported, **dependent)
    c.cov["rule"] = ("per ordinary collection (0..12 objects, fields of the five scalar types + id, 0-60% nulls, value pools with ties): "
                     "(1) the full paging grid skip x limit (99 points) for `true` in default order and for a null test under a sort; "
                     "(1a) the skip/limit pairs at the numeric extremes of int64 (skip+limit at and beyond MaxInt64 with a finite limit, "
                     "skips near MaxInt64 / 2^62 / MinInt64) in default order and under a one-key sort; "
                     "(2) every atom kind x operator x column once unpaged and once with a random sort and page "
                     "(= != < <= > >= null-tests contains/icontains in between bool-symbol, negated forms); "
                     "(3) random and/or/not combinations (depth <= 3) x random 0..5-key sorts x random grid points; "
                     "(4) a few filters outside the model (both stores must agree); "
                     "(L) random sort specifications of 6..12 fields whose leading fields repeat one to three (mostly low-cardinality) columns. "
                     "(LT) collections made of tie blocks (c19long.go: rows agreeing on up to seven columns - null cells included -, the other "
                     "columns arranged against the id order; one fixed collection + random ones) under specifications built against them: "
                     "k = 1..11 tying fields (repeated fields, mixed directions) in front of every deciding tail (a free column asc / desc, id desc, "
                     "a free column with ties + a second one, id followed by dead fields), id inside / in front of the first five of more than "
                     "five fields; unpaged and with page cuts inside a tie block. "
                     "Collections of extreme field values (c19ext.go: one fixed collection holding every pool value + random ones; "
                     "datetimes over the whole time.Time range incl. the int64 ns/us/ms boundaries 1677/2262, the zero time, 2400, 9999-12-31, year 10000, "
                     "sub-second neighbours; int64 min/max, +-2^53, 2^31/2^32; float +-Inf/+-Max/subnormals/+-0/float32 limits/1-ulp neighbours; "
                     "empty, NUL, 0xff and 300/5000-byte strings differing in the last byte (thorough: 70000 bytes); nil and absent fields): "
                     "(x1) every column ascending and descending, alone and as second key behind a column with ties, unpaged and read back "
                     "page by page (skip k limit 1 for every k, pages of 3, first/last, skip without limit); (x2) every atom kind x operator x column "
                     "with literals at the extremes, unpaged and sorted by that column with a page; (x3) random composite filters x sorts x pages. "
                     "(S) SESSIONS on new ObjectStore instances (c19seq.go; case line S = new stores, QV = the text respelled outside its literals: "
                     "keyword case, doubled separators, tabs / line breaks, margins, no blanks around comparison operators, blanks inside brackets): "
                     "collections of near-identical strings (one / two / three blanks, tab, line break, leading / trailing blank, none, lower / upper case, "
                     "quote and backslash with and without a backslash in front, a tab against the characters \\t; fixed families + random ones); "
                     "(S1) the collection changes under one pair of stores: never populated, 1 object, 23, emptied, 2, emptied, 1, emptied - the same texts each time; "
                     "(S2) every ordered pair of near-identical literals as a two-query session (operators = != contains in < not-contains icontains >=); "
                     "(S3) one query in every spelling, then its neighbour, then the first again, in one session; (S4) random sessions of 2..7 queries. "
                     "The same text goes to ObjectStore.QueryEntities of two object stores - one fed by the harness's iterator "
                     "(objects delivered in a shuffled order), one fed by objectz.IterateMap over a map that is emptied and re-populated when the "
                     "collection changes - and to QueryIds of a bolt store loaded with the same values; each answer is compared with the "
                     "specification for exactly that text (independent of the earlier queries of the session: objectz_session_independent). "
                     "Non-trivial: modelled filter, at least one matching object, and a filter/sort/skip/limit clause; distinct by (collection, query)")
    c.cov["samples"] = samples
    try:
        c.cov["input_distribution"] = json.load(open(os.path.join(c.work, "stats.json")))
    except Exception:
        pass
    if internal and not c.violations:
        d, case, i, m = internal[0]
        c.violation("C19:model-vs-spec", "extracted model differs from extracted specification on %d cases, e.g. %s: %s" % (len(internal), case, m),
                    dict(correspondence="Query/ObjectScan.v vs query_spec", theorems=["objectz_eq_spec", "objectz_eq_boltz"],
                         case=d + "\n" + case, impl=i, model=m), no_input=True)
    if not proof_ok:
        c.violation("C19:proof", "proof obligation no longer checks: %s" % json.dumps(c.proof_broken)[:600],
                    dict(broken=c.proof_broken), no_input=True)
    return c.finish()
