"""C02 - sort order, skip, limit and total count are exact.
Proof: coq/theories/Properties/C02.v (models Query/{Compare,Paging,ScanUnique,ScanSort}.v).
Correspondence: Store.QueryIds, Store.QueryWithCursorC and Store.IterateIds of a real bolt store
against the extracted model and the extracted specification, on generated datasets (ties, nulls
of every sortable type) x sort specifications x the bounded-exhaustive paging grid and the pairs at
the numeric extremes of int64 (skip + limit at and beyond MaxInt64 with a finite limit); through every
store of a parent / child / grandchild chain (plain and extended) over a mixed population; and as
programs over ONE compiled query object (executed repeatedly through QueryIdsC / QueryWithCursorC /
IterateIds / the objectz twin, with the caller's SetSkip / SetLimit / AdoptSortFields / SetPredicate
in between): models Query/ChildScan.v; and QueryWithCursorC over every cursor provider of the library
(IteratorMatchingAnyOf / AllOf over a set index, index value cursors, related-entity cursors, caller-built tree sets,
union and filtered cursors) in both directions and under non-id sorts, against the specification over the
provider's candidate SET: model Query/Provider.v."""
import json
import os

import vlib

PID = "C02"
FILES = ["theories/Properties/C02.v", "theories/Examples/C02Examples.v", "theories/Examples/C02ChildRerun.v",
         "theories/Examples/C02Provider.v"]


def fields(line):
    return dict(tok.split("=", 1) for tok in line.split() if "=" in tok)


def split_res(v):
    """'<count>:<ids>' -> (count, [ids]) ; ERR/PANIC -> (v, None)"""
    if ":" not in v:
        return v, None
    cnt, ids = v.split(":", 1)
    return cnt, ([] if ids == "-" else ids.split(","))


def ids_of(v):
    return [] if v == "-" else v.split(",")


def parse_query(case):
    f = case.split()
    ns = int(f[2])
    sort = [(f[3 + 3 * i], f[4 + 3 * i], f[5 + 3 * i]) for i in range(ns)]
    skip, limit = f[3 + 3 * ns], f[4 + 3 * ns]
    return dict(kind=f[0], bits=f[1], sort=sort, skip=skip, limit=limit)


def strategy(q):
    if not q["sort"] or q["sort"][0][0] == "id":
        return "unique"
    return "sorting"


def classify(q, got, want, legacy, what):
    """stable key for a wrong (count, ids) answer of `what` in {query, cursor-query}"""
    gc, gi = split_res(got)
    wc, wi = split_res(want)
    if gi is None:
        return "C02:%s-%s" % (what, gc.lower())
    if what.endswith("provider-query") and len(set(gi)) != len(gi):
        return "C02:%s-duplicates" % what
    if gc != wc:
        return "C02:%s-count" % what
    skip = None if q["skip"] == "-" else int(q["skip"])
    unbounded = q["limit"] in ("-", "none") or int(q["limit"]) < 0
    if got == legacy and strategy(q) == "sorting":
        if skip is not None and skip < 0:
            return "C02:negative-skip-shrinks-page"
        if skip is not None and skip > 0 and (unbounded or skip + int(q["limit"]) >= 2 ** 63):
            return "C02:sorting-skip-overflow"
    if sorted(gi) == sorted(wi):
        return "C02:%s-order" % what
    return "C02:%s-page" % what


class Runner:
    """re-runs single (dataset, query) pairs on both sides (shrinking, replay)"""

    def __init__(self, c, harness, model):
        self.c, self.harness, self.model, self.n = c, harness, model, 0

    def run(self, lines):
        self.n += 1
        wd = os.path.join(self.c.work, "r%d" % self.n)
        os.makedirs(wd, exist_ok=True)
        rin = os.path.join(wd, "in.txt")
        with open(rin, "w") as f:
            f.write("\n".join(lines) + "\n")
        rc, out = vlib.run([self.harness, "c02", "--out", wd, "--replaycase", rin], timeout=300)
        if rc != 0:
            return None, None, out
        impl = vlib.read_lines(os.path.join(wd, "impl.txt"))
        modl = vlib.run_model(self.model, "c02", os.path.join(wd, "cases.txt"), os.path.join(wd, "model.txt"))
        text = [l.split(": ", 1)[1] for l in out.split("\n") if l.startswith("replay query text: ")]
        return impl, modl, text


ENTRY = {"q": "query", "w": "cursor-query", "i": "iterate", "o": "objectz"}
ENTRY_API = {"q": "QueryIdsC", "w": "QueryWithCursorC", "i": "IterateIds", "o": "objectz QueryEntitiesC"}


def parse_program(case):
    """R line -> (query dict, ops); an op is a list of tokens, ops[k][0] in q w i o x S L A P"""
    f = case.split()
    ns = int(f[2])
    pos = 3 + 3 * ns
    q = dict(kind="R", bits=f[1], sort=[tuple(f[3 + 3 * i: 6 + 3 * i]) for i in range(ns)], skip=f[pos], limit=f[pos + 1])
    pos += 3
    ops = []
    while pos < len(f):
        t = f[pos]
        if t in ("S", "L", "P"):
            ops.append(f[pos:pos + 2])
            pos += 2
        elif t == "A":
            k = int(f[pos + 1])
            ops.append(f[pos:pos + 2 + 3 * k])
            pos += 2 + 3 * k
        else:
            ops.append([t])
            pos += 1
    return q, ops


def program_line(case, ops):
    f = case.split()
    head = f[:3 + 3 * int(f[2]) + 2]
    return " ".join(head + [str(len(ops))] + [t for op in ops for t in op])


def runs_of(ops):
    return [op[0] for op in ops if op[0] in ENTRY]


def view_name(ctx):
    """('root' | 'child' | ..., is it a store below the root)"""
    v = [l for l in ctx if l.startswith("V ")]
    if not v:
        return "root", False
    _, tier, ext = v[-1].split()
    return ["root", "child", "grandchild"][int(tier)] + ("-extended" if ext == "1" else ""), tier != "0"


def drop_bit(bits, k):
    if bits == "e":
        return bits
    b = bits[:k] + bits[k + 1:]
    return b if b else "e"


def drop_row(ctx, qline, k):
    """remove row k from the dataset line, the layout line and every match-bits token of the case"""
    out = []
    for line in ctx:
        f = line.split()
        if f[0] == "D":
            n, nc = int(f[1]), int(f[2])
            rows = [f[3 + i * (nc + 1): 3 + (i + 1) * (nc + 1)] for i in range(n)]
            del rows[k]
            line = " ".join(["D", str(n - 1), str(nc)] + [t for r in rows for t in r])
        elif f[0] in ("L", "G"):
            f[1] = drop_bit(f[1], k)
            line = " ".join(f)
        out.append(line)
    qf = qline.split()
    qf[1] = drop_bit(qf[1], k)
    if qf[0] == "P":
        qf[-2] = drop_bit(qf[-2], k)      # how often the provider's sources name the row
    if qf[0] == "R":
        _, ops = parse_program(" ".join(qf))
        for op in ops:
            if op[0] == "P":
                op[1] = drop_bit(op[1], k)
        return out, program_line(" ".join(qf), ops)
    return out, " ".join(qf)


def wrong(impl_line, model_line, part):
    fi, fm = fields(impl_line), fields(model_line)
    if part == "iter":
        return fi.get("iter") != fm.get("iterspec")
    key = "query" if part == "query" else "wc"
    return fi.get(key) != fm.get("spec")


def drop_sort_field(qline, k):
    f = qline.split()
    ns = int(f[2])
    f[2] = str(ns - 1)
    del f[3 + 3 * k: 6 + 3 * k]
    return " ".join(f)


def program_failures(case, impl_line, model_line, child):
    """[(key, run index, what)] for an R case: every execution must return the specified answer of the query as
    the caller's mutators left it, and must leave the query object asking for the same page"""
    _, ops = parse_program(case)
    runs = runs_of(ops)
    fi, fm = fields(impl_line), fields(model_line)
    pre = "C02:rerun-"          # about the query object; a failing FIRST execution is a plain (child-)query failure
    out = []
    if fi.get("n") != str(len(runs)) or "adopt" in fi or "pred" in fi or "parse" in fi:
        return [(pre + "error", 0, "the program did not run: %s" % impl_line[:200])]
    consumed = None      # first execution after which the query object asks for another page than written
    for k, e in enumerate(runs):
        if fi.get("e%d" % k) != fm.get("e%d" % k):
            consumed = (k, "execution %d (%s) left the query object asking for skip/limit %s instead of %s" % (
                k + 1, ENTRY_API[e], fi.get("e%d" % k), fm.get("e%d" % k)))
            break
    for k, e in enumerate(runs):
        got, want = fi.get("a%d" % k), fm.get("s%d" % k)
        if got != want:
            if e == "i":
                cls = "page" if got.startswith("i:") else got.lower()
            else:
                gc, gi = split_res(got)
                wc, wi = split_res(want)
                cls = gc.lower() if gi is None else "count" if gc != wc else "order" if sorted(gi) == sorted(wi) else "page"
            nth = "first execution" if k == 0 else "execution %d" % (k + 1)
            fresh = k == 0 and ops[0][0] in ENTRY      # nothing happened to the query object before: a plain query
            what = "%s of ONE compiled query (%s) returned %s, specification %s" % (ENTRY_API[e], nth, got, want)
            if consumed and consumed[0] < k:
                what += " - " + consumed[1]
            out.append(("%s%s-%s" % ("C02:child-" if fresh and child else "C02:" if fresh else pre, ENTRY[e], cls), k, what))
            return out
    if consumed:
        out.append((pre + "query-consumed", consumed[0],
                    "executing a compiled query changed what it asks for (a later execution returns another page): " + consumed[1]))
    return out


def shrink(runner, ctx, qline, part, keep_key=None, child=False):
    """greedy: drop rows, then sort keys (for programs: operations), while the implementation's answer still
    differs from the specification (and, when keep_key is given, the failure stays in the same class)"""
    def still_bad(c2, q2):
        impl, modl, _ = runner.run(c2 + [q2])
        if not impl or len(impl) != len(c2) + 1 or len(modl) != len(impl):
            return False
        if part == "prog":
            fails = program_failures(q2, impl[-1], modl[-1], child)
            return bool(fails) and (keep_key is None or fails[0][0] == keep_key)
        if not wrong(impl[-1], modl[-1], part):
            return False
        if keep_key and part != "iter":
            fi, fm = fields(impl[-1]), fields(modl[-1])
            got = fi["query" if part == "query" else "wc"]
            name = ("child-" if child else "") + ("provider-query" if q2.startswith("P ") else "query" if part == "query" else "cursor-query")
            return classify(parse_query(q2), got, fm["spec"], fm["legacy"], name) == keep_key
        return True
    changed = True
    while changed:
        changed = False
        if part == "prog":
            _, ops = parse_program(qline)
            for k in range(len(ops)):
                q2 = program_line(qline, ops[:k] + ops[k + 1:])
                if still_bad(ctx, q2):
                    qline, changed = q2, True
                    break
            if changed:
                continue
        n = int(ctx[0].split()[1])
        for k in range(n):
            c2, q2 = drop_row(ctx, qline, k)
            if still_bad(c2, q2):
                ctx, qline, changed = c2, q2, True
                break
        if changed:
            continue
        for k in range(int(qline.split()[2])):
            q2 = drop_sort_field(qline, k)
            if still_bad(ctx, q2):
                qline, changed = q2, True
                break
    return ctx, qline


def main(argv):
    c = vlib.Check(PID, argv)
    c.cov["trusted_base"] = [
        "Coq 8.16.1 kernel (coqc; coqchk in the thorough tier); vm_compute in Examples only; no axioms",
        "Query/Provider.v: a cursor provider handed to QueryWithCursorC is a SET cursor over its candidate ids (each id once, in the "
        "direction asked for) - the cursor contract itself is property C14's",
        "hand-written models Query/Compare.v, Paging.v, ScanUnique.v, ScanSort.v, ChildScan.v of boltz query_sort.go / query_scanners.go / store_query.go "
        "(ChildScan.v: the child-store test of every scan loop; a compiled ast.Query as (predicate, sort fields, skip, limit) and setPaging's write-back)",
        "llrb.Tree modelled as an ordered list (Insert replaces on equal, DeleteMax, in-order Do); bbolt cursor = ids in byte order",
        "extraction (ExtrOcamlBasic only) + extraction/c02_driver.ml + drv_common.ml",
        "Go harness cmd/storageharness/c02.go + c02child.go + c02prov.go (generators, which rows a cursor provider names, match bits of the catalogue filters, query printer, the bolt layout of a "
        "root / child / grandchild store chain, interpreter of programs over one compiled query) and this comparison",
        "filter evaluation itself (property C01) - C02 uses a catalogue of seven simple filters whose answer the harness computes itself",
    ]
    c.assumptions = [
        "every candidate id a cursor provider names is an entity of the root store (the set index / the hub lists are maintained "
        "through Store.Create; dangling references are not part of the check)",
        "stored field type = declared symbol type (int32 also for int64 symbols); ids are unique bucket keys",
        "no NaN float sort keys for the ordering theorems (NaN datasets are a separate stream checked only for count and page size)",
        "fewer than 2^63 rows",
        "IterateIds is an id-ordered set cursor: the sort clause does not apply to it",
        "the entities of a child store are the rows of the root store that have the child's bucket; an extended child store ranges over "
        "every row of the root store and reads its own fields as nil where the bucket is missing (IterateValidIds is not part of the check)",
        "executing a compiled query may rewrite skip / limit of the query object as long as the query keeps asking for the same page "
        "(nil or negative skip = 0, nil or negative limit = unbounded = MaxInt64)",
    ]
    proof_ok = c.proof_step(FILES)
    model = vlib.build_model("C02")
    harness, err = vlib.build_harness()
    if harness is None:
        c.violation("C02:harness-build", "harness does not build against the repository: " + err[-800:],
                    dict(correspondence="harness build", log=err[-3000:]), no_input=True)
        return c.finish()
    runner = Runner(c, harness, model)

    if c.replay:
        rp = json.load(open(c.replay))
        lines = rp["case"].split("\n")
        impl, modl, text = runner.run(lines)
        if impl is None:
            vlib.log("replay failed: %s" % text)
            return 1
        bad = 0
        ctx = []
        for case, i, m in zip(lines, impl, modl):
            vlib.log("REPLAY case=%s\n  impl =%s\n  model=%s" % (case, i, m))
            if case.startswith(("D", "L", "V", "G")):
                ctx = [case] if case.startswith("D") else ctx + [case]
            elif case.startswith("P"):
                bad += 1 if wrong(i, m, "wc") else 0
            elif case.startswith(("Q", "X")) and (wrong(i, m, "query") or wrong(i, m, "wc") or wrong(i, m, "iter")):
                bad += 1
            elif case.startswith("R"):
                fails = program_failures(case, i, m, view_name(ctx)[1])
                for _, _, what in fails:
                    vlib.log("  -> " + what)
                bad += len(fails)
        vlib.log("replay query text: %s" % text)
        vlib.log("REPLAY %s" % ("still violates the specification" if bad else "agrees with the specification"))
        c.finish()
        return 1 if bad else 0

    cases_path = os.path.join(c.work, "cases.txt")
    rc, out = vlib.run([harness, "c02", "--seed", str(c.seed), "--tier", c.tier, "--out", c.work], timeout=1800)
    if rc != 0:
        c.violation("C02:harness-run", "harness failed rc=%s: %s" % (rc, out[-500:]),
                    dict(correspondence="harness run", log=out[-3000:]), no_input=True)
        return c.finish()
    cases = vlib.read_lines(cases_path)
    impl = vlib.read_lines(os.path.join(c.work, "impl.txt"))
    modl = vlib.run_model(model, "c02", cases_path, os.path.join(c.work, "model.txt"))
    assert len(cases) == len(impl) == len(modl), (len(cases), len(impl), len(modl))

    distinct = set()
    disagreements = []
    reported = {}          # key -> count of shrunk replays
    derived = {}           # key -> failures of a class already reported in its plain form
    nqueries = 0
    nexec = 0
    ctx, dindex = [], 0    # context lines of the current case: D [L] [V]
    samples = []

    def report(key, part, case, i, m, what, keep_key=None):
        # a class already shown on a plain query (of the root store, else of a child store) is not shrunk again
        # for child stores / programs
        base = key.replace("rerun-", "").replace("child-", "")
        if key != base and any(k in reported for k in (base, base.replace("C02:", "C02:child-")) if k != key):
            derived[key] = derived.get(key, 0) + 1
            return
        if reported.get(key, 0) >= 2:
            reported[key] = reported.get(key, 0) + 1
            return
        reported[key] = reported.get(key, 0) + 1
        vname, child = view_name(ctx)
        c2, q2 = shrink(runner, list(ctx), case, part, keep_key, child)
        impl2, modl2, text = runner.run(c2 + [q2])
        text = (text or ["?"])[0]
        through = "" if vname == "root" else " through the %s store (layout %s)" % (
            vname, " ".join(l for l in c2 if l.startswith("L ")))
        if impl2 and len(impl2) == len(c2) + 1:
            if part == "prog":
                fails = program_failures(q2, impl2[-1], modl2[-1], child)
                if fails:
                    what = fails[0][2]
                what = "%s; minimal: `%s` on %s row(s)%s" % (what, text, c2[0].split()[1], through)
            else:
                fi2, fm2 = fields(impl2[-1]), fields(modl2[-1])
                got = fi2.get({"query": "query", "wc": "wc", "iter": "iter"}[part])
                want = fm2.get("iterspec" if part == "iter" else "spec")
                what = "%s; minimal: `%s` on %s row(s)%s returns %s, specification %s" % (
                    what, text, c2[0].split()[1], through, got, want)
        c.violation(key, what, dict(case="\n".join(c2 + [q2]), query_text=text, store=vname,
                                    impl=impl2[-1] if impl2 else i, model=modl2[-1] if modl2 else m,
                                    original_case="\n".join(ctx + [case]), part=part))

    def nan_key(q, default):
        skip = None if q["skip"] == "-" else int(q["skip"])
        unbounded = q["limit"] in ("-", "none") or int(q["limit"]) < 0
        if strategy(q) == "sorting" and skip is not None and skip < 0:
            return "C02:negative-skip-shrinks-page"
        if strategy(q) == "sorting" and skip is not None and skip > 0 and (unbounded or skip + int(q["limit"]) >= 2 ** 63):
            return "C02:sorting-skip-overflow"
        return default

    for case, i, m in zip(cases, impl, modl):
        if case.startswith("D"):
            ctx, dindex = [case], dindex + 1
            continue
        if case.startswith("L"):
            ctx = [ctx[0], case]
            continue
        if case.startswith("V"):
            ctx = [l for l in ctx if not l.startswith("V")] + [case]
            continue
        if case.startswith("G"):
            ctx = [ctx[0], case]
            continue
        nqueries += 1
        if case.startswith("P"):
            # QueryWithCursorC over a cursor provider: the provider denotes the SET of candidate ids
            nexec += 1
            q = parse_query(case)
            fi, fm = fields(i), fields(m)
            mult, prov = case.split()[-2:]
            if sum(1 for b, k in zip(q["bits"], mult) if b == "1" and k != "0") >= 2:
                distinct.add((dindex, "provider", case))
            if fm["query"] != fm["spec"] or fm["sorting"] != fm["spec"] or fm["setonly"] != "1":
                disagreements.append(("\n".join(ctx), case, i, m, "extracted model differs from extracted specification (cursor provider)"))
            if fi["wc"] != fm["spec"]:
                k = classify(q, fi["wc"], fm["spec"], fm["legacy"], "provider-query")
                gc, gi = split_res(fi["wc"])
                wc, wi = split_res(fm["spec"])
                extra = ""
                if gi is not None and len(set(gi)) != len(gi):
                    extra = " (an id is returned more than once)"
                elif gi is not None and gc != wc:
                    extra = " (the count is not the number of distinct matching candidates)"
                report(k, "wc", case, i, m, "QueryWithCursorC over the cursor provider %s returned %s, specification over the "
                       "provider's candidate set %s%s" % (prov, fi["wc"], fm["spec"], extra), keep_key=k)
            continue
        vname, child = view_name(ctx)
        pre = "child-" if child else ""
        if case.startswith("R"):
            q, ops = parse_program(case)
            nexec += len(runs_of(ops))
            if len(runs_of(ops)) >= 2 and q["bits"].count("1") >= 2:
                distinct.add((dindex, vname, case))
            fm = fields(m)
            if any(fm.get("a%d" % k) != fm.get("s%d" % k) for k in range(int(fm.get("n", "0")))):
                disagreements.append(("\n".join(ctx), case, i, m, "extracted model differs from extracted specification (program)"))
            for key, _, what in program_failures(case, i, m, child)[:1]:
                report(key, "prog", case, i, m, what, keep_key=key)
            continue
        nexec += 3
        q = parse_query(case)
        fi, fm = fields(i), fields(m)
        if len(samples) < 3 and nqueries in (1, 700, 2500):
            samples.append(dict(dataset=ctx[0], case=case, impl=i, model=m))
        nmatch = q["bits"].count("1")
        if nmatch >= 2 and (q["sort"] or q["skip"] != "-" or q["limit"] != "-"):
            distinct.add((dindex, vname, case))
        if q["kind"] == "X":
            # NaN sort keys: the order is outside the theorems; count, page size and membership are not
            sc, si = split_res(fm["spec"])
            for part, key in (("query", "query"), ("wc", "wc")):
                gc, gi = split_res(fi[key])
                if gi is None:
                    report("C02:nan-%s-%s" % (part, gc.lower()), part, case, i, m, "query with NaN sort keys fails: %s" % fi[key])
                elif gc != sc:
                    report("C02:nan-count", part, case, i, m, "count %s, expected %s (NaN sort keys present)" % (gc, sc))
                elif len(gi) != len(si) or len(set(gi)) != len(gi):
                    report(nan_key(q, "C02:nan-page-size"), part, case, i, m, "%d ids returned, expected %d (NaN sort keys present)" % (len(gi), len(si)))
            if fi["iter"] != fm["iterspec"]:
                report("C02:iterate-page", "iter", case, i, m, "IterateIds returned %s, specification %s" % (fi["iter"], fm["iterspec"]))
            continue
        if fm["query"] != fm["spec"] or fm["iter"] != fm["iterspec"] or fm["sorting"] != fm["spec"]:
            # contradicts the theorems: extraction or driver problem
            disagreements.append(("\n".join(ctx), case, i, m, "extracted model differs from extracted specification"))
        for part, key, name in (("query", "query", pre + "query"), ("wc", "wc", pre + "cursor-query")):
            if fi[key] != fm["spec"]:
                k = classify(q, fi[key], fm["spec"], fm["legacy"], name)
                report(k, part, case, i, m, "%s returned %s, specification %s" % (
                    "QueryIds" if part == "query" else "QueryWithCursorC", fi[key], fm["spec"]), keep_key=k)
            elif fi[key] != fm["query"]:
                disagreements.append(("\n".join(ctx), case, i, m, "model differs from implementation"))
        if fi["iter"] != fm["iterspec"]:
            k = ("C02:%siterate-page" % pre) if fi["iter"] not in ("ERR", "PANIC", "RUNAWAY") else "C02:%siterate-%s" % (pre, fi["iter"].lower())
            report(k, "iter", case, i, m, "IterateIds returned %s, specification %s" % (fi["iter"], fm["iterspec"]))

    c.cov["evaluations"] = nqueries
    c.cov["executions"] = nexec
    c.cov["distinct_nontrivial"] = len(distinct)
    c.cov["disagreements_checked"] = len(disagreements) + sum(reported.values()) + sum(derived.values())
    c.cov["rule"] = ("per dataset (0..12 rows, ids with shared prefixes, columns string/int64/int32/float64/bool/datetime + two filter "
                     "columns, 0-60% nulls, values from small pools so that ties are frequent): sort specifications (every single key "
                     "in both directions, id-first combinations, 5-key specification, random 0..5(+) keys) x the full paging grid "
                     "skip in {absent,0,-1,-5,1,n-1,n,n+3,2^62,min,max} x limit in {absent,none,0,1,n,-1,-7,2^62,max} "
                     "+ 40 random queries; + the numeric-extremes pairs (small skip x finite limit MaxInt64-1, -2, -n, the limit making "
                     "skip+limit exactly MaxInt64 and exactly 2^63, limits around 2^62, MinInt64; skip near MaxInt64 / around 2^62 / "
                     "MinInt64 x absent, none, tiny, n, near-MaxInt64 limits) on every systematic specification of the probe dataset and a "
                     "rotating third + one specification per scan strategy elsewhere, + 40 random queries next to the int64 landmarks; "
                     "each query is run through QueryIds, QueryWithCursorC and IterateIds (stats: skip_plus_limit, strategy_x_sum). "
                     "Store chains: 3 (thorough 24) families root / child / grandchild over ONE entities bucket with rows of every level and "
                     "columns owned by every tier (probe family with a fixed layout, a twin family, random ones); through each of the five "
                     "stores root, child, child-extended, grandchild, grandchild-extended: every systematic specification the store can serve x 16 "
                     "pages around the store's own size, the full paging grid for one specification per scan strategy, 30 random queries "
                     "(stats: view_x_strategy, matching_rows_outside_the_store). Programs over ONE compiled query (ast.Parse once) on every "
                     "dataset and every store: [e1, e2, e1] for the ordered pairs of entry points QueryIdsC / QueryWithCursorC / IterateIds / "
                     "objectz QueryEntitiesC x one specification per scan strategy x 9 pages, + random programs of 4..9 operations with "
                     "SetSkip / SetLimit / AdoptSortFields / SetPredicate and unrelated queries in between; every execution is compared with the "
                     "specification of the query as the mutators left it, and the query object must keep asking for the same page "
                     "(stats: program_*). Cursor providers: 3 (thorough 16) datasets whose rows carry 0..4 tag values (created through "
                     "Store.Create: the set index is the library's; a hubs store lists the carriers of every tag); QueryWithCursorC over 40 "
                     "providers - entities bucket, IteratorMatchingAnyOf / AllOf with 0,1,2,3 values (a value twice, a value nobody carries), "
                     "index value cursor, GetRelatedEntitiesCursor, caller-built ast.TreeSet (unordered insertion, repetitions), "
                     "NewUnionSetCursor (2, 3 sides, tree + value), NewFilteredCursor (over a value cursor / an AnyOf cursor) - x default order, "
                     "id asc, id desc, id desc + key, a typed key in both directions, key + id desc, random x 16 pages around the number of "
                     "candidates; oracle: the specification over the candidate SET (stats: provider_x_strategy, "
                     "provider_names_a_row_more_than_once, provider_candidates). Non-trivial: at least two matching rows and a sort, skip or limit clause (programs: at least two "
                     "executions); distinct by (dataset, store, case text)")
    c.cov["samples"] = samples
    c.cov["violation_classes"] = reported
    c.cov["violation_classes_not_replayed"] = derived
    try:
        c.cov["input_distribution"] = json.load(open(os.path.join(c.work, "stats.json")))
    except Exception:
        pass
    if disagreements and not c.violations:
        d, case, i, m, why = disagreements[0]
        c.violation("C02:correspondence", "%s on %d cases, e.g. %s: impl %s model %s" % (why, len(disagreements), case, i, m),
                    dict(correspondence="Query/ScanUnique.v + ScanSort.v + ChildScan.v vs boltz scanners",
                         theorems=["query_ids_exact", "iterate_paged_exact", "child_store_query_exact", "compiled_query_rerun_exact",
                                   "provider_query_exact", "provider_answer_depends_on_candidate_set_only"],
                         case=d + "\n" + case, impl=i, model=m),
                    no_input=True)
    if not proof_ok:
        c.violation("C02:proof", "proof obligation no longer checks: %s" % json.dumps(c.proof_broken)[:600],
                    dict(broken=c.proof_broken), no_input=True)
    return c.finish()
