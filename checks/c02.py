"""C02 - sort order, skip, limit and total count are exact.
Proof: coq/theories/Properties/C02.v (models Query/{Compare,Paging,ScanUnique,ScanSort}.v).
Correspondence: Store.QueryIds, Store.QueryWithCursorC and Store.IterateIds of a real bolt store
against the extracted model and the extracted specification, on generated datasets (ties, nulls
of every sortable type) x sort specifications x the bounded-exhaustive paging grid and the pairs at
the numeric extremes of int64 (skip + limit at and beyond MaxInt64 with a finite limit)."""
import json
import os

import vlib

PID = "C02"
FILES = ["theories/Properties/C02.v", "theories/Examples/C02Examples.v"]


def fields(line):
    return dict(tok.split("=", 1) for tok in line.split() if "=" in tok)


def split_res(v):
    """'<count>:<ids>' -> (count, [ids]) ; ERR/PANIC -> (v, None)"""
    if ":" not in v:
        return v, None
    cnt, ids = v.split(":", 1)
    return cnt, ([] if ids == "-" else ids.split(","))


def ids_of(v):
    return [] if v == "-" else v.split(",")


def parse_query(case):
    f = case.split()
    ns = int(f[2])
    sort = [(f[3 + 3 * i], f[4 + 3 * i], f[5 + 3 * i]) for i in range(ns)]
    skip, limit = f[3 + 3 * ns], f[4 + 3 * ns]
    return dict(kind=f[0], bits=f[1], sort=sort, skip=skip, limit=limit)


def strategy(q):
    if not q["sort"] or q["sort"][0][0] == "id":
        return "unique"
    return "sorting"


def classify(q, got, want, legacy, what):
    """stable key for a wrong (count, ids) answer of `what` in {query, cursor-query}"""
    gc, gi = split_res(got)
    wc, wi = split_res(want)
    if gi is None:
        return "C02:%s-%s" % (what, gc.lower())
    if gc != wc:
        return "C02:%s-count" % what
    skip = None if q["skip"] == "-" else int(q["skip"])
    unbounded = q["limit"] in ("-", "none") or int(q["limit"]) < 0
    if got == legacy and strategy(q) == "sorting":
        if skip is not None and skip < 0:
            return "C02:negative-skip-shrinks-page"
        if skip is not None and skip > 0 and (unbounded or skip + int(q["limit"]) >= 2 ** 63):
            return "C02:sorting-skip-overflow"
    if sorted(gi) == sorted(wi):
        return "C02:%s-order" % what
    return "C02:%s-page" % what


class Runner:
    """re-runs single (dataset, query) pairs on both sides (shrinking, replay)"""

    def __init__(self, c, harness, model):
        self.c, self.harness, self.model, self.n = c, harness, model, 0

    def run(self, lines):
        self.n += 1
        wd = os.path.join(self.c.work, "r%d" % self.n)
        os.makedirs(wd, exist_ok=True)
        rin = os.path.join(wd, "in.txt")
        with open(rin, "w") as f:
            f.write("\n".join(lines) + "\n")
        rc, out = vlib.run([self.harness, "c02", "--out", wd, "--replaycase", rin], timeout=300)
        if rc != 0:
            return None, None, out
        impl = vlib.read_lines(os.path.join(wd, "impl.txt"))
        modl = vlib.run_model(self.model, "c02", os.path.join(wd, "cases.txt"), os.path.join(wd, "model.txt"))
        text = [l.split(": ", 1)[1] for l in out.split("\n") if l.startswith("replay query text: ")]
        return impl, modl, text


def drop_row(dline, qline, k):
    f = dline.split()
    n, nc = int(f[1]), int(f[2])
    rows = [f[3 + i * (nc + 1): 3 + (i + 1) * (nc + 1)] for i in range(n)]
    del rows[k]
    d2 = " ".join(["D", str(n - 1), str(nc)] + [t for r in rows for t in r])
    qf = qline.split()
    bits = qf[1][:k] + qf[1][k + 1:]
    qf[1] = bits if bits else "e"
    return d2, " ".join(qf)


def wrong(impl_line, model_line, part):
    fi, fm = fields(impl_line), fields(model_line)
    if part == "iter":
        return fi.get("iter") != fm.get("iterspec")
    key = "query" if part == "query" else "wc"
    return fi.get(key) != fm.get("spec")


def drop_sort_field(qline, k):
    f = qline.split()
    ns = int(f[2])
    f[2] = str(ns - 1)
    del f[3 + 3 * k: 6 + 3 * k]
    return " ".join(f)


def shrink(runner, dline, qline, part, keep_key=None):
    """greedy: drop rows, then sort keys, while the implementation's answer still differs from the
    specification (and, when keep_key is given, the failure stays in the same class)"""
    def still_bad(d2, q2):
        impl, modl, _ = runner.run([d2, q2])
        if not impl or len(impl) != 2 or not wrong(impl[1], modl[1], part):
            return False
        if keep_key and part != "iter":
            fi, fm = fields(impl[1]), fields(modl[1])
            got = fi["query" if part == "query" else "wc"]
            name = "query" if part == "query" else "cursor-query"
            return classify(parse_query(q2), got, fm["spec"], fm["legacy"], name) == keep_key
        return True
    changed = True
    while changed:
        changed = False
        n = int(dline.split()[1])
        for k in range(n):
            d2, q2 = drop_row(dline, qline, k)
            if still_bad(d2, q2):
                dline, qline, changed = d2, q2, True
                break
        if changed:
            continue
        for k in range(int(qline.split()[2])):
            q2 = drop_sort_field(qline, k)
            if still_bad(dline, q2):
                qline, changed = q2, True
                break
    return dline, qline


def main(argv):
    c = vlib.Check(PID, argv)
    c.cov["trusted_base"] = [
        "Coq 8.16.1 kernel (coqc; coqchk in the thorough tier); vm_compute in Examples only; no axioms",
        "hand-written models Query/Compare.v, Paging.v, ScanUnique.v, ScanSort.v of boltz query_sort.go / query_scanners.go / store_query.go",
        "llrb.Tree modelled as an ordered list (Insert replaces on equal, DeleteMax, in-order Do); bbolt cursor = ids in byte order",
        "extraction (ExtrOcamlBasic only) + extraction/c02_driver.ml + drv_common.ml",
        "Go harness cmd/storageharness/c02.go (generators, match bits of the catalogue filters, query printer) and this comparison",
        "filter evaluation itself (property C01) - C02 uses a catalogue of seven simple filters whose answer the harness computes itself",
    ]
    c.assumptions = [
        "stored field type = declared symbol type (int32 also for int64 symbols); ids are unique bucket keys",
        "no NaN float sort keys for the ordering theorems (NaN datasets are a separate stream checked only for count and page size)",
        "fewer than 2^63 rows",
        "IterateIds is an id-ordered set cursor: the sort clause does not apply to it",
    ]
    proof_ok = c.proof_step(FILES)
    model = vlib.build_model("C02")
    harness, err = vlib.build_harness()
    if harness is None:
        c.violation("C02:harness-build", "harness does not build against the repository: " + err[-800:],
                    dict(correspondence="harness build", log=err[-3000:]), no_input=True)
        return c.finish()
    runner = Runner(c, harness, model)

    if c.replay:
        rp = json.load(open(c.replay))
        impl, modl, text = runner.run(rp["case"].split("\n"))
        if impl is None:
            vlib.log("replay failed: %s" % text)
            return 1
        bad = 0
        for case, i, m in zip(rp["case"].split("\n"), impl, modl):
            vlib.log("REPLAY case=%s\n  impl =%s\n  model=%s" % (case, i, m))
            if case.startswith(("Q", "X")) and (wrong(i, m, "query") or wrong(i, m, "wc") or wrong(i, m, "iter")):
                bad += 1
        vlib.log("replay query text: %s" % text)
        vlib.log("REPLAY %s" % ("still violates the specification" if bad else "agrees with the specification"))
        c.finish()
        return 1 if bad else 0

    cases_path = os.path.join(c.work, "cases.txt")
    rc, out = vlib.run([harness, "c02", "--seed", str(c.seed), "--tier", c.tier, "--out", c.work], timeout=1800)
    if rc != 0:
        c.violation("C02:harness-run", "harness failed rc=%s: %s" % (rc, out[-500:]),
                    dict(correspondence="harness run", log=out[-3000:]), no_input=True)
        return c.finish()
    cases = vlib.read_lines(cases_path)
    impl = vlib.read_lines(os.path.join(c.work, "impl.txt"))
    modl = vlib.run_model(model, "c02", cases_path, os.path.join(c.work, "model.txt"))
    assert len(cases) == len(impl) == len(modl), (len(cases), len(impl), len(modl))

    distinct = set()
    disagreements = []
    reported = {}          # key -> count of shrunk replays
    nqueries = 0
    dline, dindex = None, 0
    samples = []

    def report(key, part, case, i, m, what, keep_key=None):
        if reported.get(key, 0) >= 2:
            reported[key] = reported.get(key, 0) + 1
            return
        reported[key] = reported.get(key, 0) + 1
        d2, q2 = shrink(runner, dline, case, part, keep_key)
        impl2, modl2, text = runner.run([d2, q2])
        text = (text or ["?"])[0]
        if impl2 and len(impl2) == 2:
            fi2, fm2 = fields(impl2[1]), fields(modl2[1])
            got = fi2.get({"query": "query", "wc": "wc", "iter": "iter"}[part])
            want = fm2.get("iterspec" if part == "iter" else "spec")
            what = "%s; minimal: `%s` on %s row(s) returns %s, specification %s" % (what, text, d2.split()[1], got, want)
        c.violation(key, what, dict(case=d2 + "\n" + q2, query_text=text,
                                    impl=impl2[1] if impl2 else i, model=modl2[1] if modl2 else m,
                                    original_case=dline + "\n" + case, part=part))

    def nan_key(q, default):
        skip = None if q["skip"] == "-" else int(q["skip"])
        unbounded = q["limit"] in ("-", "none") or int(q["limit"]) < 0
        if strategy(q) == "sorting" and skip is not None and skip < 0:
            return "C02:negative-skip-shrinks-page"
        if strategy(q) == "sorting" and skip is not None and skip > 0 and (unbounded or skip + int(q["limit"]) >= 2 ** 63):
            return "C02:sorting-skip-overflow"
        return default

    for case, i, m in zip(cases, impl, modl):
        if case.startswith("D"):
            dline, dindex = case, dindex + 1
            continue
        nqueries += 1
        q = parse_query(case)
        fi, fm = fields(i), fields(m)
        if len(samples) < 3 and nqueries in (1, 700, 2500):
            samples.append(dict(dataset=dline, case=case, impl=i, model=m))
        nmatch = q["bits"].count("1")
        if nmatch >= 2 and (q["sort"] or q["skip"] != "-" or q["limit"] != "-"):
            distinct.add((dindex, case))
        if q["kind"] == "X":
            # NaN sort keys: the order is outside the theorems; count, page size and membership are not
            sc, si = split_res(fm["spec"])
            for part, key in (("query", "query"), ("wc", "wc")):
                gc, gi = split_res(fi[key])
                if gi is None:
                    report("C02:nan-%s-%s" % (part, gc.lower()), part, case, i, m, "query with NaN sort keys fails: %s" % fi[key])
                elif gc != sc:
                    report("C02:nan-count", part, case, i, m, "count %s, expected %s (NaN sort keys present)" % (gc, sc))
                elif len(gi) != len(si) or len(set(gi)) != len(gi):
                    report(nan_key(q, "C02:nan-page-size"), part, case, i, m, "%d ids returned, expected %d (NaN sort keys present)" % (len(gi), len(si)))
            if fi["iter"] != fm["iterspec"]:
                report("C02:iterate-page", "iter", case, i, m, "IterateIds returned %s, specification %s" % (fi["iter"], fm["iterspec"]))
            continue
        if fm["query"] != fm["spec"] or fm["iter"] != fm["iterspec"] or fm["sorting"] != fm["spec"]:
            # contradicts the theorems: extraction or driver problem
            disagreements.append((dline, case, i, m, "extracted model differs from extracted specification"))
        for part, key, name in (("query", "query", "query"), ("wc", "wc", "cursor-query")):
            if fi[key] != fm["spec"]:
                k = classify(q, fi[key], fm["spec"], fm["legacy"], name)
                report(k, part, case, i, m, "%s returned %s, specification %s" % (
                    "QueryIds" if part == "query" else "QueryWithCursorC", fi[key], fm["spec"]), keep_key=k)
            elif fi[key] != fm["query"]:
                disagreements.append((dline, case, i, m, "model differs from implementation"))
        if fi["iter"] != fm["iterspec"]:
            k = "C02:iterate-page" if fi["iter"] not in ("ERR", "PANIC", "RUNAWAY") else "C02:iterate-" + fi["iter"].lower()
            report(k, "iter", case, i, m, "IterateIds returned %s, specification %s" % (fi["iter"], fm["iterspec"]))

    c.cov["evaluations"] = nqueries
    c.cov["distinct_nontrivial"] = len(distinct)
    c.cov["disagreements_checked"] = len(disagreements) + sum(reported.values())
    c.cov["rule"] = ("per dataset (0..12 rows, ids with shared prefixes, columns string/int64/int32/float64/bool/datetime + two filter "
                     "columns, 0-60% nulls, values from small pools so that ties are frequent): sort specifications (every single key "
                     "in both directions, id-first combinations, 5-key specification, random 0..5(+) keys) x the full paging grid "
                     "skip in {absent,0,-1,-5,1,n-1,n,n+3,2^62,min,max} x limit in {absent,none,0,1,n,-1,-7,2^62,max} "
                     "+ 40 random queries; + the numeric-extremes pairs (small skip x finite limit MaxInt64-1, -2, -n, the limit making "
                     "skip+limit exactly MaxInt64 and exactly 2^63, limits around 2^62, MinInt64; skip near MaxInt64 / around 2^62 / "
                     "MinInt64 x absent, none, tiny, n, near-MaxInt64 limits) on every systematic specification of the probe dataset and a "
                     "rotating third + one specification per scan strategy elsewhere, + 40 random queries next to the int64 landmarks; "
                     "each query is run through QueryIds, QueryWithCursorC and IterateIds (stats: skip_plus_limit, strategy_x_sum). "
                     "Non-trivial: at least two matching rows and a sort, skip or limit clause; distinct by (dataset, case text)")
    c.cov["samples"] = samples
    c.cov["violation_classes"] = reported
    try:
        c.cov["input_distribution"] = json.load(open(os.path.join(c.work, "stats.json")))
    except Exception:
        pass
    if disagreements and not c.violations:
        d, case, i, m, why = disagreements[0]
        c.violation("C02:correspondence", "%s on %d cases, e.g. %s: impl %s model %s" % (why, len(disagreements), case, i, m),
                    dict(correspondence="Query/ScanUnique.v + ScanSort.v vs boltz scanners",
                         theorems=["query_ids_exact", "iterate_paged_exact"], case=d + "\n" + case, impl=i, model=m),
                    no_input=True)
    if not proof_ok:
        c.violation("C02:proof", "proof obligation no longer checks: %s" % json.dumps(c.proof_broken)[:600],
                    dict(broken=c.proof_broken), no_input=True)
    return c.finish()
