"""C17 - snapshot and restore reproduce the database exactly.
Proof: coq/theories/Properties/C17.v (models Db/Content.v, Db/Timeline.v, Db/Snapshot.v, Db/RwLock.v,
Db/Reader.v, Db/RestoreX.v, Db/RestoreJoin.v, Db/SnapPath.v, Db/RestoreMeta.v, Db/SnapView.v).
Correspondence: histories (state A through real stores and raw writes; Snapshot / SnapshotInTx in a
read or write transaction / StreamToWriter; snapshots through path templates - every placeholder,
relative / absolute, existing files and directories at the target, the default path, the database
opened elsewhere or relatively - read back from the path the call returned; arbitrary further operations; RestoreSnapshot and
RestoreFromReader through readers of every behaviour the io.Reader contract allows - chunk sizes,
zero-length reads, EOF with or after the last bytes, an error after k bytes, WriterTo / Seeker /
file / buffered flavours, and readers that CALL THE DATABASE from inside Read (GetSnapshotId,
GetTimelineId, View, Stats, GetDefaultSnapshotPath while the snapshot streams to disk), the same
calls after the restore; GetSnapshotId; GetTimelineId in every mode; restore listeners, also ones
that use the database) executed on boltz.DbImpl and on the extracted model, full content compared
after every operation, every restore under a watchdog; plus transactions racing restores in child
processes with a watchdog (all-old-or-all-new, no error, no deadlock; metadata pollers: the old or
the new snapshot id while a restore streams, the new one once it has returned)."""
import json
import os
import resource
import subprocess

import vlib

PID = "C17"
FILES = ["theories/Properties/C17.v", "theories/Examples/C17Examples.v"]

META = "6d657461"
SNAPID = META + "/736e617073686f744964"
RESET = META + "/726573657454696d656c696e65"
TLID = META + "/74696d656c696e654964"
LSN = "6c736e"
LT = "4c54"


# ----------------------------------------------------------------------------- parsing

def split_ops(case):
    """case line -> list of token lists, one per operation"""
    t = case.split()
    assert t[0] == "H"
    n = int(t[1])
    i = 2
    ops = []

    def wops(i):
        k = int(t[i])
        i += 1
        for _ in range(k):
            kind = t[i]
            nb = int(t[i + 1])
            i += 2 + nb
            if kind == "put":
                i += 2
            elif kind == "del":
                i += 1
        return i

    for _ in range(n):
        s = i
        op = t[i]
        i += 1
        if op == "tx":
            i = wops(i + 1)
        elif op == "snap":
            kind = t[i]
            i += 1
            if kind == "upd":
                i = wops(wops(i + 1))
            elif kind == "stale":
                i = wops(i + 1)
        elif op == "snapp":
            i += 9
            kind = t[i]
            i += 1
            if kind == "upd":
                i = wops(wops(i + 1))
        elif op in ("restore", "open"):
            i += 1
        elif op == "restorer":
            i += 8 + int(t[i + 7])
        elif op == "restorec":
            i += 8 + int(t[i + 7])
            ncb = int(t[i])
            i += 1
            for _ in range(ncb):
                i = call_end(t, i + 1)
        elif op == "call":
            i = call_end(t, i)
        elif op in ("addlt", "addlw", "addld"):
            i += 1
        elif op == "tl":
            ok = t[i + 1]
            i += 2
            if ok == "ok":
                i += 1
        ops.append(t[s:i])
    return ops


def call_end(t, i):
    """index behind the metadata call that starts at t[i]: s | v | st | dp | t <mode> ok <hex> | t <mode> err"""
    if t[i] != "t":
        return i + 1
    return i + 4 if t[i + 2] == "ok" else i + 3


def parse_calls(toks):
    """[<at> <call>]... -> list of (at, call tokens)"""
    out, i = [], 0
    while i < len(toks):
        e = call_end(toks, i + 1)
        out.append((int(toks[i]), toks[i + 1:e]))
        i = e
    return out


def join_ops(ops):
    return "H %d %s" % (len(ops), " ".join(" ".join(o) for o in ops))


def parse_dump(txt):
    """'B:aa/bb,V:aa/cc=01' -> dict path -> 'B' | value hex"""
    out = {}
    if txt in ("-", ""):
        return out
    for e in txt.split(","):
        if e.startswith("B:"):
            out[e[2:]] = "B"
        else:
            p, v = e[2:].split("=", 1)
            out[p] = "=" + v
    return out


def bracket(group, tag):
    """content of 'tag[...]' inside an observation group, or None"""
    k = group.find(tag + "[")
    if k < 0:
        return None
    e = group.find("]", k)
    return group[k + 2:e]


def strip_markers(d):
    """ignore exactly the two marker keys the snapshot operation itself records (and the meta
    bucket when it exists only to hold them)"""
    d = dict(d)
    d.pop(SNAPID, None)
    d.pop(RESET, None)
    if d.get(META) == "B" and not any(p.startswith(META + "/") for p in d):
        d.pop(META)
    return d


def touched(p):
    """paths a restore listener that writes (GetTimelineId, an Update on the lsn bucket) may change"""
    return p == LSN or p.startswith(LSN + "/") or p in (META, TLID, RESET)


def strip_touched(d):
    return dict((p, v) for p, v in d.items() if not touched(p))


def fnv32(txt):
    h = 0x811c9dc5
    for ch in txt.encode():
        h = ((h ^ ch) * 0x01000193) & 0xffffffff
    return h


def view_digest(raw):
    """what a listener that walks the database must see of a restored file (raw = text of F[...])"""
    ents = [] if raw in ("-", "", None) else [e for e in raw.split(",") if not touched(e[2:].split("=", 1)[0])]
    return "v:%d:%08x" % (len(ents), fnv32(",".join(ents) if ents else "-"))


def unhex(x):
    if x in ("-", "", None):
        return ""
    try:
        return bytes.fromhex(x).decode("utf-8", "replace")
    except ValueError:
        return x


def snap_path(op):
    """snapp <t|d> <template|-> <root> <date> <time> <dbdir> <dbfile> <dbpath> <-|g|d> <kind> ... -> dict"""
    return dict(default=op[1] == "d", template=unhex(op[2]), root=unhex(op[3]), date=unhex(op[4]), time=unhex(op[5]),
                dbpath=unhex(op[8]), pre=op[9], kind=op[10], commit=len(op) > 11 and op[11] == "1")


def describe_path(sp, g):
    """how the snapshot was asked for and where the implementation says it is"""
    ask = "Snapshot(GetDefaultSnapshotPath() = %r)" % unhex(bracket(g, "D")) if sp["default"] else "Snapshot(%r)" % sp["template"]
    ret = bracket(g, "P")
    stray = bracket(g, "X")
    txt = "%s [database %s, date %s, time %s]" % (ask, sp["dbpath"], sp["date"], sp["time"])
    if ret not in (None, "-"):
        txt += " returned %r" % unhex(ret)
    if stray not in (None, "-"):
        txt += "; besides the returned path the call created or changed: %s" % ", ".join(repr(unhex(x)) for x in stray.split(","))
    return txt


def strip_message(line):
    """the text of an error is not compared with the model"""
    out = []
    for g in line.split(" | "):
        k = g.find(" E[")
        if k >= 0:
            g = g[:k] + g[g.find("]", k) + 1:]
        out.append(g)
    return " | ".join(out)


def reader_script(op):
    """restorer <k> <flavour> <len> <eofd> <failAt|-> <failWd> <rest> <npre> <pre>... -> dict"""
    ln = int(op[3])
    fa = None if op[5] == "-" else int(op[5])
    npre = int(op[8])
    sc = dict(k=int(op[1]), flavour=op[2], len=ln, eof_with_data=op[4] == "1", fail_at=fa, failing=fa is not None and fa <= ln,
              rest=int(op[7]), pre=[int(x) for x in op[9:9 + npre]], calls=[], made=[])
    if op[0] == "restorec":
        sc["calls"] = parse_calls(op[10 + npre:])
        limit = fa if sc["failing"] else ln
        sc["made"] = [c for at, c in sc["calls"] if at <= limit]      # calls placed behind the reader's end are never made
    return sc


# ----------------------------------------------------------------------------- the property's own oracle

def show_head(head):
    """observation tokens with hex-encoded messages made readable"""
    out = []
    for t in head:
        k = t.find(":")
        if k > 0 and t[:k] in ("panic", "error", "unreadable", "harness-error"):
            try:
                t = t[:k + 1] + " " + bytes.fromhex(t[k + 1:]).decode("utf-8", "replace")
            except ValueError:
                pass
        out.append(t)
    return " ".join(out)


def describe_reader(sc):
    what = {"r": "Read only", "w": "io.WriterTo", "s": "io.ReadSeeker", "u": "bufio.Reader", "f": "*os.File", "b": "*bytes.Reader"}.get(sc["flavour"], sc["flavour"])
    sizes = ("first reads %s, then " % sc["pre"] if sc["pre"] else "") + ("%d-byte reads" % sc["rest"] if sc["rest"] else "buffer-sized reads")
    end = ("error after %d bytes" % sc["fail_at"]) if sc["failing"] else ("io.EOF together with the last bytes" if sc["eof_with_data"] else "separate (0, io.EOF)")
    calls = ""
    if sc.get("calls"):
        calls = "; from inside Read it calls " + ", ".join("%s after %d bytes" % (describe_call(c), at) for at, c in sc["calls"])
    return "%s, %d bytes, %s, %s%s" % (what, sc["len"], sizes, end, calls)


def describe_call(c):
    if c[0] == "t":
        mode = {"d": "default", "i": "initIfEmpty", "f": "forceReset"}.get(c[1], c[1])
        return "GetTimelineId(%s, idF %s)" % (mode, "failing" if c[2] != "ok" else "-> %r" % unhex(c[3]))
    return {"s": "GetSnapshotId", "v": "View(walk everything)", "st": "Stats", "dp": "GetDefaultSnapshotPath"}.get(c[0], c[0])


def stored_snapshot_id(content):
    """what GetSnapshotId has to answer on this content: 's:<hex>' / 's:nil'"""
    v = content.get(SNAPID)
    if content.get(META) != "B" or v is None or not v.startswith("=05"):
        return "s:nil"
    return "s:" + (v[3:] or "-")


def dump_digest(raw):
    """what a call that walks the whole database reports on this content (raw = text of L[...] / F[...])"""
    ents = [] if raw in ("-", "", None) else raw.split(",")
    return "v:%d:%08x" % (len(ents), fnv32(",".join(ents) if ents else "-"))


def check_calls_during(sc, g, prev_raw, live_before, f, how):
    """the calls a reader made while RestoreFromReader was streaming: each answer must be that of the
    database before the restore or that of the restored file - never something else, never an error"""
    cobs = bracket(g, "C")
    cobs = [] if cobs in (None, "-", "") else cobs.split(",")
    made = sc["made"]
    if len(cobs) != len(made):
        return None     # not what the property speaks about; left to the comparison with the model
    wrote = False       # an earlier GetTimelineId of this reader may have changed the meta bucket
    for c, o in zip(made, cobs):
        what = describe_call(c)
        if o.endswith(":err") or (c[0] == "t" and c[2] == "ok" and o.startswith("t:err")):
            return ("C17:restore-tx-error", "%s called while %s was streaming the snapshot to disk failed (%s)" % (what, how, o))
        if c[0] == "s":
            old = stored_snapshot_id(live_before)
            new = stored_snapshot_id(f["content"])
            if o not in (old, new):
                return ("C17:snapshot-id", "GetSnapshotId called while %s was streaming answered %s: neither the id before the restore (%s) nor the restored one (%s)"
                        % (how, o, old, new))
        elif c[0] == "v" and not wrote:
            old, new = dump_digest(prev_raw), dump_digest(f["raw"])
            if o not in (old, new):
                return ("C17:restore-mixture", "a read transaction started while %s was streaming saw %s: neither the database before the restore (%s) nor the restored file (%s)"
                        % (how, o, old, new))
        elif c[0] == "st" and o != "st:1":
            return ("C17:restore-tx-error", "Stats() around one read transaction while %s was streaming counted %s started transactions" % (how, o[3:]))
        elif c[0] == "dp" and o != "dp:1":
            return ("C17:restore-tx-error", "GetDefaultSnapshotPath() called while %s was streaming is not <path of the database>-<date>-<time>" % how)
        elif c[0] == "t":
            wrote = True
    return None


def returning(lkinds, lkdeps):
    """which of the registered listeners can return: everything but a blocker and those that wait for one
    (or for themselves, or for a listener that is not registered)"""
    out = []
    for n in range(len(lkinds)):
        j, ok = n, False
        for _ in range(len(lkinds) + 1):
            if j < 0 or j >= len(lkinds) or lkinds[j] == "b":
                break
            if lkinds[j] != "d":
                ok = True
                break
            j = int(lkdeps[j])
        out.append(ok)
    return out


def oracle(case, impl):
    """evaluate what the property demands on the implementation's observations of one history.
    Returns (key, message, index of the offending operation) or None."""
    ops = split_ops(case)
    groups = impl[2:].split(" | ")
    if len(groups) != len(ops):
        return ("C17:harness-output", "observation has %d groups for %d operations" % (len(groups), len(ops)), len(ops) - 1)
    live_before = {}
    files = []          # per produced file: dict(kind, id, at_snapshot, op)
    listeners = 0
    lkinds = []         # kinds of the registered restore listeners: c count, v view, s snapshot id, t timeline id, w write, b blocks, d waits
    lkdeps = []         # for d: the number of the listener it waits for
    fired = 0
    pending = None      # after a restore of a snapshot: what the timeline requests must do
    after_restore = ""  # how that restore was made
    raws = [bracket(g, "L") or "-" for g in groups]
    for i, (op, g) in enumerate(zip(ops, groups)):
        live = parse_dump(bracket(g, "L") or "-")
        prev_raw = raws[i - 1] if i > 0 else "-"
        head = g.split(" L[")[0].split()
        kind = op[0]
        if kind == "snapp":
            sp = snap_path(op)
            where = describe_path(sp, g)
            stray, written = bracket(g, "X"), bracket(g, "W")
            if sp["pre"] == "d":
                # the expanded path is a directory: the call cannot write its file; it has to fail and to change nothing
                if head[:2] != ["snap", "failed"]:
                    return ("C17:snapshot-path", "the path of the snapshot is a directory, yet the call reported success: %s" % where, i)
                if live != live_before:
                    return ("C17:snapshot-changes-live", "a snapshot that failed changed the live database: %s" % where, i)
                if stray != "-":
                    return ("C17:snapshot-path", "a snapshot that failed left files behind: %s" % where, i)
                live_before = live
                continue
            if head[0] != "snap" or len(head) < 2 or head[1] == "failed" or head[1].startswith(("error", "unreadable")):
                msg = unhex(bracket(g, "E")) if head[1:2] == ["failed"] else show_head(head[:2])
                return ("C17:snapshot-failed", "snapshot operation failed (%s): %s" % (msg[:200], where), i)
            f = parse_dump(bracket(g, "F") or "-")
            files.append(dict(kind="snap", id=head[1], at=live_before, op=i, content=f, raw=bracket(g, "F")))
            if strip_markers(f) != strip_markers(live_before):
                lost = len([p for p in strip_markers(live_before) if p not in f])
                return ("C17:snapshot-content", "the file at the path the snapshot call returned does not hold the content committed at snapshot time "
                        "(%d of %d entries missing): %s" % (lost, len(strip_markers(live_before)), where), i)
            if f.get(SNAPID) != "=05" + head[1] or f.get(RESET) != "=0101":
                return ("C17:snapshot-markers", "the file at the returned path lacks the snapshot-id / reset markers: %s" % where, i)
            if written != "1":
                return ("C17:snapshot-path", "the call did not write the file at the path it returned: %s" % where, i)
            if stray != "-":
                return ("C17:snapshot-path", "the snapshot call wrote files other than the one it returned: %s" % where, i)
            if sp["kind"] == "upd" and sp["commit"]:
                pending = None
            elif live != live_before:
                return ("C17:snapshot-changes-live", "taking a snapshot changed the live database: %s" % where, i)
        elif kind == "snap":
            if head[0] != "snap" or len(head) < 2 or head[1].startswith(("error", "unreadable")):
                return ("C17:snapshot-failed", "snapshot operation failed: %s" % show_head(head)[:300], i)
            f = parse_dump(bracket(g, "F") or "-")
            files.append(dict(kind="snap", id=head[1], at=live_before, op=i, content=f, raw=bracket(g, "F")))
            if op[1] == "stale":
                # SnapshotInTx inside a read transaction that was opened before another goroutine's transaction:
                # the file has to hold what THAT transaction sees (V: walked through it right before the call)
                seen_raw = bracket(g, "V") or "-"
                if seen_raw.startswith("changed-within-the-transaction:"):
                    return ("C17:harness-output", "a bbolt read transaction saw another transaction's commit (not a matter of C17)", i)
                seen = parse_dump(seen_raw)
                if strip_markers(f) != strip_markers(seen):
                    leaked = [p for p, v in strip_markers(f).items() if strip_markers(seen).get(p) != v and live.get(p) == v]
                    gone = [p for p in strip_markers(seen) if p not in f]
                    return ("C17:snapshot-content", "SnapshotInTx(tx) inside a read transaction that was opened before another goroutine %s a transaction: "
                            "the file does not hold what that transaction sees (%d entries as committed LATER, after the transaction began: %s; %d entries of its view missing) - "
                            "the snapshot is not the state of the transaction it was taken in"
                            % ("committed" if bracket(g, "T") == "1" else "rolled back", len(leaked), ",".join(sorted(leaked)[:4]) or "-", len(gone)), i)
            # the markers go into the copy
            if strip_markers(f) != strip_markers(live_before):
                return ("C17:snapshot-content", "snapshot file differs from the content committed at snapshot time", i)
            if f.get(SNAPID) != "=05" + head[1] or f.get(RESET) != "=0101":
                return ("C17:snapshot-markers", "snapshot file lacks the snapshot-id / reset markers", i)
            if op[1] == "stale":
                pending = None      # the other goroutine's transaction may rewrite the meta bucket
            elif op[1] == "upd" and op[2] == "1":
                pending = None      # the surrounding write transaction may rewrite the meta bucket
            elif live != live_before:
                return ("C17:snapshot-changes-live", "taking a snapshot changed the live database", i)
        elif kind == "stream":
            f = parse_dump(bracket(g, "F") or "-")
            files.append(dict(kind="stream", id=None, at=live_before, op=i, content=f, raw=bracket(g, "F")))
            if head[0] != "stream" or f != live_before:
                return ("C17:stream-content", "streamed copy differs from the committed content", i)
        elif kind in ("restore", "restorer", "restorec"):
            k = int(op[1])
            sc = reader_script(op) if kind != "restore" else None
            how = "RestoreSnapshot" if sc is None else "RestoreFromReader(%s)" % describe_reader(sc)
            if len(head) > 1 and head[1] == "hang":
                return ("C17:restore-hangs", "%s did not return within the watchdog's time with %d restore listeners registered (%s): "
                        "the restore and every later transaction are blocked" % (how, len(lkinds), ",".join(lkinds) or "none"), i)
            if len(head) > 1 and head[1] == "listeners-stuck":
                return ("C17:restore-hangs", "restore listeners started by %s never came back from the database (%s; listeners %s)"
                        % (how, " ".join(head[2:]), ",".join(lkinds)), i)
            if k < len(files):
                f = files[k]
                if sc is not None and sc["failing"]:
                    # the reader reports an error after fail_at bytes: the restore must fail and change nothing
                    if head[:2] != ["restore", "refused"]:
                        return ("C17:restore-reader-error", "the reader failed after %d of %d bytes but the restore did not fail: %s"
                                % (sc["fail_at"], sc["len"], " ".join(head)[:160]), i)
                    # (a GetTimelineId the reader made before it failed may have written the timeline keys)
                    wrote = any(c[0] == "t" for c in sc["made"])
                    if (strip_touched(live) != strip_touched(live_before)) if wrote else (live != live_before):
                        return ("C17:restore-reader-error", "a restore that failed (reader error after %d of %d bytes) changed the database"
                                % (sc["fail_at"], sc["len"]), i)
                    if int(head[2].split("=")[1]) != fired:
                        return ("C17:restore-reader-error", "a restore that failed started restore listeners", i)
                    bad = check_calls_during(sc, g, prev_raw, live_before, f, how)
                    if bad:
                        return bad + (i,)
                    if wrote:
                        pending = None
                    live_before = live
                    continue
                if head[0] != "restore" or len(head) < 2 or not head[1].startswith("fired="):
                    return ("C17:restore-failed", "%s failed: %s" % (how, show_head(head)[:300]), i)
                if sc is not None and sc["made"]:
                    bad = check_calls_during(sc, g, prev_raw, live_before, f, how)
                    if bad:
                        return bad + (i,)
                writers = [x for x in lkinds if x in ("t", "w")]
                want, got = strip_markers(f["at"]), strip_markers(live)
                if writers:
                    want, got = strip_touched(want), strip_touched(got)
                if got != want:
                    return ("C17:restore-content", "content after %s differs from the content at snapshot time (file %d, taken by op %d)" % (how, k, f["op"]), i)
                if f["kind"] == "snap" and (live.get(SNAPID) != "=05" + f["id"] or ("t" not in lkinds and live.get(RESET) != "=0101")):
                    return ("C17:restore-markers", "restored database lacks the markers of its snapshot", i)
                fired += listeners
                got = int(head[1].split("=")[1])
                if any(x in ("b", "d") for x in lkinds):
                    # listeners that do not return by themselves (b: blocks for good, d: waits for another listener):
                    # every registered listener has to be started all the same, and those that can return have to
                    sobs = (bracket(g, "S") or "").split(",")
                    names = ["%d:%s" % (n, lk + (lkdeps[n] if lk == "d" else "")) for n, lk in enumerate(lkinds)]
                    if len(sobs) == len(lkinds):
                        for n, (lk, so) in enumerate(zip(lkinds, sobs)):
                            if so == "-":
                                return ("C17:restore-listeners", "restore listener %d of %d was never started by %s: the listeners are [%s] "
                                        "(b = does not return, d<j> = returns once listener j has returned) and the observations %s - "
                                        "a listener that does not return keeps the listeners registered after it from firing"
                                        % (n, len(lkinds), how, " ".join(names), ",".join(sobs)), i)
                        ret = returning(lkinds, lkdeps)
                        for n, (lk, so) in enumerate(zip(lkinds, sobs)):
                            if ret[n] and so.endswith(":waiting"):
                                return ("C17:restore-listeners", "restore listener %d (waits for listener %s, which returns) did not return after %s: listeners [%s], observations %s"
                                        % (n, lkdeps[n], how, " ".join(names), ",".join(sobs)), i)
                if got != fired:
                    return ("C17:restore-listeners", "restore listeners fired %d times in total, expected %d" % (got, fired), i)
                if any(x != "c" for x in lkinds):
                    sobs = bracket(g, "S")
                    sobs = sobs.split(",") if sobs else []
                    if len(sobs) != len(lkinds):
                        return ("C17:restore-listeners", "%d restore listeners reported, %d are registered" % (len(sobs), len(lkinds)), i)
                    for n, (lk, so) in enumerate(zip(lkinds, sobs)):
                        if lk in ("b", "d"):
                            continue
                        if so == "-" or so.endswith(":err"):
                            return ("C17:restore-listener-error", "restore listener %d (%s) failed to use the database after the restore: %s" % (n, lk, so), i)
                        if lk == "s" and f["kind"] == "snap" and so != "s:" + f["id"]:
                            return ("C17:snapshot-id", "a restore listener asking GetSnapshotId after %s got %s, the snapshot call returned %s" % (how, so, f["id"]), i)
                        if lk == "v" and so != view_digest(f["raw"]):
                            return ("C17:restore-listener-view", "a restore listener reading the database saw %s, the restored file holds %s" % (so, view_digest(f["raw"])), i)
                        if lk == "t" and f["kind"] == "snap" and so != "t:" + LT:
                            return ("C17:timeline-fresh-once", "a restore listener's GetTimelineId after the restore returned %s instead of the fresh id" % so, i)
                pending = dict(stage=0, id=f["id"], tl_ok="t" not in lkinds) if f["kind"] == "snap" else None
                after_restore = how
            else:
                pending = None
        elif kind == "snapid":
            if pending is not None and pending["stage"] == 0:
                if head != ["snapid", pending["id"]]:
                    return ("C17:snapshot-id", "GetSnapshotId after the restore (%s) reports %s, the snapshot call returned %s"
                            % (after_restore, " ".join(head[1:]), pending["id"]), i)
        elif kind == "call":
            # the metadata calls as operations of their own: after a restore they speak about the restored database
            if op[1] == "t":
                pending = None      # (not generated; the timeline oracle follows the tl operations)
            elif pending is not None:
                if op[1] == "s" and pending["stage"] == 0 and head[0] != "s:" + pending["id"]:
                    return ("C17:snapshot-id", "GetSnapshotId after the restore (%s) reports %s, the snapshot call returned %s"
                            % (after_restore, head[0], pending["id"]), i)
                if head[0].endswith(":err"):
                    return ("C17:restore-tx-error", "%s after the restore (%s) failed" % (describe_call(op[1:]), after_restore), i)
                if op[1] == "st" and head[0] != "st:1":
                    return ("C17:restore-metadata", "after the restore (%s) Stats() around one read transaction counted %s started transactions: "
                            "it does not describe the reopened database" % (after_restore, head[0][3:]), i)
                if op[1] == "dp" and head[0] != "dp:1":
                    return ("C17:restore-metadata", "after the restore (%s) GetDefaultSnapshotPath() is not <path of the database>-<date>-<time>" % after_restore, i)
        elif kind == "tl":
            called = "called=1" in head
            res = head[1]
            if pending is not None and not pending.get("tl_ok", True):
                pending = None      # a listener's GetTimelineId already consumed the fresh request
            if pending is not None:
                if pending["stage"] == 0:
                    if not called:
                        return ("C17:timeline-fresh-once", "first GetTimelineId after a restore did not ask for a fresh id", i)
                    if op[2] == "ok":
                        if res != "id:" + op[3]:
                            return ("C17:timeline-fresh-once", "first GetTimelineId after a restore returned %s instead of the fresh id" % res, i)
                        pending = dict(stage=1, id=pending["id"], tl=op[3], tl_ok=True)
                    elif res != "err":
                        return ("C17:timeline-fresh-once", "GetTimelineId returned %s although idF failed" % res, i)
                elif pending["stage"] == 1:
                    if op[1] in ("d", "i"):
                        if called or res != "id:" + pending["tl"]:
                            return ("C17:timeline-fresh-once", "second GetTimelineId after a restore: called=%s result %s, expected the id %s without a call" % (called, res, pending["tl"]), i)
                    pending = None
        elif kind == "tx":
            if pending is not None and not (op[1] == "0" or head[:2] == ["tx", "err"]):
                pending = None      # a committed transaction may rewrite the meta bucket
        elif kind.startswith("addl"):
            listeners += 1
            lkinds.append(kind[4:] or "c")
            lkdeps.append(op[1] if kind == "addld" else "")
        live_before = live
    return None


# ----------------------------------------------------------------------------- main

def run_model(model, cases_path, out_path, timeout=1800):
    """the extracted model walks the bytes of a file (up to a few hundred thousand) by structural
    recursion: give it stack, and a minor heap large enough that the collector rarely scans it"""
    def limits():
        soft, hard = resource.getrlimit(resource.RLIMIT_STACK)
        want = 4 << 30
        if hard != resource.RLIM_INFINITY and hard < want:
            want = hard
        resource.setrlimit(resource.RLIMIT_STACK, (want, hard))
    env = dict(os.environ, OCAMLRUNPARAM="s=8M")
    with open(cases_path) as fin, open(out_path, "w") as fout:
        try:
            p = subprocess.run([model, "c17"], stdin=fin, stdout=fout, stderr=subprocess.PIPE, timeout=timeout, preexec_fn=limits, env=env)
        except subprocess.TimeoutExpired:
            raise RuntimeError("model run timed out: %s" % model)
    if p.returncode != 0:
        raise RuntimeError("model run failed: %s\n%s" % (model, p.stderr.decode("utf-8", "replace")[-2000:]))
    return vlib.read_lines(out_path)


def run_pair(c, harness, model, extra):
    rc, out = vlib.run([harness, "c17", "--out", c.work] + extra, timeout=3000)
    if rc != 0:
        return None, None, None, "harness failed rc=%s: %s" % (rc, out[-800:])
    cases = vlib.read_lines(os.path.join(c.work, "cases.txt"))
    impl = vlib.read_lines(os.path.join(c.work, "impl.txt"))
    modl = run_model(model, os.path.join(c.work, "cases.txt"), os.path.join(c.work, "model.txt"))
    return cases, impl, modl, None


def replay_case(c, harness, case, hangms=0, listenms=0):
    """re-run one case line on the implementation; returns (the case as executed, its observation line).
    The executed case can differ from the requested one: a history stops at a restore that hangs, and a
    reader's length is that of the file actually produced."""
    sub = os.path.join(c.work, "shrink")
    os.makedirs(sub, exist_ok=True)
    rin = os.path.join(sub, "in.txt")
    with open(rin, "w") as f:
        f.write(case + "\n")
    cmd = [harness, "c17", "--out", sub, "--replaycase", rin, "--seed", str(c.seed)]
    if hangms:
        cmd += ["--hangms", str(hangms)]
    if listenms:
        cmd += ["--listenms", str(listenms)]
    rc, out = vlib.run(cmd, timeout=600)
    if rc != 0:
        return None, None
    cl = vlib.read_lines(os.path.join(sub, "cases.txt"))
    lines = vlib.read_lines(os.path.join(sub, "impl.txt"))
    return (cl[0], lines[0]) if lines and cl else (None, None)


def produces_file(op):
    return op[0] in ("snap", "stream") or (op[0] == "snapp" and op[9] != "d")


def without_op(ops, i):
    """the history without operation i; the file numbers of later restores follow.  None when a
    restore asks for the file that operation i produces."""
    if not produces_file(ops[i]):
        return ops[:i] + ops[i + 1:]
    f = len([o for o in ops[:i] if produces_file(o)])
    out = []
    for j, o in enumerate(ops):
        if j == i:
            continue
        if o[0] in ("restore", "restorer", "restorec"):
            k = int(o[1])
            if k == f:
                return None
            if k > f:
                o = [o[0], str(k - 1)] + o[2:]
        out.append(o)
    return out


SIMPLE_TEMPLATES = ["bk", "bk-__DATE__", "bk-__TIME__", "bk-__DB_FILE__", "__DB_DIR__/bk", "bk-DATE", "bk-TIME", "bk-DB_FILE", "DB_DIR/bk"]


def simpler_readers(op):
    """candidates that replace a restore through a reader by simpler ones, a snapshot through a path
    template by one to a plain file name"""
    if op[0] == "snapp" and op[9] != "d":
        yield ["snap"] + op[10:]
    if op[0] == "snapp":
        # Snapshot(default path) -> a template; a long template -> the shortest usual ones
        cur = unhex(op[2]) if op[1] == "t" else None
        if cur not in SIMPLE_TEMPLATES:
            for tpl in SIMPLE_TEMPLATES:
                yield [op[0], "t", tpl.encode().hex()] + op[3:]
    if op[0] == "snapp" and op[9] != "d":
        if op[9] != "-":
            yield op[:9] + ["-"] + op[10:]
        if op[10] != "plain":
            yield op[:10] + ["plain"]
    if op[0] == "snap" and op[1] == "stale":
        yield ["snap", "view"]
    if op[0] not in ("restorer", "restorec"):
        return
    yield ["restore", op[1]]
    sc = reader_script(op)
    npre = int(op[8])
    tail = op[9 + npre:]        # restorec: the calls
    if op[0] == "restorec":
        yield ["restorer"] + op[1:9 + npre]
        calls = sc["calls"]
        for j in range(len(calls)):      # one call less
            rest = calls[:j] + calls[j + 1:]
            yield op[:9 + npre] + [str(len(rest))] + [t for at, c in rest for t in [str(at)] + c]
        for j, (at, c) in enumerate(calls):      # the call right at the first read
            if at != 0 and all(a == 0 for a, _ in calls[:j]):
                moved = calls[:j] + [(0, c)] + calls[j + 1:]
                yield op[:9 + npre] + [str(len(moved))] + [t for a, cc in moved for t in [str(a)] + cc]
    if sc["pre"]:
        yield op[:8] + ["0"] + tail
    if op[2] != "r":
        yield op[:2] + ["r"] + op[3:]
    if op[4] != "0":
        yield op[:4] + ["0"] + op[5:]
    if op[7] not in ("0", op[3]):
        yield op[:7] + ["0"] + op[8:]
        yield op[:7] + [op[3]] + op[8:]


def shrink(c, harness, case, key, budget=40):
    """cut the history after the offending operation, greedily drop operations that do not produce
    files (so restore indexes stay valid), then simplify the readers - while the same violation remains"""
    hang = 0
    if key == "C17:restore-hangs":      # every attempt that still hangs costs the watchdog's time
        hang, budget = 400, min(budget, 25)

    def attempt(ops):
        cl, im = replay_case(c, harness, join_ops(ops), hang, 400)    # short waits while searching, full ones for the verdict
        vv = oracle(cl, im) if im else None
        if vv and vv[0] == key:
            return split_ops(cl)[:vv[2] + 1]
        return None

    ops = attempt(split_ops(case))
    if ops is None:
        return case
    for _ in range(2):      # a second pass: a snapshot becomes droppable once the restores of its file are gone
        i, before = 0, len(ops)
        while i < len(ops) - 1 and budget > 0:
            cand = without_op(ops, i)
            if cand is None:
                i += 1
                continue
            budget -= 1
            r = attempt(cand)
            if r is not None:
                ops = r
            else:
                i += 1
        if len(ops) == before:
            break
        budget = max(budget, 8)
    budget = max(budget, 15)     # the simplification of single operations has a share of its own
    for i in range(len(ops)):
        progress = True
        while progress and budget > 0:
            progress = False
            for cand in simpler_readers(ops[i]):
                budget -= 1
                r = attempt(ops[:i] + [cand] + ops[i + 1:])
                if r is not None and len(r) == len(ops):
                    ops = r
                    progress = True
                    break
    # the verdict on the shrunk history must hold with the full watchdog time as well
    cl, im = replay_case(c, harness, join_ops(ops))
    vv = oracle(cl, im) if im else None
    if vv and vv[0] == key:
        return cl
    return case


RACE_KEYS = {"snapshot": "C17:recursive-rlock-deadlock", "rootbucket": "C17:recursive-rlock-deadlock",
             "snapintx": "C17:recursive-rlock-deadlock", "nested": "C17:recursive-rlock-deadlock",
             "listeners": "C17:restore-hangs", "accessors": "C17:recursive-rlock-deadlock"}


def classify_race(c, case, impl, where=""):
    f = impl.split()
    mode = case.split()[1]
    detail = ""
    if len(f) > 2:
        try:
            detail = bytes.fromhex(f[2]).decode("utf-8", "replace")
        except ValueError:
            detail = f[2]
    rp = dict(case=case, impl=impl, detail=detail, mode=mode)
    if f[1] == "ok":
        return
    if f[1] == "stuck":
        key = RACE_KEYS.get(mode, "C17:restore-deadlock-" + mode)
        c.violation(key, "transactions racing restores stopped making progress%s (%s)" % (where, detail or "mode %s: child timed out" % mode), rp)
    elif f[1] == "mixture":
        c.violation("C17:restore-mixture", "a transaction racing RestoreSnapshot saw a mixture of databases%s: %s" % (where, detail), rp)
    elif f[1] == "overlap":
        c.violation("C17:overlapping-restores", "restores that overlap are not each applied as a whole%s: %s" % (where, detail), rp)
    elif f[1] == "snapid":
        c.violation("C17:snapshot-id", "metadata pollers racing RestoreFromReader%s: %s" % (where, detail.replace("snapid ", "", 1)), rp)
    elif f[1] == "timeline":
        c.violation("C17:timeline-fresh-once", "metadata pollers racing RestoreFromReader%s: %s" % (where, detail.replace("timeline ", "", 1)), rp)
    elif f[1] == "error":
        c.violation("C17:restore-tx-error", "a transaction racing RestoreSnapshot failed%s: %s" % (where, detail), rp)
    elif f[1] == "datarace":
        c.violation("C17:data-race", "the race detector reported a data race between transactions and RestoreSnapshot (mode %s)" % mode, rp)
    else:
        c.violation("C17:race-harness", "racing run did not complete%s: %s %s" % (where, f[1], detail[:300]),
                    dict(rp, correspondence="c17race child process"), no_input=True)


def main(argv):
    c = vlib.Check(PID, argv)
    c.cov["trusted_base"] = [
        "Coq 8.16.1 kernel (coqc; coqchk in the thorough tier); vm_compute in Examples only; no axioms",
        "hand-written models Db/Content.v, Db/Timeline.v, Db/Snapshot.v of boltz/db.go (snapshot/restore/timeline bookkeeping)",
        "Db/Reader.v: the io.Reader contract as scripts (chunk sizes, zero-length reads, EOF with/after data, failure position) and io.Copy's loop; Db/RestoreX.v: RestoreFromReader + database-using listeners on top of Db/Snapshot.v; the bytes of a file are abstract (positions), bbolt's file format is not modelled",
        "Db/RestoreJoin.v: listeners as transaction threads gated by the reopen, on top of Db/RwLock.v",
        "Db/SnapPath.v: strings.ReplaceAll and the eight placeholder replacements of SnapshotInTx transcribed over byte strings; the file system as a map from names to snapshot files; the expansion's environment (date, time, filepath.Dir/Base of the database path) is taken from the harness as observed",
        "Db/RestoreMeta.v: metadata calls (GetSnapshotId, GetTimelineId, View, Stats, GetDefaultSnapshotPath) made from inside the reader of RestoreFromReader = calls on the database before the restore (persistSnapshot precedes the lock); racing calls = calls before / after the atomic swap; Stats and GetDefaultSnapshotPath have no state in the model (observations: a read transaction moves Stats().TxN by one; the path is <database path>-<date>-<time>)",
        "Db/SnapView.v: SnapshotInTx as a function of the view of the transaction it is given (a read transaction keeps what was committed when it began - bbolt's MVCC, trusted and observed: the harness walks the old transaction right before the call); restore listeners that block / wait for each other as a small-step system, one goroutine per listener",
        "Db/RwLock.v: sync.RWMutex modelled by its specification (readers exclude the writer; optional writer preference)",
        "NOT modelled, exercised only: os.Rename, bbolt Open/Close/CopyFile/WriteTo, sync.RWMutex, goroutine scheduling (all schedules are quantified over on the model only)",
        "uuid.NewString freshness (model: a counter)",
        "extraction (ExtrOcamlBasic only) + extraction/c17_driver.ml + drv_common.ml",
        "Go harness cmd/storageharness/c17.go, c17_stores.go, c17_readers.go, c17_paths.go, c17_meta.go (generators, scripted readers, listeners, watchdog, bbolt walk, diff of store transactions into raw writes) and this comparison",
    ]
    c.assumptions = [
        "meta/snapshotId, meta/timelineId hold strings or nil, meta/resetTimeline a bool or nil (what the library and the generated transactions write)",
        "transactions obtain their bbolt transaction through Db.View/Update/Batch (so they hold the read lock)",
        "one restore at a time in the racing runs (the model covers any number of restorers)",
        "metadata calls made while a restore streams come from the reader itself (same goroutine, deterministic) or from pollers that go through the reload lock (GetSnapshotId, GetTimelineId, Stats); GetDefaultSnapshotPath reads the handle without the lock and is therefore only called from the reader, not by racing pollers",
        "a bolt file holds keys inside buckets only (meta_wf: no meta/snapshotId without the meta bucket) - hypothesis of metadata_read_during_restore_old_or_new",
        "restore listeners that write do so outside the snapshot markers (own keys of a bucket lsn, GetTimelineId): the content oracle ignores exactly those paths when such listeners are registered",
        "snapshot paths stay inside the history's own directory and never name the database file itself (Snapshot onto the open database file truncates it - outside the property)",
        "a restore (copy of <= a few hundred KB, close, two renames, open) and its listeners finish within the watchdog's 3 s unless something blocks them",
    ]
    proof_ok = c.proof_step(FILES)
    model = vlib.build_model("C17")
    harness, err = vlib.build_harness()
    if harness is None:
        c.violation("C17:harness-build", "harness does not build against the repository: " + err[-800:],
                    dict(correspondence="harness build", log=err[-3000:]), no_input=True)
        return c.finish()

    if c.replay:
        rp = json.load(open(c.replay))
        rin = os.path.join(c.work, "replay_in.txt")
        with open(rin, "w") as f:
            f.write(rp["case"] + "\n")
        extra = ["--replaycase", rin, "--seed", str(c.seed)]
    else:
        extra = ["--seed", str(c.seed), "--tier", c.tier]
    cases, impl, modl, herr = run_pair(c, harness, model, extra)
    if herr:
        c.violation("C17:harness-run", herr, dict(correspondence="harness run", log=herr), no_input=True)
        return c.finish()
    assert len(cases) == len(impl) == len(modl), (len(cases), len(impl), len(modl))

    disagreements = []
    distinct = set()
    nops = 0
    reported = set()
    for case, i, m in zip(cases, impl, modl):
        if case.startswith("R "):
            classify_race(c, case, i)
            distinct.add(case.split()[1])
            continue
        ops = split_ops(case)
        nops += len(ops)
        kinds = [o[0] for o in ops]
        if ("restore" in kinds or "restorer" in kinds or "restorec" in kinds) and ("snap" in kinds or "snapp" in kinds):
            distinct.add(case)
        v = oracle(case, i)
        if v:
            key, msg, at = v
            if key not in reported:
                small = shrink(c, harness, case, key) if not c.replay else case
                simpl = i
                if small != case:       # the case as executed (a run's own directory and clock are part of it) with its observation
                    cl2, simpl = replay_case(c, harness, small)
                    small = cl2 or small
                v2 = oracle(small, simpl) if simpl else None
                if v2 and v2[0] == key:      # describe the shrunk history
                    msg, at, ops = v2[1], v2[2], split_ops(small)
                else:
                    small, simpl = case, i
                c.violation(key, msg + " [operation %d: %s]" % (at, " ".join(ops[at])[:120]),
                            dict(case=small, impl=simpl, original_case=case, operation=at))
                reported.add(key)
        elif strip_message(i) != m:
            disagreements.append((case, i, m))

    if c.replay:
        for case, i, m in zip(cases, impl, modl):
            vlib.log("REPLAY case=%s\n  impl =%s\n  model=%s\n  oracle=%s" % (case[:2000], i[:2000], m[:2000],
                                                                             oracle(case, i) if case.startswith("H") else "-"))

    # thorough tier: the racing runs once more under the race detector
    if c.thorough and not c.replay:
        rh, rerr = vlib.build_harness(race=True)
        if rh is None:
            c.violation("C17:harness-build", "race-enabled harness does not build: " + rerr[-600:],
                        dict(correspondence="harness build -race", log=rerr[-3000:]), no_input=True)
        else:
            sub = os.path.join(c.work, "race")
            os.makedirs(sub, exist_ok=True)
            rc, out = vlib.run([rh, "c17", "--out", sub, "--seed", str(c.seed), "--tier", "quick", "--onlyrace", "1"], timeout=1200)
            if rc != 0:
                c.violation("C17:harness-run", "race-enabled harness failed: " + out[-600:], dict(correspondence="harness run -race", log=out[-3000:]), no_input=True)
            else:
                rcases = vlib.read_lines(os.path.join(sub, "cases.txt"))
                rimpl = vlib.read_lines(os.path.join(sub, "impl.txt"))
                for case, i in zip(rcases, rimpl):
                    if case.startswith("R "):
                        classify_race(c, case, i, " under the race detector")
                c.cov["race_detector_runs"] = len([x for x in rcases if x.startswith("R ")])

    c.cov["evaluations"] = nops + len([x for x in cases if x.startswith("R ")])
    c.cov["distinct_nontrivial"] = len(distinct)
    c.cov["disagreements_checked"] = len(disagreements)
    c.cov["rule"] = ("evaluations = operations executed on both sides (full content compared after each) + racing runs. "
                     "Non-trivial = distinct histories that contain a snapshot and a restore (RestoreSnapshot or RestoreFromReader), + distinct racing modes "
                     "(plain Update/View, Batch, Db.Snapshot, RootBucket in a transaction, SnapshotInTx in a write transaction, "
                     "nested Db.Update/Batch joining the context's transaction, database-using restore listeners + chunked readers, "
                     "metadata pollers - GetSnapshotId / GetTimelineId / Stats - against restores through slow readers)")
    rd = [o for x in cases if x.startswith("H") for o in split_ops(x) if o[0] in ("restorer", "restorec")]
    rc = [reader_script(o) for o in rd if o[0] == "restorec"]
    c.cov["reader_restores_calling_the_database"] = len(rc)
    c.cov["calls_made_while_streaming"] = sum(len(x["made"]) for x in rc)
    c.cov["calls_made_while_streaming_by_kind"] = dict((k, sum(1 for x in rc for cc in x["made"] if cc[0] == k)) for k in ("s", "t", "v", "st", "dp"))
    ps = [o for x in cases if x.startswith("H") for o in split_ops(x) if o[0] == "snapp"]
    c.cov["path_snapshots"] = len(ps)
    c.cov["path_templates_distinct"] = len(set((o[1], unhex(o[2]).replace(unhex(o[3]), "<root>")) for o in ps))
    c.cov["reader_restores"] = len(rd)
    c.cov["reader_behaviours_distinct"] = len(set(" ".join(o[2:]) for o in rd))
    hs = [k for k, x in enumerate(cases) if x.startswith("H")]
    c.cov["samples"] = [dict(case=cases[k][:1500], impl=impl[k][:1500], model=modl[k][:1500]) for k in (hs[:1] + hs[-1:])]
    try:
        c.cov["input_distribution"] = json.load(open(os.path.join(c.work, "stats.json")))
        rj = os.path.join(c.work, "race.jsonl")
        if os.path.exists(rj):
            c.cov["racing_runs"] = [json.loads(l) for l in open(rj) if l.strip()]
    except Exception:
        pass
    if disagreements and not c.violations:
        case, i, m = disagreements[0]
        gi, gm = strip_message(i).split(" | "), m.split(" | ")
        at = next((k for k, (x, y) in enumerate(zip(gi, gm)) if x != y), 0)
        c.violation("C17:correspondence",
                    "model Db/Snapshot.v and boltz.DbImpl differ on %d histories without a property violation, e.g. operation %d: impl %s model %s"
                    % (len(disagreements), at, gi[at][:200] if at < len(gi) else "?", gm[at][:200] if at < len(gm) else "?"),
                    dict(correspondence="Db/Snapshot.v vs boltz/db.go", theorems=["restore_reproduces_snapshot", "timeline_fresh_once"],
                         case=case, impl=i, model=m, operation=at), no_input=True)
    if not proof_ok:
        c.violation("C17:proof", "proof obligation no longer checks: %s" % json.dumps(c.proof_broken)[:600],
                    dict(broken=c.proof_broken), no_input=True)
    return c.finish()
