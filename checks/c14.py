"""C14 - every set cursor enumerates its set exactly, in order, and seeks correctly.
Proof: coq/theories/Properties/C14.v (models Cursor/*.v).
Correspondence: the real cursors of boltz/ and ast/ (every kind the library hands out, over every
subset of a 5-element universe incl. the empty string, every interleaving of Next/Seek up to a
depth) against the extracted models AND against the specification (abstract position machine);
the abstract bbolt cursor of Cursor/BoltCursor.v against real bbolt on random op sequences.
Re-opened cursors (Cursor/Reuse.v, harness c14_reuse.go): ONE runtime set symbol used for consecutive rows (R
lines: any state left by the previous row x row with elements / empty bucket / no bucket / no entity) and whole
scans (S lines: QueryIds / IterateIds with isEmpty, anyOf, allOf, count filters through the cached symbol).
Scanners layered over cursors (Cursor/Scanner.v, harness c14_scan.go, I lines): the seekable id cursors of IterateIds /
IterateValidIds (uniqueIndexScanner reading one element ahead, ValidIdsCursors on top for extended stores) of root, child and
extended child stores with constant and selective filters, every Next/Seek program of the other families plus seeks from every
position (last element, exhausted) on stores of 0..5 entities; paged filters (Next only: the page); QueryWithCursorC over
bolt / typed / filtered / tree providers in both directions.
Several cursors alive at once (Cursor/Product.v, harness c14_multi.go, M lines): families of 2-3 cursors in one transaction (the
same set symbol on different / the same rows; every pair of cursor families over the same / different buckets), each with its own
Next/Seek program, interleaved in every bounded merge order, all cursors re-observed after every turn: non-interference.
The cursor protocol (harness c14_proto.go, case lines with " @ modes"): IsValid / Current / Next / Seek in any order - Next or Seek as
the first call on a fresh cursor, operations without a look in between, Current before / without IsValid - on every cursor kind;
reference = the ordinary trace of the same case projected on the points looked at (looking is a function of the state, Cursor/Core.v)."""
import json
import os
import subprocess

import vlib

PID = "C14"
FILES = ["theories/Properties/C14.v", "theories/Examples/C14Examples.v", "theories/Examples/C14Scanner.v",
         "theories/Examples/C14Product.v"]

TREE_KINDS = ("tree", "treecursor", "uniontree", "anyof")


def unhex(h):
    return b"" if h == "-" else bytes.fromhex(h)


class Toks:
    def __init__(self, line):
        self.t = line.split()
        self.i = 0

    def next(self):
        self.i += 1
        return self.t[self.i - 1]

    def set(self):
        n = int(self.next())
        return [unhex(self.next()) for _ in range(n)]

    def ops(self):
        n = int(self.next())
        return [self.next() for _ in range(n)]

    def row(self):
        ident = unhex(self.next())
        present = int(self.next())
        elems = self.set()
        return ident, present, (elems if present == 1 else [])

    def rest(self):
        r = self.t[self.i:]
        self.i = len(self.t)
        return r


def parse_case(line):
    """-> dict(kind, fw, elems (ascending enumeration universe of the case), ops, size)"""
    tk = Toks(line)
    head = tk.next()
    if head == "C":
        kind = tk.next()
        fw = tk.next() == "1"
        present = tk.next() == "1"
        a = tk.set()
        b = tk.set()
        ops = tk.ops()
        if not present:
            elems = []
        elif kind == "filtered":
            elems = [x for x in a if x in b]
        elif kind in ("union", "uniontree"):
            elems = sorted(set(a) | set(b))
        elif kind == "unionfiltered":
            elems = sorted(set(b))
        elif kind in ("tree", "treecursor"):
            elems = sorted(set(a))
        else:
            elems = list(a)
        return dict(kind=kind, fw=fw, elems=elems, ops=ops, size=len(a) + len(b), inputs=a + b)
    if head == "Q":
        which = tk.next()
        fw = tk.next() == "1"
        nent = int(tk.next())
        ents = []
        for _ in range(nent):
            ident = unhex(tk.next())
            ents.append((ident, tk.set()))
        vals = tk.set()
        ops = tk.ops()
        if which == "allof":
            elems = [i for i, r in ents if vals and all(v in r for v in vals)]
        else:
            elems = [i for i, r in ents if any(v in r for v in vals)]
        return dict(kind=which, fw=fw, elems=sorted(elems), ops=ops, size=nent + len(vals), inputs=[i for i, _ in ents])
    if head == "I":
        kind = tk.next()
        fw = tk.next() == "1"
        flt = tk.next()
        skip, limit = tk.next(), tk.next()
        p, cset, f = tk.set(), tk.set(), tk.set()
        ops = tk.ops()
        base = kind[:-1] if kind.endswith("0") else kind
        universe = [] if kind.endswith("0") else p
        child = base in ("cids", "cvids", "xvids", "qcc")
        accepted = sorted(x for x in universe if (not child or x in cset) and x in f)
        listed = accepted if fw else list(reversed(accepted))
        if skip != "-":
            listed = listed[int(skip):]
        if limit != "-":
            listed = listed[:int(limit)]
        return dict(head="I", kind=kind, base=base, fw=fw, flt=flt, skip=skip, limit=limit, p=p, c=cset, f=f, child=child,
                    elems=listed, total=len(accepted), ops=ops, size=len(p), inputs=p,
                    paged=(skip != "-" or limit != "-"), query=kind.startswith("q"))
    if head == "R":
        kind = tk.next()
        segs = []
        for _ in range(int(tk.next())):
            ident, present, elems = tk.row()
            segs.append(dict(id=ident, present=present, elems=elems, ops=tk.ops()))
        return dict(head="R", kind=kind, fw=True, segs=segs, ops=[o for sg in segs for o in sg["ops"]],
                    size=sum(len(sg["elems"]) for sg in segs), inputs=[x for sg in segs for x in sg["elems"]])
    if head == "M":
        curs = []
        for _ in range(int(tk.next())):
            kind = tk.next()
            fw = tk.next() == "1"
            present = tk.next() == "1"
            mask, mask2 = int(tk.next()), int(tk.next())
            a = tk.set()
            b = tk.set()
            ops = tk.ops()
            if not present:
                elems = []
            elif kind == "filtered":
                elems = [x for x in a if x in b]
            elif kind == "union":
                elems = sorted(set(a) | set(b))
            elif kind == "tree":
                elems = sorted(set(a))
            else:
                elems = list(a)
            curs.append(dict(kind=kind, fw=fw, present=present, mask=mask, mask2=mask2, a=a, b=b, elems=elems, ops=ops))
        sched = [int(x) for x in tk.ops()]
        return dict(head="M", kind="+".join(cu["kind"] for cu in curs), fw=True, curs=curs, sched=sched,
                    ops=[o for cu in curs for o in cu["ops"]], size=sum(len(cu["a"]) + len(cu["b"]) for cu in curs) + 8 * len(curs),
                    inputs=[x for cu in curs for x in cu["a"] + cu["b"]])
    if head == "S":
        field = tk.next()
        variant = tk.next()
        rows = [tk.row() for _ in range(int(tk.next()))]
        return dict(head="S", kind="scan-" + field, field=field, variant=variant, fw=True, rows=rows, filter=tk.rest(), ops=[],
                    size=sum(len(r[2]) for r in rows), inputs=[x for r in rows for x in r[2]])
    return None


def filter_holds(toks, pos, l):
    """a set filter (prefix form) on the element list l of one row; -> (bool, next position)"""
    t = toks[pos]
    pos += 1
    if t in ("E", "Z"):
        return not l, pos
    if t[0] == "=":
        return unhex(t[1:]) in l, pos
    if t[0] == "#":
        return any(x != unhex(t[1:]) for x in l), pos
    if t[0] == "A":
        return all(x == unhex(t[1:]) for x in l), pos
    if t[0] == "C":
        return len(l) == int(t[1:]), pos
    if t == "!":
        a, pos = filter_holds(toks, pos, l)
        return not a, pos
    a, pos = filter_holds(toks, pos, l)
    b, pos = filter_holds(toks, pos, l)
    return (a and b) if t == "&" else (a or b), pos


def filter_text(field, toks):
    def go(pos):
        t = toks[pos]
        pos += 1
        q = lambda h: '"%s"' % unhex(h).decode("latin-1")
        if t == "E":
            return "isEmpty(%s)" % field, pos
        if t == "Z":
            return "isEmpty(from %s where true)" % field, pos
        if t[0] in "=#A":
            return "%s(%s) %s %s" % ("allOf" if t[0] == "A" else "anyOf", field, "!=" if t[0] == "#" else "=", q(t[1:])), pos
        if t[0] == "C":
            return "count(%s) = %s" % (field, t[1:]), pos
        if t == "!":
            a, pos = go(pos)
            return "not (%s)" % a, pos
        a, pos = go(pos)
        b, pos = go(pos)
        return "(%s) %s (%s)" % (a, "and" if t == "&" else "or", b), pos
    return go(0)[0]


def protocol_of(case):
    """observation protocol of a case line ("... @ m0 m1 .."; harness c14_proto.go): one mode per observation point, [] = look
    (IsValid, then Current) at every point"""
    return case.partition(" @ ")[2].split()


def project(tokens, proto, impl_t):
    """what a trace (one I | V<hex> per point) shows through an observation protocol: looking is a function of the state
    (Cursor/Core.v observe), so a point shows the same whatever other points were looked at and in whichever order IsValid and
    Current were called.  - : not looked at (_); i : IsValid only; c : Current only - C<hex>, compared only where the set has an
    element at that point (what Current returns on an exhausted cursor is not the property's subject); v / w : both."""
    if len(proto) != len(tokens):
        return tokens
    out = []
    for k, (t, m) in enumerate(zip(tokens, proto)):
        if not (t == "I" or t.startswith("V")):
            out.append(t)
        elif m == "-":
            out.append("_")
        elif m == "i":
            out.append(t[0])
        elif m == "c":
            free = impl_t[k] if k < len(impl_t) and impl_t[k].startswith("C") else "C-"
            out.append("C" + t[1:] if t.startswith("V") else free)
        else:
            out.append(t)
    return out


PROTO_WORDS = {"-": "not looked at", "v": "IsValid then Current", "w": "Current then IsValid", "c": "Current only", "i": "IsValid only"}


def oracle_trace(en, fw, ops):
    pos = 0 if en else None

    def ob(p):
        return "I" if p is None else "V" + (en[p].hex() or "-")
    out = [ob(pos)]
    for o in ops:
        if o == "N":
            pos = pos + 1 if pos is not None and pos + 1 < len(en) else None
        else:
            v = unhex(o[1:])
            pos = None
            for i, x in enumerate(en):
                if (x >= v) if fw else (x <= v):
                    pos = i
                    break
        out.append(ob(pos))
    return out


def oracle(pc):
    """the property's own oracle: the abstract position machine over the sorted set, written
    independently of the Coq development (cross-checks the extracted specification)."""
    if pc.get("head") == "R":
        # every use of the re-opened symbol is a fresh cursor over that row's set
        out = []
        for k, sg in enumerate(pc["segs"]):
            out += (["/"] if k else []) + oracle_trace(sg["elems"], True, sg["ops"])
        return out
    if pc.get("head") == "M":
        # several cursors alive at once: after every turn each cursor shows the entry of ITS OWN solo trace (position machine over
        # its own set) numbered by its own turns so far - "-" before its constructor, the last entry once its program is through
        solo = [oracle_trace(cu["elems"] if cu["fw"] else list(reversed(cu["elems"])), cu["fw"], cu["ops"]) for cu in pc["curs"]]
        turns = [0] * len(solo)
        out = []
        for j in pc["sched"]:
            if 0 <= j < len(turns):
                turns[j] += 1
            out.append(",".join("-" if n == 0 else t[min(n, len(t)) - 1] for t, n in zip(solo, turns)))
        return out
    if pc.get("head") == "I":
        if pc["query"]:
            # QueryWithCursorC: the page in the direction of the scan, then the number of matches
            t = oracle_trace(pc["elems"], True, pc["ops"])
            return t + ["#%d" % pc["total"]]
        if pc["paged"] and any(o != "N" for o in pc["ops"]):
            return ["~"]      # a paged cursor that is sought: no set the property speaks about (model only)
        return oracle_trace(pc["elems"], True, pc["ops"])
    if pc.get("head") == "S":
        ids = [r[0] for r in pc["rows"] if filter_holds(pc["filter"], 0, r[2])[0]]
        return [str(len(ids))] + [i.hex() or "-" for i in sorted(ids)]
    en = pc["elems"] if pc["fw"] else list(reversed(pc["elems"]))
    fw = pc["fw"]
    pos = 0 if en else None

    def ob(p):
        return "I" if p is None else "V" + (en[p].hex() or "-")
    out = [ob(pos)]
    for o in pc["ops"]:
        if o == "N":
            pos = pos + 1 if pos is not None and pos + 1 < len(en) else None
        else:
            v = unhex(o[1:])
            pos = None
            for i, x in enumerate(en):
                if (x >= v) if fw else (x <= v):
                    pos = i
                    break
        out.append(ob(pos))
    return out


def multi_deviation(pc, impl_t, spec_t, j):
    """M lines: (index of the first cursor whose view deviates at turn j, what it shows, what it should show)"""
    vi = impl_t[j].split(",") if j < len(impl_t) else []
    vs = spec_t[j].split(",") if j < len(spec_t) else []
    for i in range(max(len(vi), len(vs))):
        a = vi[i] if i < len(vi) else "?"
        b = vs[i] if i < len(vs) else "?"
        if a != b:
            return i, a, b
    return 0, "?", "?"


# M lines: which single-cursor case kinds tell that a cursor kind is defective ALONE
SOLO_KINDS = {"gs-tags": ("setsym", "rs-tags"), "gs-grps": ("rs-grps", "links"), "setsymraw": ("setsymraw", "rs-tagsraw")}


def classify(pc, impl_t, spec_t, solo_bad=()):
    """stable signature of the class of failure; solo_bad: case kinds with violations in single-cursor cases of this run"""
    j = next((k for k in range(min(len(impl_t), len(spec_t))) if impl_t[k] != spec_t[k]), min(len(impl_t), len(spec_t)))
    ti = impl_t[j] if j < len(impl_t) else "?"
    ts = spec_t[j] if j < len(spec_t) else "?"
    kind = pc["kind"]
    if pc.get("head") == "S":
        fam = "composite" if "." in pc["field"] else "setsym"
        what = {"H": "hang", "P": "panic", "E": "error"}.get(impl_t[0] if impl_t else "?", "rows")
        return "C14:scan-%s-%s" % (fam, what), j
    if pc.get("head") == "M":
        i, ti, ts = multi_deviation(pc, impl_t, spec_t, j)
        cu = pc["curs"][i] if i < len(pc["curs"]) else pc["curs"][0]
        others = any(x != i for x in pc["sched"][:j + 1])
        if ti == "P":
            return "C14:%s-%s" % (cu["kind"], "interference-panic" if others else "panic"), j
        turn = pc["sched"][j] if j < len(pc["sched"]) else -1
        alone_bad = any(k in solo_bad for k in SOLO_KINDS.get(cu["kind"], (cu["kind"],)))
        if others and (turn != i or not alone_bad):
            # moved by the turn of another cursor, or its own operation went wrong although this kind of cursor is right whenever
            # it runs alone (single-cursor cases of this run): it no longer shows what it shows alone
            return "C14:%s-interference" % cu["kind"], j
        own = cu["ops"][:max(0, pc["sched"][:j + 1].count(i) - 1)]
        return "C14:%s-%s" % (cu["kind"], "seek" if any(o != "N" for o in own) else "enumerate"), j
    if pc.get("head") == "R":
        seg = impl_t[:j].count("/") if j <= len(impl_t) else 0
        if seg >= 1:
            if ti == "P":
                return "C14:%s-reopen-panic" % kind, j
            if ti.startswith("V") and ts in ("I", "/", "?"):
                return "C14:%s-reopen-stale" % kind, j
            return "C14:%s-reopen" % kind, j
    if pc.get("head") == "I":
        if ti == "P":
            return "C14:%s-panic" % kind, j
        if ti == "E":
            return "C14:%s-error" % kind, j
        if ti.startswith("#") or ts.startswith("#"):
            return "C14:%s-count" % kind, j
        if ti == "X":
            return "C14:%s-not-seekable" % kind, j
        seeks = any(o != "N" for o in pc["ops"][:j])
        return "C14:%s-%s" % (kind, "seek" if seeks else ("page" if pc["paged"] else "enumerate")), j
    if ti == "P":
        if kind in TREE_KINDS:
            return ("C14:tree-empty-panic" if j == 0 else "C14:tree-next-exhausted-panic"), j
        return "C14:%s-panic" % kind, j
    if ti == "X":
        return "C14:%s-not-seekable" % kind, j
    if (ti.startswith("V") and ts.startswith("V") and ti != "V-" and unhex(ti[1:])[1:] == unhex(ts[1:])
            and unhex(ti[1:]) not in pc["inputs"]):
        return "C14:seek-returns-tagged-key", j
    if (ts == "V-" and ti != "V-") or (ti == "I" and b"" in pc["inputs"]):
        # the empty-string element itself is missing, or a set containing it is cut short
        return "C14:empty-string-element-lost", j
    seeks = any(o != "N" for o in pc["ops"][:j])
    return "C14:%s-%s" % (kind, "seek" if seeks else "enumerate"), j


def run_model(model, sub, lines, work, name):
    cin = os.path.join(work, name + "_in.txt")
    with open(cin, "w") as f:
        f.write("\n".join(lines) + "\n")
    return vlib.run_model(model, sub, cin, os.path.join(work, name + "_out.txt"))


def main(argv):
    c = vlib.Check(PID, argv)
    c.cov["trusted_base"] = [
        "Coq 8.16.1 kernel (coqc; coqchk in the thorough tier); vm_compute in Examples only; no axioms",
        "hand-written models Cursor/{BoltCursor,Typed,Filtered,Union,Tree,SetSym,Cases,Reuse,Scanner,Product}.v of boltz/query_bolt_cursors.go, ast/cursors.go, boltz/query_scanners.go (uniqueIndexScanner), boltz/store_query.go (IterateIds, IterateValidIds, ValidIdsCursors) and the hand-out sites",
        "Cursor/BoltCursor.v as a description of bbolt 1.4.0 cursors (compared with real bbolt on every run: case kind B)",
        "llrb.Tree as an ordered set (replace on equal, in-order Left/Right links); its balancing is not modelled",
        "extraction (ExtrOcamlBasic only) + extraction/c14_driver.ml + drv_common.ml",
        "Go harness cmd/storageharness/c14.go, c14_reuse.go, c14_scan.go, c14_multi.go, c14_proto.go (stores, generators) and this comparison / oracle",
        "filters of the scanner cases: the set of ids a filter accepts is what the harness wrote (role r<mask> on the ids of mask); evaluation of filters is C01's subject",
        "uniqueIndexScanner.targetLimit = math.MaxInt64 (no limit) is modelled as 'never reached'; a paged scanner cursor that is SOUGHT is compared with the model only (design/C14.md section 9)",
        "composite set symbols (stackedCursor): no C14 model, implementation compared with the specification (concatenation computed by the harness) only",
    ]
    c.assumptions = [
        "buckets are not modified while a cursor is open (bbolt's own precondition)",
        "typed list buckets hold keys of one type tag (TypeString in every hand-out site)",
        "unionSetCursor: the wrapped cursors never return a nil Current() while valid (true of every bolt-backed cursor after the repair)",
    ]
    proof_ok = c.proof_step(FILES)
    model = vlib.build_model("C14")
    harness, err = vlib.build_harness()
    if harness is None:
        c.violation("C14:harness-build", "harness does not build against the repository: " + err[-800:],
                    dict(correspondence="harness build", log=err[-3000:]), no_input=True)
        return c.finish()

    cases_path = os.path.join(c.work, "cases.txt")
    if c.replay:
        rp = json.load(open(c.replay))
        rin = os.path.join(c.work, "replay_in.txt")
        with open(rin, "w") as f:
            f.write(rp["case"] + "\n")
        args = [harness, "c14", "--out", c.work, "--replaycase", rin]
    else:
        args = [harness, "c14", "--seed", str(c.seed), "--tier", c.tier, "--out", c.work]
    rc, out = vlib.run(args, timeout=2400)
    if rc == 7 and os.path.exists(os.path.join(c.work, "HANG.txt")):
        hang = open(os.path.join(c.work, "HANG.txt")).read().strip()
        c.violation("C14:hang", "a cursor operation or query did not return within the watchdog limit; last case started: %s" % hang[:400],
                    dict(case=hang, note="the harness watchdog stopped the run (status 7); replay with --replay on this case line"))
        return c.finish()
    if rc != 0:
        c.violation("C14:harness-run", "harness failed rc=%s: %s" % (rc, out[-500:]),
                    dict(correspondence="harness run", log=out[-3000:]), no_input=True)
        return c.finish()
    model_path = os.path.join(c.work, "model.txt")
    with open(cases_path) as fin, open(model_path, "w") as fout:
        p = subprocess.run([model, "c14"], stdin=fin, stdout=fout, stderr=subprocess.PIPE, timeout=2400)
    if p.returncode != 0:
        raise RuntimeError("model run failed: " + p.stderr.decode("utf-8", "replace")[-2000:])

    n_cases = 0
    nontrivial = set()
    prop_viol = []       # (sortkey, key, case, impl, model, spec, j)
    multi_viol = []      # M lines that violate: (parsed case, case, impl, model, spec)
    solo_bad = set()     # case kinds with a violation in a single-cursor case
    plain_bad = set()    # ... in a single-cursor case that looks at every point (no observation protocol)
    corr = []            # model != impl although impl == spec, or model != spec
    bolt_bad = []
    paged_bad = []
    spec_bad = []
    samples = []
    per_kind = {}
    oracle_every = 5 if c.thorough else 1
    with open(cases_path) as fc, open(os.path.join(c.work, "impl.txt")) as fi, open(model_path) as fm:
        for case, impl, modl in zip(fc, fi, fm):
            case, impl, modl = case.rstrip("\n"), impl.rstrip("\n"), modl.rstrip("\n")
            if not case:
                continue
            n_cases += 1
            if n_cases in (1, 2000, 150000) or c.replay:
                samples.append(dict(case=case, impl=impl, model=modl))
            if case[0] == "B":
                per_kind["bolt"] = per_kind.get("bolt", 0) + 1
                if impl != modl:
                    bolt_bad.append((len(case), case, impl, modl))
                elif "V" in impl:
                    nontrivial.add(hash(case))
                continue
            mo, _, sp = modl.partition(" | ")
            impl_t, mo_t, sp_t = impl.split(), mo.split(), sp.split()
            pc = None
            proto = protocol_of(case) if case[0] in "CQI" else []
            sp_full = sp_t
            if proto:
                per_kind["protocol"] = per_kind.get("protocol", 0) + 1
                if len(proto) != len(sp_t):
                    spec_bad.append((case, "protocol of %d points" % len(proto), sp))
                mo_t = project(mo_t, proto, impl_t) if mo != "-" else mo_t
                sp_t = project(sp_t, proto, impl_t)
                sp = " ".join(sp_t)
                mo = " ".join(mo_t) if mo != "-" else mo
            if sp == "~":
                # paged scanner cursor with Seek operations: the transcription of the code is the only reference
                per_kind["paged-seek"] = per_kind.get("paged-seek", 0) + 1
                if impl_t != mo_t:
                    paged_bad.append((len(case), case, impl, mo))
                    if oracle(parse_case(case)) != ["~"]:
                        spec_bad.append((case, " ".join(oracle(parse_case(case))), sp))
                elif "V" in impl:
                    nontrivial.add(hash(case))
                continue
            if impl_t != sp_t or (mo_t != sp_t and mo != "-") or n_cases % oracle_every == 0:
                pc = parse_case(case)
                per_kind[pc["kind"]] = per_kind.get(pc["kind"], 0)
                if oracle(pc) != sp_full:
                    spec_bad.append((case, " ".join(oracle(pc)), " ".join(sp_full)))
            if impl_t != sp_t and pc.get("head") == "M":
                multi_viol.append((pc, case, impl, mo, sp))      # classified after the single-cursor cases are known
            elif impl_t != sp_t:
                key, j = classify(pc, impl_t, sp_t)
                if proto and pc["kind"] not in plain_bad and not key.endswith("panic"):
                    # right whenever the caller looks at every point (the plain cases of this kind, earlier in the run), wrong under
                    # this protocol: what the cursor shows depends on which of IsValid / Current were called before
                    key = "C14:%s-protocol" % pc["kind"]
                elif not proto:
                    plain_bad.add(pc["kind"])
                solo_bad.add(pc["kind"])
                prop_viol.append(((pc["size"], len(pc["ops"]), j, len(case)), key, case, impl, mo, sp, j))
            elif mo_t != sp_t and mo != "-":
                corr.append((case, impl, mo, sp))
            if "V" in sp or (case[0] == "S" and not sp.startswith("0")):
                nontrivial.add(hash(case))
    if c.replay:
        for s in samples:
            vlib.log("REPLAY case=%s\n  impl =%s\n  model|spec=%s" % (s["case"], s["impl"], s["model"]))

    for pc, case, impl, mo, sp in multi_viol:
        key, j = classify(pc, impl.split(), sp.split(), solo_bad)
        prop_viol.append(((pc["size"], len(pc["ops"]), j, len(case)), key, case, impl, mo, sp, j))
    # property violations: smallest input of every class first
    prop_viol.sort()
    seen = {}
    for sortkey, key, case, impl, mo, sp, j in prop_viol:
        seen[key] = seen.get(key, 0) + 1
        if seen[key] > 2:
            continue
        legacy = ""
        try:
            legacy = run_model(model, "legacy", [case], c.work, "legacy")[0].partition(" | ")[0]
        except Exception:  # noqa
            pass
        pc = parse_case(case)
        dec = lambda xs: [x.decode("latin-1") for x in xs]
        if pc.get("head") == "R":
            seg = impl.split()[:j].count("/")
            rows = "; then ".join("row %s (%s) ops %s" % (
                sg["id"].decode("latin-1"),
                {0: "no such entity", 2: "no bucket for the set"}.get(sg["present"], "set %s" % dec(sg["elems"])),
                " ".join(sg["ops"]) or "(none)") for sg in pc["segs"])
            what = ("ONE runtime set symbol (%s) re-opened row after row: %s. In use #%d (row %s) observation %s where a cursor over that row's set "
                    "shows %s: OpenCursor does not reset what the previous row left. Whole trace %s, demanded %s" % (
                        pc["kind"], rows, seg + 1, pc["segs"][min(seg, len(pc["segs"]) - 1)]["id"].decode("latin-1"),
                        impl.split()[j] if j < len(impl.split()) else "?", sp.split()[j] if j < len(sp.split()) else "?", impl, sp))
        elif pc.get("head") == "I":
            fl = {"T": "ast.BoolNodeTrue", "R": "`anyOf(roles) = ..` accepting %s" % dec(pc["f"]),
                  "N": "`not (anyOf(roles) = ..)` accepting %s" % dec(pc["f"])}.get(pc["flt"], pc["flt"])
            pg = "".join([" skip %s" % pc["skip"] if pc["skip"] != "-" else "", " limit %s" % pc["limit"] if pc["limit"] != "-" else ""])
            site = {"ids": "IterateIds of a root store", "vids": "IterateValidIds of a root store",
                    "cids": "IterateIds of a child store", "cvids": "IterateValidIds of a child store",
                    "xids": "IterateIds of an Extended() child store", "xvids": "IterateValidIds of an Extended() child store",
                    "qc": "QueryWithCursorC(entities bucket cursor) on a root store", "qcc": "QueryWithCursorC(entities bucket cursor) on a child store",
                    "qcx": "QueryWithCursorC(entities bucket cursor) on an Extended() child store",
                    "qci": "QueryWithCursorC(set index value cursor)", "qca": "QueryWithCursorC(IteratorMatchingAllOf)",
                    "qct": "QueryWithCursorC(IteratorMatchingAnyOf)"}.get(pc["base"], pc["base"])
            if pc["kind"].endswith("0"):
                site += " whose entities bucket does not exist"
            what = ("%s%s: entities %s%s, filter %s%s; the cursor is the %s cursor over the set %s (the scanner reads one element ahead of what it "
                    "shows); ops %s: observation #%d is %s, the property demands %s. Whole trace %s, demanded %s" % (
                        site, "" if pc["fw"] else " (sort by id desc)", dec(pc["p"]),
                        ", child data for %s" % dec(pc["c"]) if pc["child"] or pc["base"] == "xids" else "", fl, pg,
                        "query result read as a" if pc["query"] else "seekable", dec(pc["elems"]),
                        " ".join(pc["ops"]) or "(none)", j, impl.split()[j] if j < len(impl.split()) else "?",
                        sp.split()[j] if j < len(sp.split()) else "?", impl, sp))
        elif pc.get("head") == "M":
            i, ti, ts = multi_deviation(pc, impl.split(), sp.split(), j)
            site = {"gs-tags": "Store.GetSymbol(\"tags\").(RuntimeEntitySetSymbol).OpenCursor", "gs-grps": "Store.GetSymbol(\"grps\") [link set] .OpenCursor",
                    "setsym": "tagsSymbol.GetRuntimeSymbol().OpenCursor", "setsymraw": "tagsSymbol.GetRuntimeSymbol().OpenCursor (raw Seek)",
                    "ids": "IterateIds", "tree": "TreeSet.ToCursor", "union": "NewUnionSetCursor", "filtered": "NewFilteredCursor"}
            desc = "; ".join("cursor #%d = %s%s %s over %s, program [%s]" % (
                n, site.get(cu["kind"], cu["kind"]), "" if cu["fw"] else " (reverse)",
                "on an entity that does not exist" if cu["mask"] < 0 else "on row/bucket %d" % cu["mask"], dec(cu["elems"]),
                " ".join(cu["ops"])) for n, cu in enumerate(pc["curs"]))
            turn = pc["sched"][j] if j < len(pc["sched"]) else -1
            what = ("%d cursors alive at once in one read transaction (buckets not modified): %s. Turns (cursor index: first turn = constructor, later turns "
                    "= next operation of its program) %s: after turn #%d (of cursor #%d) cursor #%d shows %s, alone it shows %s - %s. "
                    "Views after every turn %s, demanded %s" % (
                        len(pc["curs"]), desc, " ".join(map(str, pc["sched"])), j + 1, turn, i, ti, ts,
                        "it was moved by the turn of ANOTHER cursor: the two hand-outs share their position" if turn != i
                        else "its own operation continued from a position another cursor left", impl, sp))
        elif pc.get("head") == "S":
            rows = ", ".join("%s:%s" % (r[0].decode("latin-1"), {0: "absent", 2: "no bucket"}.get(r[1], dec(r[2]))) for r in pc["rows"])
            got = {"H": "did not return within 10 s (the set cursor of a row never exhausts)", "P": "panicked", "E": "failed"}.get(
                impl.split()[0] if impl.split() else "?", "returned ids %s" % dec([unhex(x) for x in impl.split()[1:]]))
            what = ("scan %s with filter `%s` over the entities {%s} (set field %s, one cached symbol re-opened for every row): %s; "
                    "the rows whose set satisfies the filter are %s" % (
                        "QueryIds" if pc["variant"] == "q" else "IterateIds", filter_text(pc["field"], pc["filter"]), rows, pc["field"],
                        got, dec([unhex(x) for x in sp.split()[1:]])))
        else:
            what = ("%s cursor (%s) over %s, ops %s: observation #%d is %s, the property demands %s" % (
                pc["kind"], "forward" if pc["fw"] else "reverse", dec(pc["inputs"]),
                " ".join(pc["ops"]) or "(none)", j, impl.split()[j] if j < len(impl.split()) else "?",
                sp.split()[j] if j < len(sp.split()) else "?"))
        proto = protocol_of(case) if case[0] in "CQI" else []
        if proto:
            what += ("; THE CALLER'S PROTOCOL: after the constructor %s, then %s (the same operations with a look at every point show %s); "
                     "trace %s, demanded %s" % (
                         PROTO_WORDS.get(proto[0], proto[0]),
                         ", ".join("%s -> %s" % (o, PROTO_WORDS.get(m, m)) for o, m in zip(pc["ops"], proto[1:])) or "nothing",
                         " ".join(oracle(pc)), impl, sp))
        c.violation(key, what, dict(case=case, impl=impl, model=mo, spec=sp, legacy_model=legacy,
                                    classes={k: v for k, v in seen.items()}))
    if prop_viol:
        counts = {}
        for v in prop_viol:
            counts[v[1]] = counts.get(v[1], 0) + 1
        c.cov["violating_cases_by_class"] = counts

    c.cov["evaluations"] = n_cases
    c.cov["distinct_nontrivial"] = len(nontrivial)
    c.cov["disagreements_checked"] = len(prop_viol) + len(corr) + len(bolt_bad) + len(paged_bad)
    c.cov["rule"] = ("bounded-exhaustive: every subset of {'', a, ab, b, 0xff} (typed element sets) resp. {0x01, a, ab, b, 0xff} (raw keys, ids) "
                     "x every cursor kind / hand-out site x direction x every sequence of exactly d operations over {Next, Seek t} "
                     "(t in 9 targets: present, absent, before first, after last, prefix), d = 3 (4 thorough; 5 over 6 targets) for the base adapters and the "
                     "set-symbol cursor, 2 (3) for the hand-out sites; Next-only cursors (filtered, union, tree) over all pairs of subsets / all insertion orders; "
                     "RE-OPENED cursors: one runtime set symbol (GetSymbol / GetRuntimeSymbol of a string-list and of a link-set field) opened on a first row "
                     "(5 (12) subsets) and driven by every op sequence of length <= 2 (3), then opened on every other row (32 subsets, empty bucket, no bucket, "
                     "no entity) with Next Next / Seek Next, then on a third row; the composite symbols grps.items, grps.items.tags over all row triples; "
                     "scans (QueryIds, IterateIds) of all worlds of 3 (4) entities x {no bucket, empty, {a}, {b}, {a,b}} x 14-17 filters built from "
                     "isEmpty / anyOf = / anyOf != / allOf = / count / isEmpty(from .. where true) with not/and/or, every query under a 10 s limit; "
                     "SCANNERS LAYERED OVER CURSORS: IterateIds / IterateValidIds of a root store, a child store and an Extended() child store (and of stores "
                     "without an entities bucket) over every pair (entities P, entities with child data C) of subsets of the id universe, filter ast.BoolNodeTrue "
                     "and parsed selective filters accepting every subset of P (child stores: 3 masks), driven by every op sequence of depth 1 and 3 (4) [filter "
                     "true] / 2 (3) [selective, child stores] AND by the walks Next^k Seek t Next for every k = 0 .. |P|+1 and every target (a seek from every "
                     "position, the last element and exhaustion included); filters with skip/limit (11 pagings) Next-only against the page, with Seek against "
                     "the model only; QueryWithCursorC over the entities bucket cursor / set index value cursor / AllOf / AnyOf iterators, both directions, all pagings; "
                     "SEVERAL CURSORS ALIVE AT ONCE (one read transaction, all cursors re-observed after every turn): two cursors of the same set symbol "
                     "(GetSymbol / GetRuntimeSymbol of a string-list and a link-set field) on 7 (9) x 7 (9) rows incl. equal rows, no bucket, no entity x 5 (9) x 5 (9) "
                     "programs x every merge order (Next-only programs; up to 5 operations thorough) or 4-8 characteristic merge orders; three cursors of one symbol on "
                     "27 (64) row triples x every merge order; every ordered pair of the 30 cursor families over the same / different buckets with Next and Seek programs; "
                     "AllOf/AnyOf iterators over seeded random role assignments x all value lists of length <= 3; B: seeded random First/Last/Next/Prev/Seek "
                     "sequences on real bbolt buckets (all 32 subsets, one multi-page bucket, read-only and writable transactions). "
                     "CURSOR PROTOCOL (case lines with ' @ modes'): every seekable kind / hand-out site, the hand-outs for missing things and the emptyCursors over "
                     "8 (32) subsets x every op sequence of length 1-2 over {Next, Seek t} (3 (5) targets) x every observation protocol with one of {not looked at, "
                     "IsValid then Current, Current then IsValid, Current only, IsValid only} at each point (Next or Seek as the first call on a fresh cursor, "
                     "operations without a look in between, Current without / before IsValid), Next-walks with the first k points untouched for all kinds incl. "
                     "filtered / union / tree and the AllOf/AnyOf iterators, idxkey, three protocols for every unpaged scanner-cursor program of length 1-2; reference = "
                     "the trace of the same case projected on the points looked at. "
                     "Otherwise observed after the constructor and after every op: IsValid / Current. Non-trivial: the specification trace contains at least one valid "
                     "position (B: at least one key returned); distinct by case text.")
    c.cov["samples"] = samples[:4]
    c.cov["exhaustive"] = True
    try:
        c.cov["input_distribution"] = json.load(open(os.path.join(c.work, "stats.json")))
    except Exception:  # noqa
        pass

    if bolt_bad:
        bolt_bad.sort()
        _, case, impl, modl = bolt_bad[0]
        c.violation("C14:bbolt-model", "the abstract bbolt cursor (Cursor/BoltCursor.v) and real bbolt differ on %d op sequences, e.g. %s: bbolt %s model %s"
                    % (len(bolt_bad), case[:300], impl[:200], modl[:200]),
                    dict(correspondence="Cursor/BoltCursor.v vs go.etcd.io/bbolt Cursor", theorems=["bolt_refines_position", "typed_refines_position"],
                         case=case, impl=impl, model=modl), no_input=True)
    if paged_bad:
        paged_bad.sort()
        _, case, impl, mo = paged_bad[0]
        c.violation("C14:paged-seek-model", "paged scanner cursors (filter with skip/limit) driven with Seek: implementation and the model of "
                    "uniqueIndexScanner (Cursor/Scanner.v) differ on %d programs, e.g. %s: impl %s model %s" % (len(paged_bad), case, impl, mo),
                    dict(correspondence="Cursor/Scanner.v sc_next / sc_seek with paging vs boltz uniqueIndexScanner", case=case, impl=impl, model=mo),
                    no_input=True)
    if spec_bad:
        case, orc, sp = spec_bad[0]
        c.violation("C14:spec-extraction", "extracted specification and the check's own oracle differ on %d cases, e.g. %s: oracle %s spec %s"
                    % (len(spec_bad), case, orc, sp), dict(correspondence="spec_run vs python oracle", case=case, oracle=orc, spec=sp), no_input=True)
    if corr and not prop_viol:
        case, impl, mo, sp = corr[0]
        c.violation("C14:correspondence", "model and specification differ on %d cases although the implementation meets the specification, e.g. %s: impl %s model %s"
                    % (len(corr), case, impl, mo),
                    dict(correspondence="Cursor/*.v vs extracted spec_run", case=case, impl=impl, model=mo, spec=sp), no_input=True)
    if not proof_ok:
        c.violation("C14:proof", "proof obligation no longer checks: %s" % json.dumps(c.proof_broken)[:600],
                    dict(broken=c.proof_broken), no_input=True)
    return c.finish()
