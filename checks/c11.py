"""C11 - string literals denote exactly the intended string.
Proof: coq/theories/Properties/C11.v (models Lang/Unescape.v, Lang/StrCompare.v).
Correspondence: zitiql.ParseZqlString, the real lexer's STRING rule and end-to-end filter
evaluation against the extracted model, on all strings <= 4 (5) over an 8-symbol alphabet plus
seeded random ones; stream Q: the literal as operand of every string comparison (= != < <= > >= contains
icontains in, and their negations) against STORED values through Store.QueryIds (plain field, id, fk field,
string set with anyOf/allOf, fk set) for values that spell words / syntax of the filter language, boundary
values (empty string, blanks, quotes, control bytes, non-UTF-8 stored bytes, long) and escape-alphabet strings."""
import json
import os

import vlib

PID = "C11"
FILES = ["theories/Properties/C11.v", "theories/Properties/C11Gen.v", "theories/Examples/C11Examples.v"]


def unhex(h):
    return b"" if h == "-" else bytes.fromhex(h)


# ---- stream Q: comparisons with stored values ------------------------------------------------------------
Q_NEGATED = ("neq", "ncontains", "nicontains", "notin")
Q_OPTEXT = {"eq": "=", "neq": "!=", "lt": "<", "le": "<=", "gt": ">", "ge": ">=", "contains": "contains", "ncontains": "not contains",
            "icontains": "icontains", "nicontains": "not icontains", "in": "in", "notin": "not in"}
Q_LHS = {"sym": "name (ast symbols)", "name": "name", "id": "id", "fk": "peer.name", "any": "anyOf(tags)", "all": "allOf(tags)",
         "anyfk": "anyOf(peers.name)"}


def q_parse(cf):
    path, op, ctx, esc = cf[1:5]
    s = unhex(cf[5])
    k, nd = int(cf[6]), int(cf[7])
    decoys = [unhex(h) for h in cf[8:8 + nd]]
    rows = cf[8 + nd + 1:]
    return path, op, ctx, esc, s, k, decoys, rows


def q_fold(b):
    """upper-casing as far as it is unambiguous: None for text that is not valid UTF-8"""
    try:
        u = b.decode("utf-8")
    except UnicodeDecodeError:
        return None
    return "".join(ch.upper() if len(ch.upper()) == 1 else ch for ch in u)


def q_elem(op, x, s, vals):
    """what the property demands of  <element x> <op> <literal of s>  (None: nothing demanded)"""
    if op == "eq":
        return x == s
    if op == "neq":
        return x != s
    if op == "lt":
        return x < s
    if op == "le":
        return x <= s
    if op == "gt":
        return x > s
    if op == "ge":
        return x >= s
    if op == "contains":
        return s in x
    if op == "ncontains":
        return s not in x
    if op in ("icontains", "nicontains"):
        fx, fs = q_fold(x), q_fold(s)
        if fx is None or fs is None:
            return None
        return (fs in fx) == (op == "icontains")
    if op == "in":
        return x in vals
    if op == "notin":
        return x not in vals
    raise ValueError(op)


def q_expected(cf):
    """one of 0 1 x per row: the literal of s denotes s, so the comparison selects the rows that s itself selects.
    x = the property does not say (a row without value under an ordering or negated operator, allOf over no elements,
    case folding of text that is not UTF-8)"""
    path, op, ctx, esc, s, k, decoys, rows = q_parse(cf)
    vals = decoys[:k] + [s] + decoys[k:]
    out = []
    for row in rows:
        if path in ("any", "all", "anyfk"):
            elems = [] if row == "~" else [unhex(h) for h in row.split(",")]
            bits = [q_elem(op, e, s, vals) for e in elems]
            if not elems:
                v = None if (path == "all" or op in Q_NEGATED) else False
            elif path == "all":
                v = False if any(b is False for b in bits) else (None if any(b is None for b in bits) else True)
            else:
                v = True if any(b is True for b in bits) else (None if any(b is None for b in bits) else False)
        elif row == "~":
            # a row without a value equals no string and contains none
            v = False if op in ("eq", "in", "contains", "icontains") else None
        else:
            v = q_elem(op, unhex(row), s, vals)
        if v is not None and ctx == "n":
            v = not v
        out.append("x" if v is None else ("1" if v else "0"))
    return "".join(out)


def q_mismatch(want, got):
    if len(want) != len(got) or any(ch not in "01" for ch in got):
        return 0
    for i, (w, g) in enumerate(zip(want, got)):
        if w != "x" and w != g:
            return i
    return None


def q_describe(cf, fi, want, idx):
    path, op, ctx, esc, s, k, decoys, rows = q_parse(cf)
    got = fi[1] if len(fi) > 1 else ""
    try:
        qtext = unhex(fi[2]).decode("utf-8", "replace") if len(fi) > 2 else "?"
    except Exception:
        qtext = "?"
    if any(ch not in "01" for ch in got) or len(got) != len(want):
        return "filter %r (literal of %r as operand of %s on %s) is not evaluated: %s" % (qtext, s, Q_OPTEXT[op], Q_LHS[path], got)
    row = rows[idx]
    shown = "no value" if row == "~" else ", ".join(repr(unhex(h)) for h in row.split(","))
    return ("filter %r: the literal must denote %r, so the row holding %s must %sbe selected, but it is%s (rows selected %s, "
            "expected %s)" % (qtext, s, shown, "" if want[idx] == "1" else "not ", " not" if want[idx] == "1" else "", got, want))


def q_shrink_candidates(cf, idx):
    """smaller cases of the same shape, smallest first: one row, fewer decoys, plain context, substrings of s"""
    path, op, ctx, esc, s, k, decoys, rows = q_parse(cf)

    def line(s2, k2, dec2, rows2, ctx2):
        return " ".join(["Q", path, op, ctx2, esc, vlib_hex(s2), str(k2), str(len(dec2))] + [vlib_hex(d) for d in dec2]
                        + [str(len(rows2))] + rows2)
    out = []
    bad = rows[idx]
    ctxs = [ctx] if ctx in ("p", "n") else ["p", ctx]
    decs = [(0, [])] + [(0, [d]) for d in decoys] + [(1, [d]) for d in decoys] + [(k, decoys)]
    subs = []
    if len(s) <= 40:
        for ln in range(0, len(s)):
            for st in range(0, len(s) - ln + 1):
                sub = s[st:st + ln]
                if sub not in subs and q_fold(sub) is not None:
                    subs.append(sub)
    for c2 in ctxs:
        for k2, dec2 in decs:
            if path not in ("any", "all", "anyfk"):
                for sub in subs:      # the value itself stored, queried by its own literal
                    if path != "id" or sub:
                        out.append(line(sub, k2, dec2, [vlib_hex(sub)], c2))
            out.append(line(s, k2, dec2, [bad], c2))
    out.append(" ".join(cf))
    seen, uniq = set(), []
    for l in out:
        if l not in seen:
            seen.add(l)
            uniq.append(l)
    return uniq[:4000]


def vlib_hex(b):
    return "-" if not b else b.hex()


def q_shrink(c, harness, cf, idx):
    """re-run smaller variants of a violating case on the current tree; return the smallest that still violates"""
    cands = q_shrink_candidates(cf, idx)
    wd = os.path.join(c.work, "shrink")
    os.makedirs(wd, exist_ok=True)
    rin = os.path.join(wd, "in.txt")
    with open(rin, "w") as f:
        f.write("\n".join(cands) + "\n")
    rc, out = vlib.run([harness, "c11", "--out", wd, "--replaycase", rin], timeout=600)
    if rc != 0:
        return None
    cs = vlib.read_lines(os.path.join(wd, "cases.txt"))
    im = vlib.read_lines(os.path.join(wd, "impl.txt"))
    best = None
    for case, i in zip(cs, im):
        cf2, fi2 = case.split(), i.split()
        want = q_expected(cf2)
        got = fi2[1] if len(fi2) > 1 else ""
        j = q_mismatch(want, got)
        if j is not None and (best is None or q_size(case) < q_size(best[0])):
            best = (case, i, want, j)
    return best


Q_PATH_RANK = {"name": 0, "sym": 0, "id": 1, "any": 2, "all": 3, "fk": 4, "anyfk": 5}


def q_size(case):
    """order in which violating cases are preferred as the replay: simplest path, fewest list literals, shortest"""
    cf = case.split()
    return (Q_PATH_RANK.get(cf[1], 9), int(cf[7]), len(case))


def main(argv):
    c = vlib.Check(PID, argv)
    c.cov["trusted_base"] = [
        "Coq 8.16.1 kernel (coqc; coqchk in the thorough tier); vm_compute in Examples only; no axioms",
        "hand-written model Lang/Unescape.v of zitiql.ParseZqlString and the STRING token rule",
        "hand-written model Lang/StrCompare.v of the evaluation of a string comparison against a stored value (listener's choice of "
        "operator / negation from the operator token, BinaryStringExprNode / InStringArrayExprNode.EvalBool, anyOf / allOf with the "
        "seek short-cut, rowCursorImpl.EvalString / FieldToString on a stored, empty or absent value); compared with Store.QueryIds on "
        "every Q case; icontains is modelled for ASCII text only (the model abstains otherwise, the oracle still applies)",
        "translators/unescape (reads the NewReplacer pairs and the statement shape of ParseZqlString; Properties/C11Gen.v proves "
        "that what it read is the model function) and the documented semantics of strings.NewReplacer / TrimPrefix / TrimSuffix",
        "extraction (ExtrOcamlBasic only) + extraction/c11_driver.ml + drv_common.ml",
        "Go harness cmd/storageharness/c11.go (generators, literal printers) and this comparison",
        "ANTLR lexer runtime (the token rule is compared with the real lexer, not verified)",
    ]
    c.assumptions = ["strings are valid UTF-8 (antlr converts the input to runes); bytes >= 0x80 are safe code points"]
    proof_ok = c.proof_step(FILES, translators=["unescape"])
    model = vlib.build_model("C11")
    harness, err = vlib.build_harness()
    if harness is None:
        c.violation("C11:harness-build", "harness does not build against the repository: " + err[-800:],
                    dict(correspondence="harness build", log=err[-3000:]), no_input=True)
        return c.finish()

    cases_path = os.path.join(c.work, "cases.txt")
    if c.replay:
        rp = json.load(open(c.replay))
        rin = os.path.join(c.work, "replay_in.txt")
        with open(rin, "w") as f:
            f.write(rp["case"] + "\n")
        args = [harness, "c11", "--out", c.work, "--replaycase", rin]
    else:
        args = [harness, "c11", "--seed", str(c.seed), "--tier", c.tier, "--out", c.work]
    rc, out = vlib.run(args, timeout=1800)
    if rc != 0:
        c.violation("C11:harness-run", "harness failed rc=%s: %s" % (rc, out[-500:]),
                    dict(correspondence="harness run", log=out[-3000:]), no_input=True)
        return c.finish()
    cases = vlib.read_lines(cases_path)
    impl = vlib.read_lines(os.path.join(c.work, "impl.txt"))
    modl = vlib.run_model(model, "c11", cases_path, os.path.join(c.work, "model.txt"))
    assert len(cases) == len(impl) == len(modl), (len(cases), len(impl), len(modl))

    distinct = set()
    disagreements = []      # model != impl without a property verdict
    q_viol = {}             # key -> violating Q cases
    for case, i, m in zip(cases, impl, modl):
        cf, fi, fm = case.split(), i.split(), m.split()
        kind = cf[0]
        if kind == "T":
            if fi != fm:
                disagreements.append((case, i, m))
            if b"\\" in unhex(cf[1]):
                distinct.add(case)
        elif kind == "B":
            if fi != fm:
                disagreements.append((case, i, m))
            distinct.add(case)
        elif kind == "L":
            s = unhex(cf[1])
            em, ef, vmin, vfull = fm[1], fm[2], fm[3], fm[4]
            ivmin, ivfull, lexmin, lexfull = fi[1], fi[2], fi[3], fi[4]
            # the property itself: an expressible string's literal is one token and denotes the string
            if em == "1" and (unhex(ivmin) != s or lexmin != "1"):
                c.violation("C11:literal-min", "literal (\\ and \" escaped) of %r denotes %r, one-token=%s" % (s, unhex(ivmin), lexmin),
                            dict(case=case, impl=i, model=m, value=repr(s)))
            elif ef == "1" and (unhex(ivfull) != s or lexfull != "1"):
                c.violation("C11:literal-full", "fully escaped literal of %r denotes %r, one-token=%s" % (s, unhex(ivfull), lexfull),
                            dict(case=case, impl=i, model=m, value=repr(s)))
            elif (ivmin, ivfull) != (vmin, vfull):
                disagreements.append((case, i, m))
            if b"\\" in s or b'"' in s or any(ch < 32 for ch in s):
                distinct.add(case)
        elif kind == "E":
            op, esc, s = cf[1], cf[2], unhex(cf[3])
            cands = [unhex(h) for h in cf[4:]]
            express = all(ch >= 32 or (esc == "full" and ch in (9, 10, 12, 13)) for ch in s)
            if not express:
                continue   # no literal exists for this string with this escaper; nothing to require
            if op in ("eq", "in"):
                want = "".join("1" if x == s else "0" for x in cands)
            elif op == "neq":
                want = "".join("0" if x == s else "1" for x in cands)
            else:
                want = "".join("1" if s in x else "0" for x in cands)
            got = fi[1] if len(fi) > 1 else ""
            if got != want:
                c.violation("C11:end-to-end-" + op, "name %s <literal of %r> matched %s of the candidates, expected %s" % (op, s, got, want),
                            dict(case=case, impl=i, expected=want, value=repr(s), candidates=[repr(x) for x in cands]))
            distinct.add(case)
        elif kind == "Q":
            want = q_expected(cf)
            got = fi[1] if len(fi) > 1 else ""
            idx = q_mismatch(want, got)
            path, op = cf[1], cf[2]
            if idx is not None:
                key = ("C11:end-to-end-" if path == "sym" else "C11:stored-") + op
                q_viol.setdefault(key, []).append((case, i, want, idx))
            elif fm[1:2] != ["?"] and fm[1:2] != fi[1:2]:
                disagreements.append((case, i, m))
            if "1" in want and "0" in want:
                distinct.add(case)
    for key, lst in sorted(q_viol.items()):
        case, i, want, idx = min(lst, key=lambda v: q_size(v[0]))
        small = None if c.replay else q_shrink(c, harness, case.split(), idx)
        if small is not None:
            case, i, want, idx = small
        c.violation(key, "%s [%d failing cases of this kind]" % (q_describe(case.split(), i.split(), want, idx), len(lst)),
                    dict(case=case, impl=i, expected=want, value=repr(unhex(case.split()[5])),
                         query=(unhex(i.split()[2]).decode("utf-8", "replace") if len(i.split()) > 2 else None)))
    if c.replay:
        for case, i, m in zip(cases, impl, modl):
            vlib.log("REPLAY case=%s\n  impl =%s\n  model=%s" % (case, i, m))
    c.cov["evaluations"] = len(cases)
    c.cov["distinct_nontrivial"] = len(distinct)
    c.cov["disagreements_checked"] = len(disagreements)
    c.cov["rule"] = ("all byte strings of length <= %d over {a,n,t,\\,\",LF,TAB,e-acute} (as value L, as token T, as token body B) + "
                     "seeded random strings over a 21-symbol alphabet incl. raw control bytes; end-to-end E cases evaluate "
                     "name =/!=/in/contains <literal> over the value and its near misses. Stream Q: <lhs> <op> <literal(s)> for 12 "
                     "operators x 7 left-hand sides (ast symbol, stored field, id, fk field, anyOf/allOf string set, anyOf fk set) x 10 "
                     "query contexts, in-lists with 0-3 further literals, over rows holding s, its near misses, the empty string, a "
                     "blank and no value; s ranges over every word of the filter language in 4 letter cases, pieces of filter syntax, "
                     "those embedded / combined, boundary strings, escape-alphabet strings. Non-trivial: contains a backslash, "
                     "quote or control character (L), a backslash (T), any body (B), any expressible E case, a Q case whose oracle "
                     "selects some rows and rejects others; distinct by case text"
                     % (5 if c.thorough else 4))
    c.cov["samples"] = [dict(case=cases[k], impl=impl[k], model=modl[k]) for k in sorted(set((0, min(1, len(cases) - 1), len(cases) // 2, len(cases) - 1)))]
    try:
        c.cov["input_distribution"] = json.load(open(os.path.join(c.work, "stats.json")))
    except Exception:
        pass
    if disagreements and not c.violations:
        case, i, m = disagreements[0]
        c.violation("C11:correspondence", "model Lang/Unescape.v and zitiql.ParseZqlString / lexer differ on %d cases, e.g. %s: impl %s model %s"
                    % (len(disagreements), case, i, m),
                    dict(correspondence="Lang/Unescape.v vs zitiql.ParseZqlString", theorems=["literal_roundtrip_full", "literal_roundtrip_min"],
                         case=case, impl=i, model=m), no_input=True)
    if not proof_ok:
        c.violation("C11:proof", "proof obligation no longer checks: %s" % json.dumps(c.proof_broken)[:600],
                    dict(broken=c.proof_broken), no_input=True)
    return c.finish()
