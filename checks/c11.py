"""C11 - string literals denote exactly the intended string.
Proof: coq/theories/Properties/C11.v (model Lang/Unescape.v).
Correspondence: zitiql.ParseZqlString, the real lexer's STRING rule and end-to-end filter
evaluation against the extracted model, on all strings <= 4 (5) over an 8-symbol alphabet plus
seeded random ones."""
import json
import os

import vlib

PID = "C11"
FILES = ["theories/Properties/C11.v", "theories/Properties/C11Gen.v", "theories/Examples/C11Examples.v"]


def unhex(h):
    return b"" if h == "-" else bytes.fromhex(h)


def main(argv):
    c = vlib.Check(PID, argv)
    c.cov["trusted_base"] = [
        "Coq 8.16.1 kernel (coqc; coqchk in the thorough tier); vm_compute in Examples only; no axioms",
        "hand-written model Lang/Unescape.v of zitiql.ParseZqlString and the STRING token rule",
        "translators/unescape (reads the NewReplacer pairs and the statement shape of ParseZqlString; Properties/C11Gen.v proves "
        "that what it read is the model function) and the documented semantics of strings.NewReplacer / TrimPrefix / TrimSuffix",
        "extraction (ExtrOcamlBasic only) + extraction/c11_driver.ml + drv_common.ml",
        "Go harness cmd/storageharness/c11.go (generators, literal printers) and this comparison",
        "ANTLR lexer runtime (the token rule is compared with the real lexer, not verified)",
    ]
    c.assumptions = ["strings are valid UTF-8 (antlr converts the input to runes); bytes >= 0x80 are safe code points"]
    proof_ok = c.proof_step(FILES, translators=["unescape"])
    model = vlib.build_model("C11")
    harness, err = vlib.build_harness()
    if harness is None:
        c.violation("C11:harness-build", "harness does not build against the repository: " + err[-800:],
                    dict(correspondence="harness build", log=err[-3000:]), no_input=True)
        return c.finish()

    cases_path = os.path.join(c.work, "cases.txt")
    if c.replay:
        rp = json.load(open(c.replay))
        rin = os.path.join(c.work, "replay_in.txt")
        with open(rin, "w") as f:
            f.write(rp["case"] + "\n")
        args = [harness, "c11", "--out", c.work, "--replaycase", rin]
    else:
        args = [harness, "c11", "--seed", str(c.seed), "--tier", c.tier, "--out", c.work]
    rc, out = vlib.run(args, timeout=1800)
    if rc != 0:
        c.violation("C11:harness-run", "harness failed rc=%s: %s" % (rc, out[-500:]),
                    dict(correspondence="harness run", log=out[-3000:]), no_input=True)
        return c.finish()
    cases = vlib.read_lines(cases_path)
    impl = vlib.read_lines(os.path.join(c.work, "impl.txt"))
    modl = vlib.run_model(model, "c11", cases_path, os.path.join(c.work, "model.txt"))
    assert len(cases) == len(impl) == len(modl), (len(cases), len(impl), len(modl))

    distinct = set()
    disagreements = []      # model != impl without a property verdict
    for case, i, m in zip(cases, impl, modl):
        cf, fi, fm = case.split(), i.split(), m.split()
        kind = cf[0]
        if kind == "T":
            if fi != fm:
                disagreements.append((case, i, m))
            if b"\\" in unhex(cf[1]):
                distinct.add(case)
        elif kind == "B":
            if fi != fm:
                disagreements.append((case, i, m))
            distinct.add(case)
        elif kind == "L":
            s = unhex(cf[1])
            em, ef, vmin, vfull = fm[1], fm[2], fm[3], fm[4]
            ivmin, ivfull, lexmin, lexfull = fi[1], fi[2], fi[3], fi[4]
            # the property itself: an expressible string's literal is one token and denotes the string
            if em == "1" and (unhex(ivmin) != s or lexmin != "1"):
                c.violation("C11:literal-min", "literal (\\ and \" escaped) of %r denotes %r, one-token=%s" % (s, unhex(ivmin), lexmin),
                            dict(case=case, impl=i, model=m, value=repr(s)))
            elif ef == "1" and (unhex(ivfull) != s or lexfull != "1"):
                c.violation("C11:literal-full", "fully escaped literal of %r denotes %r, one-token=%s" % (s, unhex(ivfull), lexfull),
                            dict(case=case, impl=i, model=m, value=repr(s)))
            elif (ivmin, ivfull) != (vmin, vfull):
                disagreements.append((case, i, m))
            if b"\\" in s or b'"' in s or any(ch < 32 for ch in s):
                distinct.add(case)
        elif kind == "E":
            op, esc, s = cf[1], cf[2], unhex(cf[3])
            cands = [unhex(h) for h in cf[4:]]
            express = all(ch >= 32 or (esc == "full" and ch in (9, 10, 12, 13)) for ch in s)
            if not express:
                continue   # no literal exists for this string with this escaper; nothing to require
            if op in ("eq", "in"):
                want = "".join("1" if x == s else "0" for x in cands)
            elif op == "neq":
                want = "".join("0" if x == s else "1" for x in cands)
            else:
                want = "".join("1" if s in x else "0" for x in cands)
            got = fi[1] if len(fi) > 1 else ""
            if got != want:
                c.violation("C11:end-to-end-" + op, "name %s <literal of %r> matched %s of the candidates, expected %s" % (op, s, got, want),
                            dict(case=case, impl=i, expected=want, value=repr(s), candidates=[repr(x) for x in cands]))
            distinct.add(case)
    if c.replay:
        for case, i, m in zip(cases, impl, modl):
            vlib.log("REPLAY case=%s\n  impl =%s\n  model=%s" % (case, i, m))
    c.cov["evaluations"] = len(cases)
    c.cov["distinct_nontrivial"] = len(distinct)
    c.cov["disagreements_checked"] = len(disagreements)
    c.cov["rule"] = ("all byte strings of length <= %d over {a,n,t,\\,\",LF,TAB,e-acute} (as value L, as token T, as token body B) + "
                     "seeded random strings over a 21-symbol alphabet incl. raw control bytes; end-to-end E cases evaluate "
                     "name =/!=/in/contains <literal> over the value and its near misses. Non-trivial: contains a backslash, "
                     "quote or control character (L), a backslash (T), any body (B), any expressible E case; distinct by case text"
                     % (5 if c.thorough else 4))
    c.cov["samples"] = [dict(case=cases[k], impl=impl[k], model=modl[k]) for k in sorted(set((0, min(1, len(cases) - 1), len(cases) // 2, len(cases) - 1)))]
    try:
        c.cov["input_distribution"] = json.load(open(os.path.join(c.work, "stats.json")))
    except Exception:
        pass
    if disagreements and not c.violations:
        case, i, m = disagreements[0]
        c.violation("C11:correspondence", "model Lang/Unescape.v and zitiql.ParseZqlString / lexer differ on %d cases, e.g. %s: impl %s model %s"
                    % (len(disagreements), case, i, m),
                    dict(correspondence="Lang/Unescape.v vs zitiql.ParseZqlString", theorems=["literal_roundtrip_full", "literal_roundtrip_min"],
                         case=case, impl=i, model=m), no_input=True)
    if not proof_ok:
        c.violation("C11:proof", "proof obligation no longer checks: %s" % json.dumps(c.proof_broken)[:600],
                    dict(broken=c.proof_broken), no_input=True)
    return c.finish()
