"""C11 - string literals denote exactly the intended string.
Proof: coq/theories/Properties/C11.v (models Lang/Unescape.v, Lang/StrCompare.v).
Correspondence: zitiql.ParseZqlString, the real lexer's STRING rule and end-to-end filter
evaluation against the extracted model, on all strings <= 4 (5) over an 8-symbol alphabet plus
seeded random ones; stream Q: the literal as operand of every string comparison (= != < <= > >= contains
icontains in, and their negations) against STORED values through Store.QueryIds (plain field, id, fk field,
string set with anyOf/allOf, fk set) for values that spell words / syntax of the filter language, boundary
values (empty string, blanks, quotes, control bytes, non-UTF-8 stored bytes, long) and escape-alphabet strings;
stream M: filters with SEVERAL comparisons in which literals repeat (identical token, case variant, prefix, escaped
spelling) across operators, fields, in-lists, set functions and sub-queries, joined by and / or / not, and sequences of
filters parsed in one process - every literal occurrence must denote its own string (model Lang/StrFilter.v);
in-lists by LENGTH and ORDER (c11l.go, Q and M cases): 1..21 and 32 / 64 / 257 literals (thorough up to 1000) written ascending,
descending, shuffled, with duplicates, rotated, the probed literal at every position, every list value a stored row - membership
in the set of denoted strings whatever the length and order (theorem in_list_length_order_independent);
values whose TEXT has a reading in another notation (c11n.go, Q and M cases): integer- / float- / bool- / null- / datetime-looking
strings (007 +7 -0 1.0 1e3 TRUE ..), percent / form encodings (%20 %25 a+b=%3F, invalid ones), HTML entities, backslash / unicode /
quoted-printable escapes, placeholders, Unicode normal forms and look-alikes - alone under every operator and left-hand side and
in HOMOGENEOUS in-lists (every literal of the family), over rows holding the value and each of its readings."""
import json
import os

import vlib

PID = "C11"
FILES = ["theories/Properties/C11.v", "theories/Properties/C11Gen.v", "theories/Examples/C11Examples.v"]


def unhex(h):
    return b"" if h == "-" else bytes.fromhex(h)


# ---- stream Q: comparisons with stored values ------------------------------------------------------------
Q_NEGATED = ("neq", "ncontains", "nicontains", "notin")
Q_OPTEXT = {"eq": "=", "neq": "!=", "lt": "<", "le": "<=", "gt": ">", "ge": ">=", "contains": "contains", "ncontains": "not contains",
            "icontains": "icontains", "nicontains": "not icontains", "in": "in", "notin": "not in"}
Q_LHS = {"sym": "name (ast symbols)", "name": "name", "id": "id", "fk": "peer.name", "any": "anyOf(tags)", "all": "allOf(tags)",
         "anyfk": "anyOf(peers.name)"}


def q_parse(cf):
    path, op, ctx, esc = cf[1:5]
    s = unhex(cf[5])
    k, nd = int(cf[6]), int(cf[7])
    decoys = [unhex(h) for h in cf[8:8 + nd]]
    rows = cf[8 + nd + 1:]
    return path, op, ctx, esc, s, k, decoys, rows


def q_fold(b):
    """upper-casing as far as it is unambiguous: None for text that is not valid UTF-8"""
    try:
        u = b.decode("utf-8")
    except UnicodeDecodeError:
        return None
    return "".join(ch.upper() if len(ch.upper()) == 1 else ch for ch in u)


def q_elem(op, x, s, vals):
    """what the property demands of  <element x> <op> <literal of s>  (None: nothing demanded)"""
    if op == "eq":
        return x == s
    if op == "neq":
        return x != s
    if op == "lt":
        return x < s
    if op == "le":
        return x <= s
    if op == "gt":
        return x > s
    if op == "ge":
        return x >= s
    if op == "contains":
        return s in x
    if op == "ncontains":
        return s not in x
    if op in ("icontains", "nicontains"):
        fx, fs = q_fold(x), q_fold(s)
        if fx is None or fs is None:
            return None
        return (fs in fx) == (op == "icontains")
    if op == "in":
        return x in vals
    if op == "notin":
        return x not in vals
    raise ValueError(op)


def q_expected(cf):
    """one of 0 1 x per row: the literal of s denotes s, so the comparison selects the rows that s itself selects.
    x = the property does not say (a row without value under an ordering or negated operator, allOf over no elements,
    case folding of text that is not UTF-8)"""
    path, op, ctx, esc, s, k, decoys, rows = q_parse(cf)
    vals = decoys[:k] + [s] + decoys[k:]
    out = []
    for row in rows:
        if path in ("any", "all", "anyfk"):
            elems = [] if row == "~" else [unhex(h) for h in row.split(",")]
            bits = [q_elem(op, e, s, vals) for e in elems]
            if not elems:
                v = None if (path == "all" or op in Q_NEGATED) else False
            elif path == "all":
                v = False if any(b is False for b in bits) else (None if any(b is None for b in bits) else True)
            else:
                v = True if any(b is True for b in bits) else (None if any(b is None for b in bits) else False)
        elif row == "~":
            # a row without a value equals no string and contains none
            v = False if op in ("eq", "in", "contains", "icontains") else None
        else:
            v = q_elem(op, unhex(row), s, vals)
        if v is not None and ctx == "n":
            v = not v
        out.append("x" if v is None else ("1" if v else "0"))
    return "".join(out)


def q_mismatch(want, got):
    if len(want) != len(got) or any(ch not in "01" for ch in got):
        return 0
    for i, (w, g) in enumerate(zip(want, got)):
        if w != "x" and w != g:
            return i
    return None


def q_own_row(cf, want, got, idx):
    """in / not in: prefer, among the rows that contradict the oracle, the one that holds s itself"""
    path, op, ctx, esc, s, k, decoys, rows = q_parse(cf)
    if op in ("in", "notin") and len(got) == len(want) == len(rows):
        for j, row in enumerate(rows):
            if row == vlib_hex(s) and want[j] != "x" and got[j] in "01" and got[j] != want[j]:
                return j
    return idx


def q_describe(cf, fi, want, idx):
    path, op, ctx, esc, s, k, decoys, rows = q_parse(cf)
    got = fi[1] if len(fi) > 1 else ""
    try:
        qtext = unhex(fi[2]).decode("utf-8", "replace") if len(fi) > 2 else "?"
    except Exception:
        qtext = "?"
    if any(ch not in "01" for ch in got) or len(got) != len(want):
        return "filter %r (literal of %r as operand of %s on %s) is not evaluated: %s" % (qtext, s, Q_OPTEXT[op], Q_LHS[path], got)
    row = rows[idx]
    shown = "no value" if row == "~" else ", ".join(repr(unhex(h)) for h in row.split(","))
    denote = "the literal must denote %r" % s
    if op in ("in", "notin") and decoys:
        vals = decoys[:k] + [s] + decoys[k:]
        denote = "the %d literals must denote %s" % (len(vals), ", ".join(repr(v) for v in vals[:24]) + (" .." if len(vals) > 24 else ""))
    instead = q_instead(cf, want, got)
    return ("filter %r: %s, so the row holding %s must %sbe selected, but it is%s (rows selected %s, "
            "expected %s)%s" % (qtext if len(qtext) <= 600 else qtext[:600] + " ..", denote, shown, "" if want[idx] == "1" else "not ",
                                " not" if want[idx] == "1" else "", got if len(got) <= 80 else got[:80] + "..",
                                want if len(want) <= 80 else want[:80] + "..", instead))


def q_instead(cf, want, got):
    """= / in on a scalar path: the rows that are selected although they hold another string - what the literal is read as"""
    path, op, ctx, esc, s, k, decoys, rows = q_parse(cf)
    if op not in ("eq", "in") or ctx == "n" or path in ("any", "all", "anyfk") or len(got) != len(want) or len(rows) != len(want):
        return ""
    if not any(w == "1" and g == "0" for w, g in zip(want, got)):
        return ""
    wrong = [repr(unhex(r)) for r, w, g in zip(rows, want, got) if w == "0" and g == "1" and r != "~"]
    if not wrong:
        return ""
    return "; selected instead: the row%s holding %s - the literal is read as another string" % ("s" if len(wrong) > 1 else "", ", ".join(wrong[:4]))


def q_shrink_candidates(cf, idx):
    """smaller cases of the same shape, smallest first: one row, fewer decoys, plain context, substrings of s"""
    path, op, ctx, esc, s, k, decoys, rows = q_parse(cf)

    def line(s2, k2, dec2, rows2, ctx2):
        return " ".join(["Q", path, op, ctx2, esc, vlib_hex(s2), str(k2), str(len(dec2))] + [vlib_hex(d) for d in dec2]
                        + [str(len(rows2))] + rows2)
    out = []
    bad = rows[idx]
    ctxs = [ctx] if ctx in ("p", "n") else ["p", ctx]
    decs = [(0, [])] + [(0, [d]) for d in decoys] + [(1, [d]) for d in decoys] + [(k, decoys)]
    subs = []
    if len(s) <= 40:
        for ln in range(0, len(s)):
            for st in range(0, len(s) - ln + 1):
                sub = s[st:st + ln]
                if sub not in subs and q_fold(sub) is not None:
                    subs.append(sub)
    for c2 in ctxs:
        for k2, dec2 in decs:
            if path not in ("any", "all", "anyfk") and len(dec2) <= 3:
                for sub in subs:      # the value itself stored, queried by its own literal
                    if path != "id" or sub:
                        out.append(line(sub, k2, dec2, [vlib_hex(sub)], c2))
            out.append(line(s, k2, dec2, [bad], c2))
    if len(decoys) > 3:
        # a long list: is the length / the order / the position what matters?  shorter lists (prefixes of the list, the
        # list without one of its literals), and the same list written ascending / descending / with s first or last
        for c2 in ctxs:
            for n2 in range(len(decoys)):
                out.append(line(s, min(k, n2), decoys[:n2], [bad], c2))
                out.append(line(s, k - 1 if n2 < k else k, decoys[:n2] + decoys[n2 + 1:], [bad], c2))
            for dec2 in (sorted(decoys), sorted(decoys, reverse=True)):
                for k2 in (0, len(dec2), sum(1 for d in dec2 if d < s)):
                    out.append(line(s, k2, dec2, [bad], c2))
    out.append(" ".join(cf))
    seen, uniq = set(), []
    for l in out:
        if l not in seen:
            seen.add(l)
            uniq.append(l)
    return uniq[:4000]


def vlib_hex(b):
    return "-" if not b else b.hex()


def q_shrink(c, harness, cf, idx, rounds=12):
    """re-run smaller variants of a violating case on the current tree; return the smallest that still violates"""
    cands = q_shrink_candidates(cf, idx)
    wd = os.path.join(c.work, "shrink")
    os.makedirs(wd, exist_ok=True)
    rin = os.path.join(wd, "in.txt")
    with open(rin, "w") as f:
        f.write("\n".join(cands) + "\n")
    rc, out = vlib.run([harness, "c11", "--out", wd, "--replaycase", rin], timeout=600)
    if rc != 0:
        return None
    cs = vlib.read_lines(os.path.join(wd, "cases.txt"))
    im = vlib.read_lines(os.path.join(wd, "impl.txt"))
    best = None
    for case, i in zip(cs, im):
        cf2, fi2 = case.split(), i.split()
        want = q_expected(cf2)
        got = fi2[1] if len(fi2) > 1 else ""
        j = q_mismatch(want, got)
        if j is not None and (best is None or q_size(case) < q_size(best[0])):
            best = (case, i, want, q_own_row(cf2, want, got, j))
    if best is not None and rounds > 0 and int(best[0].split()[7]) > 3 and q_size(best[0]) < q_size(" ".join(cf)):
        return q_shrink(c, harness, best[0].split(), best[3], rounds - 1) or best      # long list: drop further literals
    return best


def q_list_note(c, harness, cf):
    """for a violating case with a long in-list: does the verdict depend on the length / the order of the list?"""
    path, op, ctx, esc, s, k, decoys, rows = q_parse(cf)
    if len(decoys) <= 3 or c.replay:
        return ""

    def line(k2, dec2):
        return " ".join(["Q", path, op, ctx, esc, vlib_hex(s), str(k2), str(len(dec2))] + [vlib_hex(d) for d in dec2]
                        + [str(len(rows))] + rows)
    full = decoys[:k] + [s] + decoys[k:]
    extra = max(full) + b"z"
    variants = [("without any one of its literals", [line(k - 1 if n < k else k, decoys[:n] + decoys[n + 1:]) for n in range(len(decoys))]),
                ("with one more literal", [line(k, decoys + [extra])]),
                ("written in ascending order", [line(sum(1 for d in decoys if d < s), sorted(decoys))]),
                ("written in descending order", [line(sum(1 for d in decoys if d > s), sorted(decoys, reverse=True))])]
    wd = os.path.join(c.work, "shrink-note")
    os.makedirs(wd, exist_ok=True)
    rin = os.path.join(wd, "in.txt")
    with open(rin, "w") as f:
        f.write("\n".join(l for _, ls in variants for l in ls) + "\n")
    rc, out = vlib.run([harness, "c11", "--out", wd, "--replaycase", rin], timeout=600)
    if rc != 0:
        return ""
    res = list(zip(vlib.read_lines(os.path.join(wd, "cases.txt")), vlib.read_lines(os.path.join(wd, "impl.txt"))))
    notes, pos = [], 0
    for name, ls in variants:
        chunk = res[pos:pos + len(ls)]
        pos += len(ls)
        bad = sum(1 for case, i in chunk if q_mismatch(q_expected(case.split()), (i.split() + [""])[1]) is not None)
        notes.append("%s: %s" % (name, "evaluated correctly" if bad == 0 else ("wrong" if len(ls) == 1 else "%d of %d wrong" % (bad, len(ls)))))
    return "; in-list of %d literals - the same list %s" % (len(full), ", ".join(notes))


Q_PATH_RANK = {"name": 0, "sym": 0, "id": 1, "any": 2, "all": 3, "fk": 4, "anyfk": 5}


def q_size(case):
    """order in which violating cases are preferred as the replay: simplest path, fewest list literals, shortest"""
    cf = case.split()
    return (Q_PATH_RANK.get(cf[1], 9), int(cf[7]), len(case))


# ---- stream M: filters with several comparisons in which literals repeat; sequences of filters ---------------
M_LHS = {"name": "name", "descr": "descr", "any": "anyOf(tags)", "all": "allOf(tags)", "anyfk": "anyOf(peers.name)"}
M_ARITY = {"and": 2, "or": 2, "not": 1, "grp": 1, "ne": 1, "em": 1, "cnt": 1, "t": 0, "f": 0}
M_SUB = ("ne", "em", "cnt")


def m_parse_node(tok, pos):
    k = tok[pos]
    pos += 1
    if k == "a":
        lhs, op, esc, n = tok[pos], tok[pos + 1], tok[pos + 2], int(tok[pos + 3])
        lits = [unhex(h) for h in tok[pos + 4:pos + 4 + n]]
        return ("a", lhs, op, esc, lits), pos + 4 + n
    kids = []
    for _ in range(M_ARITY[k]):
        kid, pos = m_parse_node(tok, pos)
        kids.append(kid)
    return (k,) + tuple(kids), pos


def m_parse(cf):
    """M <env> <nf> <filter>*nf <nr> <row>*nr  ->  env, [filter trees], [row tokens]"""
    env, nf = cf[1], int(cf[2])
    pos, filters = 3, []
    for _ in range(nf):
        node, pos = m_parse_node(cf, pos)
        filters.append(node)
    return env, filters, cf[pos + 1:]


def m_tokens(node):
    if node[0] == "a":
        _, lhs, op, esc, lits = node
        return ["a", lhs, op, esc, str(len(lits))] + [vlib_hex(l) for l in lits]
    out = [node[0]]
    for k in node[1:]:
        out += m_tokens(k)
    return out


def m_line(env, filters, rows):
    out = ["M", env, str(len(filters))]
    for f in filters:
        out += m_tokens(f)
    return " ".join(out + [str(len(rows))] + list(rows))


def m_lit(esc, s):
    out = bytearray(b'"')
    for ch in s:
        if ch in (0x5c, 0x22):
            out += bytes([0x5c, ch])
        elif esc == "full" and ch in (9, 10, 12, 13):
            out += {9: b"\\t", 10: b"\\n", 12: b"\\f", 13: b"\\r"}[ch]
        else:
            out.append(ch)
    return (bytes(out) + b'"').decode("utf-8", "replace")


def m_text(node):
    """the filter text as the harness writes it (for messages only)"""
    k = node[0]
    if k == "a":
        _, lhs, op, esc, lits = node
        if op in ("in", "notin"):
            return "%s %s [%s]" % (M_LHS[lhs], Q_OPTEXT[op], ", ".join(m_lit(esc, l) for l in lits))
        return "%s %s %s" % (M_LHS[lhs], Q_OPTEXT[op], m_lit(esc, lits[0]))

    def wrap(x):
        return m_text(x) if x[0] in ("a", "t", "f", "grp", "em", "cnt") else "(" + m_text(x) + ")"
    if k in ("t", "f"):
        return "true" if k == "t" else "false"
    if k == "grp":
        return "( " + m_text(node[1]) + " )"
    if k == "not":
        return "not " + wrap(node[1])
    if k in ("and", "or"):
        right = m_text(node[2]) if node[2][0] == k else wrap(node[2])
        return wrap(node[1]) + " " + k + " " + right
    inner = "from peers where " + m_text(node[1])
    return {"ne": "not isEmpty(%s)", "em": "isEmpty(%s)", "cnt": "count(%s) > 0"}[k] % inner


def m_row(tok):
    name, descr, tags, peers = tok.split("/")
    return dict(name=None if name == "~" else unhex(name), descr=None if descr == "~" else unhex(descr),
                tags=None if tags == "~" else [unhex(h) for h in tags.split(",")],
                peers=None if peers == "~" else [unhex(h) for h in peers.split(",")])


def k_not(v):
    return None if v is None else (not v)


def k_and(a, b):
    if a is False or b is False:
        return False
    return None if (a is None or b is None) else True


def k_or(a, b):
    if a is True or b is True:
        return True
    return None if (a is None or b is None) else False


def k_any(vs):
    return True if any(v is True for v in vs) else (None if any(v is None for v in vs) else False)


def m_atom(node, row):
    """what the property demands of one comparison on one row: the literal denotes ITS string, whatever else the filter
    (or an earlier filter) contains.  None: nothing demanded (as in stream Q)"""
    _, lhs, op, esc, lits = node
    s = lits[0]
    if lhs in ("name", "descr"):
        x = row[lhs]
        if x is None:
            return False if op in ("eq", "in", "contains", "icontains") else None
        return q_elem(op, x, s, lits)
    elems = (row["tags"] if lhs in ("any", "all") else row["peers"]) or []
    bits = [q_elem(op, e, s, lits) for e in elems]
    if not elems:
        return None if (lhs == "all" or op in Q_NEGATED) else False
    if lhs == "all":
        return False if any(b is False for b in bits) else (None if any(b is None for b in bits) else True)
    return k_any(bits)


def m_eval(node, row):
    k = node[0]
    if k == "a":
        return m_atom(node, row)
    if k == "t":
        return True
    if k == "f":
        return False
    if k == "grp":
        return m_eval(node[1], row)
    if k == "not":
        return k_not(m_eval(node[1], row))
    if k == "and":
        return k_and(m_eval(node[1], row), m_eval(node[2], row))
    if k == "or":
        return k_or(m_eval(node[1], row), m_eval(node[2], row))
    some = k_any([m_eval(node[1], dict(name=p, descr=None, tags=None, peers=None)) for p in (row["peers"] or [])])
    return k_not(some) if k == "em" else some


def m_expected(cf):
    env, filters, rows = m_parse(cf)
    rws = [m_row(r) for r in rows]
    out = []
    for f in filters:
        vs = [m_eval(f, r) for r in rws]
        out.append("".join("x" if v is None else ("1" if v else "0") for v in vs))
    return out


def m_mismatch(want, fi):
    """(observation index, row index) of the first observation that contradicts the oracle; observation k < nf: filter k as
    parsed in sequence, k >= nf: filter k - nf parsed again afterwards"""
    nf = len(want)
    obs = fi[1:1 + 2 * nf]
    if len(obs) != 2 * nf:
        return (0, 0)
    for k, got in enumerate(obs):
        j = q_mismatch(want[k % nf], got)
        if j is not None:
            return (k, j)
    return None


def m_atoms(node, under_sub=False):
    if node[0] == "a":
        return [(node, under_sub)]
    out = []
    for k in node[1:]:
        out += m_atoms(k, under_sub or node[0] in M_SUB)
    return out


def m_ops(filters):
    return sorted({a[2] for f in filters for a, _ in m_atoms(f)})


M_OP_RANK = ["eq", "neq", "in", "notin", "contains", "ncontains", "icontains", "nicontains", "lt", "le", "gt", "ge"]


def m_size(case):
    """order in which violating cases are preferred as the replay: fewest filters, fewest comparisons, fewest rows, plain
    fields before sets and sub-queries, shortest"""
    env, filters, rows = m_parse(case.split())
    atoms = [a for f in filters for a in m_atoms(f)]
    parts = sum(1 for r in rows for p in r.split("/") if p != "~")
    return (len(filters), len(atoms), len(rows), sum(1 for a, sub in atoms if sub or a[1] not in ("name", "descr")), parts, len(case))


def m_units(node):
    """self-contained pieces of a filter: comparisons outside sub-queries, whole sub-queries, sub-queries cut down to one
    of their comparisons"""
    k = node[0]
    if k == "a":
        return [node]
    if k in M_SUB:
        return [node] + [(k, a) for a, _ in m_atoms(node[1])]
    out = []
    for kid in node[1:]:
        out += m_units(kid)
    return out


def m_subtrees(node):
    out = [node]
    if node[0] not in M_SUB and node[0] != "a":
        for kid in node[1:]:
            out += m_subtrees(kid)
    return out


def m_struct_candidates(cf, k, j):
    env, filters, rows = m_parse(cf)
    nf = len(filters)
    bad = filters[k % nf]
    units = []
    for u in m_units(bad):
        if u not in units:
            units.append(u)
    units = units[:8]
    alts = []                       # replacements of the failing filter
    for u in units:
        alts.append(u)
    for a in units:
        for b in units:
            for c in ("and", "or"):
                alts.append((c, a, b))
    for st in m_subtrees(bad):
        alts.append(st)
    others = [f for i, f in enumerate(filters) if i != k % nf]
    other_units = []
    for f in others:
        for u in [f] + m_units(f):
            if u not in other_units:
                other_units.append(u)
    out = []
    for rws in ([rows[j]], rows):
        for alt in alts:
            out.append(m_line(env, [alt], rws))
        for o in other_units[:10]:   # the failing filter needs a filter parsed before / after it
            for alt in [bad] + units:
                out.append(m_line(env, [o, alt], rws))
                out.append(m_line(env, [alt, o], rws))
    out.append(" ".join(cf))
    seen, uniq = set(), []
    for l in out:
        if l not in seen:
            seen.add(l)
            uniq.append(l)
    return uniq[:6000]


def m_map_values(cf, fn):
    env, filters, rows = m_parse(cf)

    def mp(node):
        if node[0] == "a":
            return ("a", node[1], node[2], node[3], [fn(l) for l in node[4]])
        return (node[0],) + tuple(mp(k) for k in node[1:])

    def mrow(tok):
        parts = []
        for part in tok.split("/"):
            parts.append("~" if part == "~" else ",".join(vlib_hex(fn(unhex(h))) for h in part.split(",")))
        return "/".join(parts)
    return m_line(env, [mp(f) for f in filters], [mrow(r) for r in rows])


def m_value_candidates(cf):
    """the same case over shorter strings: every literal value v replaced, consistently in filters and rows (and its
    upper / lower case forms likewise), by each of its substrings"""
    env, filters, rows = m_parse(cf)
    vals = []
    for f in filters:
        for a, _ in m_atoms(f):
            for l in a[4]:
                if l not in vals and 0 < len(l) <= 24:
                    vals.append(l)
    out = []
    for v in vals:
        subs = []
        for ln in range(0, len(v)):
            for st in range(0, len(v) - ln + 1):
                u = v[st:st + ln]
                if u not in subs and q_fold(u) is not None:
                    subs.append(u)
        for u in subs:
            def fn(x, v=v, u=u):
                if x == v:
                    return u
                if x == v.upper():
                    return u.upper()
                if x == v.lower():
                    return u.lower()
                return x
            out.append(m_map_values(cf, fn))
    out.append(" ".join(cf))
    return list(dict.fromkeys(out))[:4000]


def m_row_candidates(cf):
    """the same case with parts of the rows removed (no value / no set), and set parts cut down to one element"""
    env, filters, rows = m_parse(cf)
    out = []
    for mask in range(16):
        rws = []
        for r in rows:
            parts = r.split("/")
            rws.append("/".join("~" if mask >> n & 1 else p for n, p in enumerate(parts)))
        out.append(m_line(env, filters, rws))
        if len(rows) == 1:
            parts = rws[0].split("/")
            for n in (2, 3):
                for el in parts[n].split(","):
                    if el != parts[n]:
                        out.append(m_line(env, filters, ["/".join(el if q == n else p for q, p in enumerate(parts))]))
    return list(dict.fromkeys(out))


def m_run(c, harness, lines, tag):
    wd = os.path.join(c.work, "shrink-" + tag)
    os.makedirs(wd, exist_ok=True)
    rin = os.path.join(wd, "in.txt")
    with open(rin, "w") as f:
        f.write("\n".join(lines) + "\n")
    rc, out = vlib.run([harness, "c11", "--out", wd, "--replaycase", rin], timeout=600)
    if rc != 0:
        return []
    return list(zip(vlib.read_lines(os.path.join(wd, "cases.txt")), vlib.read_lines(os.path.join(wd, "impl.txt"))))


def m_best(results):
    best = None
    for case, i in results:
        want = m_expected(case.split())
        mm = m_mismatch(want, i.split())
        if mm is not None and (best is None or m_size(case) < m_size(best[0])):
            best = (case, i, want, mm)
    return best


def m_shrink(c, harness, case, mm):
    best = m_best(m_run(c, harness, m_struct_candidates(case.split(), mm[0], mm[1]), "m1"))
    if best is None:
        return None
    best = m_best(m_run(c, harness, m_value_candidates(best[0].split()), "m2")) or best
    return m_best(m_run(c, harness, m_row_candidates(best[0].split()), "m4")) or best


def m_alone(c, harness, case, mm):
    """is every comparison of the violating filter evaluated as demanded when it is the only one in a filter?"""
    env, filters, rows = m_parse(case.split())
    units = m_units(filters[mm[0] % len(filters)])
    if len(units) < 2 and len(filters) < 2:
        return None
    res = m_run(c, harness, [m_line(env, [u], [rows[mm[1]]]) for u in units], "m3")
    if len(res) != len(units):
        return None
    return all(m_mismatch(m_expected(cs.split()), i.split()) is None for cs, i in res)


def m_describe(case, i, want, mm, alone):
    env, filters, rows = m_parse(case.split())
    nf = len(filters)
    k, j = mm
    obs = i.split()[1:1 + 2 * nf]
    got = obs[k] if k < len(obs) else "?"
    texts = [m_text(f) for f in filters]
    where = "ast symbols" if env == "sym" else "store"
    seq = ""
    if nf > 1:
        seq = " (filter %d of the sequence %s, all parsed before evaluation)" % (k % nf + 1, " ; ".join(repr(t) for t in texts))
    if k >= nf:
        seq += " [parsed again after the first evaluation]"
    if any(ch not in "01" for ch in got) or len(got) != len(rows):
        return "filter %r%s on %s is not evaluated: %s" % (texts[k % nf], seq, where, got)
    r = m_row(rows[j])
    shown = ", ".join("%s=%s" % (n, "no value" if r[n] is None else repr(r[n])) for n in ("name", "descr", "tags", "peers")
                      if r[n] is not None or n in ("name",))
    w = want[k % nf]
    msg = ("filter %r%s on %s: every literal occurrence must denote its own string, so the row {%s} must %sbe selected, but it is%s "
           "(rows selected %s, expected %s)" % (texts[k % nf], seq, where, shown, "" if w[j] == "1" else "not ",
                                                " not" if w[j] == "1" else "", got, w))
    if alone is True:
        msg += ("; each comparison of this filter alone is evaluated correctly on this row - what a literal denotes depends on "
                "the other literal occurrences")
    elif alone is False:
        msg += "; a comparison of this filter is also wrong on its own"
    return msg


def m_report(c, harness, m_viol, q_keys):
    """one violation per class (path kind + operators of the smallest violating filter found by shrinking)"""
    if not m_viol:
        return
    groups = {}
    for v in sorted(m_viol, key=lambda v: m_size(v[0])):
        env, filters, rows = m_parse(v[0].split())
        groups.setdefault((env, tuple(m_ops(filters))), []).append(v)
    reported = {}
    taken, shrunk = {}, 0
    for gk in sorted(groups, key=lambda g: (len(g[1]), sorted(M_OP_RANK.index(o) for o in g[1]), m_size(groups[g][0][0]))):
        if taken.get(gk[0], 0) >= 4 or shrunk >= 40:    # at most four classes per path kind are reported
            continue
        shrunk += 1
        case, i, want, mm = groups[gk][0]
        small = None if c.replay else m_shrink(c, harness, case, mm)
        if small is not None:
            case, i, want, mm = small
        env, filters, rows = m_parse(case.split())
        key = ("C11:end-to-end-composed:" if env == "sym" else "C11:stored-composed:") + "+".join(m_ops(filters))
        atoms = [a for f in filters for a in m_atoms(f)]
        if len(atoms) == 1 and not atoms[0][1] and key.replace("-composed:", "-") in q_keys:
            continue      # one comparison alone is wrong: reported by the single-comparison stream Q
        if key in reported:
            reported[key][4] += len(groups[gk])
            continue
        alone = None if c.replay else m_alone(c, harness, case, mm)
        reported[key] = [case, i, want, mm, len(groups[gk]), alone]
        taken[gk[0]] = taken.get(gk[0], 0) + 1
    for key, (case, i, want, mm, n, alone) in sorted(reported.items()):
        env, filters, rows = m_parse(case.split())
        c.violation(key, "%s [%d failing cases of this kind, %d failing multi-comparison cases in all]"
                    % (m_describe(case, i, want, mm, alone), n, len(m_viol)),
                    dict(case=case, impl=i, expected=want, filters=[m_text(f) for f in filters], rows=rows,
                         failing_observation=mm[0], failing_row=mm[1]))


def main(argv):
    c = vlib.Check(PID, argv)
    c.cov["trusted_base"] = [
        "Coq 8.16.1 kernel (coqc; coqchk in the thorough tier); vm_compute in Examples only; no axioms",
        "hand-written model Lang/Unescape.v of zitiql.ParseZqlString and the STRING token rule",
        "hand-written model Lang/StrCompare.v of the evaluation of a string comparison against a stored value (listener's choice of "
        "operator / negation from the operator token, BinaryStringExprNode / InStringArrayExprNode.EvalBool, anyOf / allOf with the "
        "seek short-cut, rowCursorImpl.EvalString / FieldToString on a stored, empty or absent value); compared with Store.QueryIds on "
        "every Q case; icontains is modelled for ASCII text only (the model abstains otherwise, the oracle still applies)",
        "hand-written model Lang/StrFilter.v of a filter with several comparisons (constant nodes with identity: one per literal "
        "occurrence allocated by the listener, a new one for the upper-cased operand of icontains, in-lists keep their nodes; and / or / "
        "not, anyOf / allOf, isEmpty / count over a sub-query); compared with ast.Parse + EvalBool / Store.QueryIdsC / QueryIds on every "
        "M case",
        "translators/unescape (reads the NewReplacer pairs and the statement shape of ParseZqlString; Properties/C11Gen.v proves "
        "that what it read is the model function) and the documented semantics of strings.NewReplacer / TrimPrefix / TrimSuffix",
        "extraction (ExtrOcamlBasic only) + extraction/c11_driver.ml + drv_common.ml",
        "Go harness cmd/storageharness/c11.go (generators, literal printers) and this comparison",
        "ANTLR lexer runtime (the token rule is compared with the real lexer, not verified)",
    ]
    c.assumptions = ["strings are valid UTF-8 (antlr converts the input to runes); bytes >= 0x80 are safe code points"]
    proof_ok = c.proof_step(FILES, translators=["unescape"])
    model = vlib.build_model("C11")
    harness, err = vlib.build_harness()
    if harness is None:
        c.violation("C11:harness-build", "harness does not build against the repository: " + err[-800:],
                    dict(correspondence="harness build", log=err[-3000:]), no_input=True)
        return c.finish()

    cases_path = os.path.join(c.work, "cases.txt")
    if c.replay:
        rp = json.load(open(c.replay))
        rin = os.path.join(c.work, "replay_in.txt")
        with open(rin, "w") as f:
            f.write(rp["case"] + "\n")
        args = [harness, "c11", "--out", c.work, "--replaycase", rin]
    else:
        args = [harness, "c11", "--seed", str(c.seed), "--tier", c.tier, "--out", c.work]
    rc, out = vlib.run(args, timeout=1800)
    if rc != 0:
        c.violation("C11:harness-run", "harness failed rc=%s: %s" % (rc, out[-500:]),
                    dict(correspondence="harness run", log=out[-3000:]), no_input=True)
        return c.finish()
    cases = vlib.read_lines(cases_path)
    impl = vlib.read_lines(os.path.join(c.work, "impl.txt"))
    modl = vlib.run_model(model, "c11", cases_path, os.path.join(c.work, "model.txt"))
    assert len(cases) == len(impl) == len(modl), (len(cases), len(impl), len(modl))

    distinct = set()
    disagreements = []      # model != impl without a property verdict
    q_viol = {}             # key -> violating Q cases
    m_viol = []             # violating M cases
    for case, i, m in zip(cases, impl, modl):
        cf, fi, fm = case.split(), i.split(), m.split()
        kind = cf[0]
        if kind == "T":
            if fi != fm:
                disagreements.append((case, i, m))
            if b"\\" in unhex(cf[1]):
                distinct.add(case)
        elif kind == "B":
            if fi != fm:
                disagreements.append((case, i, m))
            distinct.add(case)
        elif kind == "L":
            s = unhex(cf[1])
            em, ef, vmin, vfull = fm[1], fm[2], fm[3], fm[4]
            ivmin, ivfull, lexmin, lexfull = fi[1], fi[2], fi[3], fi[4]
            # the property itself: an expressible string's literal is one token and denotes the string
            if em == "1" and (unhex(ivmin) != s or lexmin != "1"):
                c.violation("C11:literal-min", "literal (\\ and \" escaped) of %r denotes %r, one-token=%s" % (s, unhex(ivmin), lexmin),
                            dict(case=case, impl=i, model=m, value=repr(s)))
            elif ef == "1" and (unhex(ivfull) != s or lexfull != "1"):
                c.violation("C11:literal-full", "fully escaped literal of %r denotes %r, one-token=%s" % (s, unhex(ivfull), lexfull),
                            dict(case=case, impl=i, model=m, value=repr(s)))
            elif (ivmin, ivfull) != (vmin, vfull):
                disagreements.append((case, i, m))
            if b"\\" in s or b'"' in s or any(ch < 32 for ch in s):
                distinct.add(case)
        elif kind == "E":
            op, esc, s = cf[1], cf[2], unhex(cf[3])
            cands = [unhex(h) for h in cf[4:]]
            express = all(ch >= 32 or (esc == "full" and ch in (9, 10, 12, 13)) for ch in s)
            if not express:
                continue   # no literal exists for this string with this escaper; nothing to require
            if op in ("eq", "in"):
                want = "".join("1" if x == s else "0" for x in cands)
            elif op == "neq":
                want = "".join("0" if x == s else "1" for x in cands)
            else:
                want = "".join("1" if s in x else "0" for x in cands)
            got = fi[1] if len(fi) > 1 else ""
            if got != want:
                c.violation("C11:end-to-end-" + op, "name %s <literal of %r> matched %s of the candidates, expected %s" % (op, s, got, want),
                            dict(case=case, impl=i, expected=want, value=repr(s), candidates=[repr(x) for x in cands]))
            distinct.add(case)
        elif kind == "Q":
            want = q_expected(cf)
            got = fi[1] if len(fi) > 1 else ""
            idx = q_mismatch(want, got)
            path, op = cf[1], cf[2]
            if idx is not None:
                key = ("C11:end-to-end-" if path == "sym" else "C11:stored-") + op
                q_viol.setdefault(key, []).append((case, i, want, q_own_row(cf, want, got, idx)))
            elif fm[1:2] != ["?"] and fm[1:2] != fi[1:2]:
                disagreements.append((case, i, m))
            if "1" in want and "0" in want:
                distinct.add(case)
        elif kind == "M":
            want = m_expected(cf)
            mm = m_mismatch(want, fi)
            if mm is not None:
                m_viol.append((case, i, want, mm))
            else:
                nf = len(want)
                for k in range(2 * nf):
                    if k % nf < len(fm) - 1 and fm[1 + k % nf] != "?" and fm[1 + k % nf] != fi[1 + k]:
                        disagreements.append((case, i, m))
                        break
            if any("1" in w and "0" in w for w in want):
                distinct.add(case)
    m_report(c, harness, m_viol, set(q_viol))
    for key, lst in sorted(q_viol.items()):
        case, i, want, idx = min(lst, key=lambda v: q_size(v[0]))
        small = None if c.replay else q_shrink(c, harness, case.split(), idx)
        first = ""
        if small is not None:
            if not q_instead(small[0].split(), small[2], (small[1].split() + [""])[1]):
                # the one-row replay cannot show which OTHER string the literal is read as: take it from the unshrunk cases
                for case2, i2, want2, _ in sorted(lst, key=lambda v: q_size(v[0]))[:200]:
                    note = q_instead(case2.split(), want2, (i2.split() + [""])[1])
                    if note:
                        qt = unhex(i2.split()[2]).decode("utf-8", "replace") if len(i2.split()) > 2 else "?"
                        first = " (e.g. filter %r%s)" % (qt[:200], note)
                        break
            case, i, want, idx = small
        c.violation(key, "%s%s%s [%d failing cases of this kind]" % (q_describe(case.split(), i.split(), want, idx),
                                                                      q_list_note(c, harness, case.split()), first, len(lst)),
                    dict(case=case, impl=i, expected=want, value=repr(unhex(case.split()[5])),
                         query=(unhex(i.split()[2]).decode("utf-8", "replace") if len(i.split()) > 2 else None)))
    if c.replay:
        for case, i, m in zip(cases, impl, modl):
            vlib.log("REPLAY case=%s\n  impl =%s\n  model=%s" % (case, i, m))
    c.cov["evaluations"] = len(cases)
    c.cov["distinct_nontrivial"] = len(distinct)
    c.cov["disagreements_checked"] = len(disagreements)
    c.cov["rule"] = ("all byte strings of length <= %d over {a,n,t,\\,\",LF,TAB,e-acute} (as value L, as token T, as token body B) + "
                     "seeded random strings over a 21-symbol alphabet incl. raw control bytes; end-to-end E cases evaluate "
                     "name =/!=/in/contains <literal> over the value and its near misses. Stream Q: <lhs> <op> <literal(s)> for 12 "
                     "operators x 7 left-hand sides (ast symbol, stored field, id, fk field, anyOf/allOf string set, anyOf fk set) x 10 "
                     "query contexts, in-lists with 0-3 further literals, over rows holding s, its near misses, the empty string, a "
                     "blank and no value; s ranges over every word of the filter language in 4 letter cases, pieces of filter syntax, "
                     "those embedded / combined, boundary strings, escape-alphabet strings. Stream M: sequences of 1-3 filters of "
                     "1-6 comparisons (all ordered operator pairs over one literal on the same / two fields, the literal next to each "
                     "of its relatives - case variants, prefix, extension, blanks, escaped spelling -, set-valued left-hand sides, "
                     "isEmpty / count sub-queries with the literal inside and outside, random and / or / not trees), parsed in "
                     "order before evaluation and parsed again afterwards, over rows with two fields, a set and an fk set. "
                     "In-lists by length and order (Q and M cases): 1..21 (thorough 1..32) and 32 / 64 / 257 (thorough .. 1000) literals, "
                     "ascending / descending / shuffled / duplicates / rotated / one swap, the literal of s at every position, in and "
                     "not in, letters / ids / prefixes incl. the empty string / long common prefix / mixed values, rows = every list "
                     "value + non-members around the smallest, median and largest. "
                     "Values with a reading in another notation (Q and M cases): 10 families (integer-looking incl. leading zeros / "
                     "plus sign / -0 / int64 bounds, other number spellings, floats, bool / null words, datetimes, valid percent "
                     "escapes, invalid / lone percent and plus signs, HTML entities, backslash / unicode / quoted-printable escapes "
                     "and placeholders, Unicode normal forms / look-alikes / invisible characters), every value under 12 operators x "
                     "name + ast symbol + 2 of the other 5 left-hand sides (thorough: all 7), homogeneous in-lists of 2-4 literals of "
                     "the family with s at every position, rows = s, its near misses, its readings by strconv / url / html / time, "
                     "its relatives in the family. "
                     "Non-trivial: contains a backslash, "
                     "quote or control character (L), a backslash (T), any body (B), any expressible E case, a Q / M case whose "
                     "oracle selects some rows and rejects others; distinct by case text"
                     % (5 if c.thorough else 4))
    c.cov["samples"] = [dict(case=cases[k], impl=impl[k], model=modl[k]) for k in sorted(set((0, min(1, len(cases) - 1), len(cases) // 2, len(cases) - 1)))]
    try:
        c.cov["input_distribution"] = json.load(open(os.path.join(c.work, "stats.json")))
    except Exception:
        pass
    if disagreements and not c.violations:
        case, i, m = disagreements[0]
        c.violation("C11:correspondence", "model Lang/Unescape.v and zitiql.ParseZqlString / lexer differ on %d cases, e.g. %s: impl %s model %s"
                    % (len(disagreements), case, i, m),
                    dict(correspondence="Lang/Unescape.v vs zitiql.ParseZqlString", theorems=["literal_roundtrip_full", "literal_roundtrip_min"],
                         case=case, impl=i, model=m), no_input=True)
    if not proof_ok:
        c.violation("C11:proof", "proof obligation no longer checks: %s" % json.dumps(c.proof_broken)[:600],
                    dict(broken=c.proof_broken), no_input=True)
    return c.finish()
