"""C01 - filter evaluation returns exactly the entities satisfying the predicate.
Proof: coq/theories/Properties/C01.v (+ C10Typer.v) over the models Ast/{Typer,Eval,Spec}.v.
Correspondence: boltz Store.QueryIds / IterateIds on a real bolt file vs. the extracted typer+evaluator
and the extracted declarative semantics, on seeded random (dataset, filter) pairs and a bounded-exhaustive
operator sweep.  A difference is shrunk (sub-filters, entities, fields) and classified with the extracted
declarative semantics (Spec.v): wrong ids / panic on a filter = VIOLATION with the minimal replay."""
import json
import os
import struct

import vlib

PID = "C01"
FILES = ["theories/Properties/C01.v", "theories/Properties/C10Typer.v", "theories/Examples/C01Examples.v",
         "theories/Examples/C01FmtFloat.v", "theories/Examples/C01ChildStore.v", "theories/Examples/C01Session.v"]


def unhex(h):
    return b"" if h == "-" else bytes.fromhex(h)


# ------------------------------------------------------------------ filter terms (prefix form)

class P:
    def __init__(self, toks):
        self.t = toks
        self.i = 0

    def next(self):
        x = self.t[self.i]
        self.i += 1
        return x


def p_lit(p):
    k = p.next()
    if k in ("S", "I", "F", "B"):
        return (k, p.next())
    if k == "D":
        return (k, p.next(), p.next())
    return (k,)


def p_setexpr(p):
    k = p.next()
    if k == "sym":
        return ("sym", p.next())
    return ("sub", p.next(), p_term(p))


def p_lhs(p):
    k = p.next()
    if k in ("sym", "all", "any"):
        return (k, p.next())
    return ("cnt", p_setexpr(p))


def p_term(p):
    k = p.next()
    if k == "bin":
        return ("bin", p_lhs(p), p.next(), p_lit(p))
    if k == "in":
        neg = p.next()
        lhs = p_lhs(p)
        ak = p.next()
        n = int(p.next())
        if ak == "AS":
            arr = [p.next() for _ in range(n)]
        elif ak == "AN":
            arr = [p_lit(p) for _ in range(n)]
        else:
            arr = [(p.next(), p.next()) for _ in range(n)]
        return ("in", neg, lhs, ak, arr)
    if k == "btw":
        return ("btw", p.next(), p_lhs(p), p_lit(p), p_lit(p))
    if k == "empty":
        return ("empty", p_setexpr(p))
    if k == "bc":
        return ("bc", p.next())
    if k == "bs":
        return ("bs", p.next())
    if k == "nopred":
        return ("nopred",)
    if k == "not":
        return ("not", p_term(p))
    if k in ("and", "or"):
        return (k, p_term(p), p_term(p))
    if k == "q":
        return ("q", p_term(p), p.next(), p.next())
    raise ValueError("term " + k)


def lit_term(l):
    return " ".join(l)


def setexpr_term(se):
    if se[0] == "sym":
        return "sym " + se[1]
    return "sub " + se[1] + " " + term(se[2])


def lhs_term(l):
    if l[0] == "cnt":
        return "cnt " + setexpr_term(l[1])
    return l[0] + " " + l[1]


def term(t):
    k = t[0]
    if k == "bin":
        return "bin %s %s %s" % (lhs_term(t[1]), t[2], lit_term(t[3]))
    if k == "in":
        if t[3] == "AS":
            parts = list(t[4])
        elif t[3] == "AN":
            parts = [lit_term(x) for x in t[4]]
        else:
            parts = ["%s %s" % x for x in t[4]]
        return "in %s %s %s %d %s" % (t[1], lhs_term(t[2]), t[3], len(t[4]), " ".join(parts))
    if k == "btw":
        return "btw %s %s %s %s" % (t[1], lhs_term(t[2]), lit_term(t[3]), lit_term(t[4]))
    if k == "empty":
        return "empty " + setexpr_term(t[1])
    if k in ("bc", "bs"):
        return k + " " + t[1]
    if k == "nopred":
        return "nopred"
    if k == "not":
        return "not " + term(t[1])
    if k in ("and", "or"):
        return "%s %s %s" % (k, term(t[1]), term(t[2]))
    if k == "q":
        return "q %s %s %s" % (term(t[1]), t[2], t[3])
    raise ValueError(k)


OPTEXT = {"eq": "=", "neq": "!=", "lt": "<", "lte": "<=", "gt": ">", "gte": ">=", "contains": "contains",
          "ncontains": "not contains", "icontains": "icontains", "nicontains": "not icontains"}


def subterms(t):
    """proper boolean sub-filters that can replace t"""
    k = t[0]
    if k == "not":
        return [t[1]]
    if k in ("and", "or"):
        return [t[1], t[2]]
    return []


def lit_class(l):
    """literal kind, refined by the lexical classes the engine has to decode / convert specially:
    Sesc = string literal whose body needs escape sequences (quote, backslash, control character),
    Fext = float literal whose magnitude is outside [1e-4, 1e21) (incl. integers beyond int64)"""
    k = l[0]
    if k == "S":
        b = unhex(l[1])
        if any(ch in (0x22, 0x5c) or ch < 0x20 for ch in b):
            return "Sesc"
    if k == "F":
        v = abs(struct.unpack(">d", bytes.fromhex(l[1]))[0])
        if v != 0 and not (1e-4 <= v < 1e21):
            return "Fext"
    return k


def arr_class(ak, arr):
    if ak == "AS" and any(lit_class(("S", x)) == "Sesc" for x in arr):
        return "ASesc"
    if ak == "AN" and any(lit_class(x) == "Fext" for x in arr):
        return "ANext"
    return ak


def features(t):
    """(lhs shape, operator, literal kind) of the first atom of a shrunk filter"""
    k = t[0]
    if k == "q":
        return features(t[1])
    if k in ("not", "and", "or"):
        return features(t[1])
    if k == "bin":
        return (lhs_shape(t[1]), t[2], lit_class(t[3]))
    if k == "in":
        return (lhs_shape(t[2]), "notin" if t[1] == "1" else "in", arr_class(t[3], t[4]))
    if k == "btw":
        return (lhs_shape(t[2]), "notbetween" if t[1] == "1" else "between", t[3][0] + t[4][0])
    if k == "empty":
        return ("isEmpty-" + ("subquery" if t[1][0] == "sub" else "symbol"), "-", "-")
    return (k, "-", "-")


def lhs_shape(l):
    if l[0] == "cnt":
        return "count-subquery" if l[1][0] == "sub" else "count"
    name = unhex(l[1])
    dotted = b"." in name
    if l[0] == "sym" and dotted and name.split(b".")[0] in MAP_NAMES:
        return "symbol-map-element"
    return {"sym": "symbol", "all": "allOf", "any": "anyOf"}[l[0]] + ("-dotted" if dotted else "")


def has_subquery(t):
    k = t[0]
    if k in ("q", "not"):
        return has_subquery(t[1])
    if k in ("and", "or"):
        return has_subquery(t[1]) or has_subquery(t[2])
    if k == "bin":
        return t[1][0] == "cnt" and t[1][1][0] == "sub"
    if k in ("in", "btw"):
        return t[2][0] == "cnt" and t[2][1][0] == "sub"
    if k == "empty":
        return t[1][0] == "sub"
    return False


SET_NAMES = set()   # names declared as set symbols in any store of the schema line
MAP_NAMES = set()   # names (and bucket keys: a child store knows an inherited map by its key) of map symbols


def load_schema(sline):
    toks = sline.split()
    for i, tk in enumerate(toks):
        if tk == "set":
            SET_NAMES.add(unhex(toks[i + 1]))
    try:
        p = P(toks[1:])
        for _ in range(int(p.next())):
            for _ in range(int(p.next())):
                k = p.next()
                p.next()
                if k == "fld":
                    p.next()
                    for _ in range(int(p.next())):
                        p.next()
                    p.next()
                    p.next()
                elif k == "set":
                    p.next()
                    p.next()
                    p.next()
            for _ in range(int(p.next())):
                MAP_NAMES.add(unhex(p.next()))
                p.next()
                for _ in range(int(p.next())):
                    p.next()
                MAP_NAMES.add(unhex(p.next()))
    except Exception:
        pass


def atoms(t, inner=False):
    """(atom, inside-a-sub-query) for every atom of the filter"""
    k = t[0]
    if k in ("q", "not"):
        return atoms(t[1], inner)
    if k in ("and", "or"):
        return atoms(t[1], inner) + atoms(t[2], inner)
    out = [(t, inner)]
    se = None
    if k == "bin" and t[1][0] == "cnt":
        se = t[1][1]
    if k in ("in", "btw") and t[2][0] == "cnt":
        se = t[2][1]
    if k == "empty":
        se = t[1]
    if se is not None and se[0] == "sub":
        out += atoms(se[2], True)
    return out


def set_in_plain_context(t):
    for a, inner in atoms(t):
        name = None
        if a[0] == "bin" and a[1][0] == "sym":
            name = a[1][1]
        if a[0] in ("in", "btw") and a[2][0] == "sym":
            name = a[2][1]
        if a[0] == "bs":
            name = a[1]
        if name is not None and inner and any(p in SET_NAMES for p in unhex(name).split(b".")):
            return True
    return False


def class_key(verdict, t):
    """stable signature of the class of failure (computed on the shrunk filter)"""
    shape, op, lit = features(t)
    if shape.startswith("count") and lit == "N":
        return "C01:count-null"
    if verdict in ("panic", "accepted", "ids") and set_in_plain_context(t):
        return "C01:validator-subquery-set-context"
    if verdict == "panic":
        if any(a[0] == "bin" and a[2] in ("icontains", "nicontains") for a, _ in atoms(t)):
            return "C01:panic-icontains-null"
        if any(a[0] == "btw" for a, _ in atoms(t)):
            return "C01:panic-between-operands"
        return "C01:panic:%s:%s:%s" % (shape, op, lit)
    if verdict == "ids":
        if shape == "anyOf" and op == "neq":
            return "C01:anyOf-neq-seek"
        if shape in ("allOf", "anyOf", "allOf-dotted", "anyOf-dotted") and op in ("notin", "notbetween"):
            return "C01:setfn-negation-hoisted"
        if shape in ("count-subquery", "isEmpty-subquery"):
            return "C01:subquery-" + ("null-element" if dotted_subquery(t) else "count-ignored" if shape == "count-subquery" else "isEmpty")
        if shape in ("allOf-dotted", "anyOf-dotted") and lhs_parts(t) >= 3:
            return "C01:dotted-set-tail"
    return "C01:%s:%s:%s:%s" % (verdict, shape, op, lit)


def first_atom(t):
    while t[0] in ("q", "not", "and", "or"):
        t = t[1]
    return t


def dotted_subquery(t):
    a = first_atom(t)
    se = a[1] if a[0] == "empty" else (a[1][1] if a[0] == "bin" else a[2][1])
    return b"." in unhex(se[1])


def lhs_parts(t):
    a = first_atom(t)
    l = a[1] if a[0] == "bin" else a[2]
    return len(unhex(l[1]).split(b"."))


# ------------------------------------------------------------------ running both sides

class Runner:
    def __init__(self, c, harness, model):
        self.c, self.harness, self.model = c, harness, model
        self.n = 0
        self.budget = 1000  # replays available to the shrinker in one run

    def run(self, lines):
        """run both sides on the given case lines; returns (impl lines, model lines)"""
        self.n += 1
        self.budget -= 1
        wd = os.path.join(self.c.work, "re%d" % self.n)
        os.makedirs(wd, exist_ok=True)
        inp = os.path.join(wd, "in.txt")
        with open(inp, "w") as f:
            f.write("\n".join(lines) + "\n")
        rc, out = vlib.run([self.harness, "c01", "--out", wd, "--replaycase", inp], timeout=300)
        if rc != 0:
            raise RuntimeError("harness replay failed: " + out[-500:])
        impl = vlib.read_lines(os.path.join(wd, "impl.txt"))
        modl = vlib.run_model(self.model, "c01", os.path.join(wd, "cases.txt"), os.path.join(wd, "model.txt"))
        self.cases = vlib.read_lines(os.path.join(wd, "cases.txt"))   # T lines carry the answer taken in THIS run
        return impl, modl


def verdict(impl, modl):
    """compare one Q observation with the model line.
    returns None (agree) or (kind, text): kind in ids|panic|accepted|rejected|model"""
    fi, fm = impl.split(), modl.split()
    if fm[:2] == ["R", "panic"]:
        return ("model", "the model typer reports an unchecked assertion (Panic)")
    if fm[1] == "ok":
        q, it, sp = fm[2], fm[3], fm[4]
        if fi[1] == "panic":
            return ("panic", "evaluation panics; documented semantics select %s" % sp)
        if fi[1] == "err":
            return ("rejected", "the filter is well-typed for the model but rejected by ast.Parse")
        a, b = fi[2], fi[3]
        if a != sp:
            return ("ids", "QueryIds returns %s, documented semantics select %s" % (a, sp))
        if b != sp:
            return ("ids", "IterateIds returns %s, documented semantics select %s" % (b, sp))
        if q != sp or it != sp:
            return ("model", "model evaluator (%s / %s) differs from the declarative semantics %s" % (q, it, sp))
        return None
    # the model's typer rejects the filter
    sp = fm[2] if len(fm) > 2 else "-"
    if fi[1] == "err":
        return None
    if fi[1] == "panic":
        return ("panic", "evaluation panics on a filter that should have been rejected")
    if fi[2] != sp or fi[3] != sp:
        return ("ids", "a filter the typing rules reject is accepted and returns %s / %s; documented semantics select %s" % (fi[2], fi[3], sp))
    return ("accepted", "a filter the typing rules reject is accepted (answers agree with the documented semantics on this dataset)")


# ------------------------------------------------------------------ scan strategies (T lines)

def ids_text(tok):
    return "[" + ",".join(unhex(x).decode("utf-8", "replace") for x in tok.split(",") if x != "-") + "]"


def verdict_t(case, modl, how=None):
    """a T line: the answer one scan strategy gave (in the case line), judged by the model with strategy_check.
    returns None (agree) or (kind, text): kind in ids|count|panic|accepted|rejected|model"""
    fm = modl.split()
    if fm[:2] == ["T", "agree"]:
        return None
    tc = case.split()
    if how is None:
        how = "%s%s" % ({"Q": "QueryIds", "C": "QueryWithCursorC"}[tc[3]], "" if tc[4] == "*" else " over a cursor of " + ids_text(tc[4]))
    order = {"F": "id order", "R": "reverse id order", "A": "sorted by other fields"}[tc[2]]
    why = fm[2] if len(fm) > 2 else "?"
    match = fm[3] if len(fm) > 3 else "-"
    plen = fm[4] if len(fm) > 4 else "?"
    if why == "model-panic":
        return ("model", "the model typer reports an unchecked assertion (Panic)")
    if why == "panic":
        return ("panic", "%s panics; the matching entities are %s" % (how, ids_text(match)))
    if why == "rejected":
        return ("rejected", "the query is well-typed for the model but rejected (%s)" % how)
    if why == "accepted":
        return ("accepted", "a filter the typing rules reject is accepted (the answer agrees with the documented semantics on this dataset)")
    got = "%s (%s) returns %s with count %s" % (how, order, ids_text(tc[7]), tc[8])
    want = "the entities satisfying the filter are %s" % ids_text(match)
    if why == "count":
        return ("count", "%s; %s: the count must be %d whatever the strategy and the paging" % (got, want, len([x for x in match.split(",") if x != "-"])))
    if why == "accepted-ids":
        return ("ids", "a filter the typing rules reject is accepted and %s; %s" % (got, want))
    nmatch = len([x for x in match.split(",") if x != "-"])
    cnt = "" if tc[8] in (str(nmatch), "-") else "; the count must be %d" % nmatch
    return ("ids", "%s; %s and skip / limit leave %s of them%s%s" % (got, want, plen, " (exactly the page of that order)" if tc[2] != "A" else "", cnt))


STORE_KINDS = {}    # store index -> root | child-plain | child-extended (from the H trailer of the S line)
ROOT_OF = {}        # child store index -> parent store index


def load_hier(sline):
    STORE_KINDS.clear()
    ROOT_OF.clear()
    toks = sline.split()
    if "H" in toks:
        i = toks.index("H")
        n = int(toks[i + 1])
        i += 2
        for _ in range(n):
            child, ext, npath = toks[i], toks[i + 2], int(toks[i + 3])
            STORE_KINDS[child] = "child-extended" if ext == "1" else "child-plain"
            ROOT_OF[child] = toks[i + 1]
            i += 4 + npath


def class_key_t(kind, case):
    tc = case.split()
    return "C01:strategy-%s:%s:%s:%s" % (kind, STORE_KINDS.get(tc[1], "root"), "sorted" if tc[2] == "A" else "id-order",
                                        "provided-cursor" if tc[3] == "C" else "entities-bucket")


def kw_style(toks):
    """the keyword-case style of a Q / T line: its last token `kc:<style>` (c01_kwcase.go), None = canonical spelling"""
    return toks[-1][3:] if toks and toks[-1].startswith("kc:") else None


def kw_suffix(style):
    return " kc:" + style if style else ""


def t_line(tc, tt, body_text_of):
    """the T line of a (shrunk) query: same store, strategy, universe and sort clause; text rebuilt from the body"""
    body = tt[1] if tt[0] == "q" else tt
    skip, limit = (tt[2], tt[3]) if tt[0] == "q" else ("-", "-")
    style = getattr(body_text_of, "style", None)
    if style:
        # keywords spelled in another case: the harness prints the whole query (predicate, sort by, skip, limit) in that style
        text = body_text_of(("q", body, skip, limit), sort=tc[5])
        return " ".join(["T", tc[1], tc[2], tc[3], tc[4], tc[5], "ok", "-", "-", text or "-", term(("q", body, skip, limit))]) + kw_suffix(style)
    text = unhex(body_text_of(("q", body, "-", "-"))).decode("utf-8")
    if tc[5] != "-":
        text += " sort by " + unhex(tc[5]).decode("utf-8")
    if skip != "-":
        text += " skip " + skip
    if limit != "-":
        text += " limit " + ("none" if limit == "-1" else limit)
    text = text.strip()     # a query without a predicate starts with its first clause
    return " ".join(["T", tc[1], tc[2], tc[3], tc[4], tc[5], "ok", "-", "-", text.encode("utf-8").hex() or "-", term(("q", body, skip, limit))])


def diff_ids_t(case, modl):
    tc, fm = case.split(), modl.split()
    if len(fm) < 4 or tc[6] != "ok":
        return []
    a = set(x for x in tc[7].split(",") if x != "-")
    b = set(x for x in fm[3].split(",") if x != "-")
    return sorted(a ^ b)



# ------------------------------------------------------------------ sequences of queries (M lines, Ast/Session.v)

MUT_NAMES = {"P": "SetPredicate", "K": "SetSkip", "L": "SetLimit", "A": "AdoptSortFields", "X": "interleaved-query"}
API_NAMES = {"Q": "QueryIdsC", "C": "QueryWithCursorC", "I": "IterateIds", "N": None}


def parse_m(case):
    """tokens of an M line -> (head tokens 0..9, [mutator token lists], term tokens)"""
    tc = case.split()
    n = int(tc[10])
    pos = 11
    muts = []
    for _ in range(n):
        if tc[pos] == "P":
            pp = P(tc[pos + 2:])
            p_term(pp)
            muts.append(tc[pos:pos + 2 + pp.i])
            pos += 2 + pp.i
        else:
            muts.append(tc[pos:pos + 2])
            pos += 2
    return tc[:10], muts, tc[pos:]


def m_line(head, muts, tterm):
    return " ".join(head + [str(len(muts))] + [x for mu in muts for x in mu] + tterm)


def mut_text(mu):
    if mu[0] == "P":
        return "SetPredicate(%s)" % unhex(mu[1]).decode("utf-8", "replace")
    if mu[0] == "A":
        return "AdoptSortFields(%s)" % unhex(mu[1]).decode("utf-8", "replace")
    if mu[0] == "X":
        return '[meanwhile another caller: QueryIds("%s")]' % unhex(mu[1]).decode("utf-8", "replace")
    return "%s(%s)" % (MUT_NAMES[mu[0]], mu[1])


def m_text(case):
    """what the earlier caller of an M line does, in words"""
    head, muts, _ = parse_m(case)
    api = API_NAMES[head[3]]
    how = "" if api is None else ", %s%s" % (api, "" if head[4] == "*" else " over a cursor of " + ids_text(head[4]))
    return 'Parse("%s")%s%s' % (unhex(head[9]).decode("utf-8", "replace"), "".join(" + " + mut_text(mu) for mu in muts), how)


def verdict_m(case, modl):
    """an M line: the answer an earlier caller got from the query object it refined, judged against the refined query"""
    fm = modl.split()
    if fm[:2] == ["M", "agree"]:
        return None
    v = verdict_t(case, "T " + " ".join(fm[1:]), how="the refined query object of " + m_text(case))
    return v


def class_key_m(kind, case):
    """the class of a wrong answer to a refined query object: like a strategy answer (class_key_t); which mutators the
    caller applied is part of the message, not of the key"""
    tc = case.split()
    return "C01:refined-query-%s:%s:%s:%s" % (kind, STORE_KINDS.get(tc[1], "root"), "sorted" if tc[2] == "A" else "id-order",
                                              {"Q": "entities-bucket", "C": "provided-cursor", "I": "iterate-ids", "N": "not-evaluated"}[tc[3]])


def strategy_twin_key(kind, case):
    """the key under which the same wrong answer shows for a plain query text (T line) - None for IterateIds"""
    tc = case.split()
    if tc[3] not in ("Q", "C"):
        return None
    return class_key_t(kind, case)


def judge_line(case, impl, modl):
    """verdict of any observation line (Q: impl line; T / M: the answer inside the case line taken in this run)"""
    if case.startswith("Q "):
        return verdict(impl, modl)
    if case.startswith("T "):
        return verdict_t(case, modl)
    if case.startswith("M "):
        return verdict_m(case, modl)
    return None


def seq_lines(history, final):
    """case lines of a sequence: the (S, D, M) contexts of the earlier callers, then the final (S, D, line); a schema or
    dataset line equal to the one in force is not repeated; a history entry may come without dataset (d = None)"""
    out = []
    cur_s = cur_d = None
    for (sl, dl, line) in list(history) + [final]:
        if sl != cur_s:
            out.append(sl)
            cur_s, cur_d = sl, None
        if dl is not None and dl != cur_d:
            out.append(dl)
            cur_d = dl
        out.append(line)
    return out


def history_dependence(rn, sl, dl, case, hist):
    """Is the failure of `case` (under schema sl, dataset dl) a consequence of the earlier callers `hist` (M lines with
    their contexts) of the same process?  Returns None when the line fails on its own (or nothing reproduces it),
    otherwise the minimal history [(sline, dline|None, mline)] after which it fails while it passes alone."""
    def fails(history):
        if rn.budget <= 0:
            return False
        try:
            impl, modl = rn.run(seq_lines(history, (sl, dl, case)))
        except Exception:
            return False
        return judge_line(rn.cases[-1], impl[-1], modl[-1]) is not None
    if not hist or fails([]):
        return None
    for known in KNOWN_CULPRITS:
        if fails(known):
            return known
    # the smallest suffix of the history after which the line fails (a refinement that sticks keeps failing when more
    # history is put in front of it)
    size, lo = 1, 0
    while not fails(hist[-size:]):
        if size >= len(hist):
            return None
        lo, size = size, min(len(hist), size * 4)
    hi = size
    while hi - lo > 1:
        mid = (lo + hi) // 2
        if fails(hist[-mid:]):
            hi = mid
        else:
            lo = mid
    found = hist[-hi:]
    # its first caller is needed; mostly it is enough
    if len(found) > 1 and fails(found[:1]):
        found = found[:1]
    i = len(found) - 1
    tries = 24
    while i >= 1 and tries > 0:
        tries -= 1
        cand = found[:i] + found[i + 1:]
        if fails(cand):
            found = cand
        i -= 1
    # simpler earlier callers: not evaluated, fewer mutators, without a dataset
    for k in range(len(found)):
        s0, d0, m0 = found[k]
        head, muts, tterm = parse_m(m0)
        if head[3] != "N":
            h2 = head[:3] + ["N", "*", head[5], "ok", "-", "-", head[9]]
            cand = found[:k] + [(s0, d0, m_line(h2, muts, tterm))] + found[k + 1:]
            if fails(cand):
                found, head = cand, h2
        j = 0
        while j < len(muts) and len(muts) > 1:
            m2 = muts[:j] + muts[j + 1:]
            cand = found[:k] + [(s0, d0, m_line(head, m2, tterm))] + found[k + 1:]
            if fails(cand):
                found, muts = cand, m2
            else:
                j += 1
        s0, d0, m0 = found[k]
        cand = found[:k] + [(s0, None, m0)] + found[k + 1:]
        if fails(cand):
            found = cand
    KNOWN_CULPRITS.append(found)
    return found


KNOWN_CULPRITS = []     # minimal histories found in this run: tried first on the next failing line


def history_key(history, t):
    names = set()
    for (_, _, m0) in history:
        _, muts, _ = parse_m(m0)
        names |= set(MUT_NAMES[mu[0]] for mu in muts)
    body = t[1] if t is not None and t[0] == "q" else t
    return "C01:answer-depends-on-earlier-query:%s:%s" % ("+".join(sorted(names)) or "evaluation-only",
                                                          "no-predicate" if body == ("nopred",) else "filter")


# ------------------------------------------------------------------ dataset lines

def parse_dataset(toks):
    p = P(toks)
    stores = []
    for _ in range(int(p.next())):
        ents = []
        for _ in range(int(p.next())):
            eid = p.next()
            fields = []
            for _ in range(int(p.next())):
                np_ = int(p.next())
                path = [p.next() for _ in range(np_)]
                fields.append((path, p.next()))
            sets = []
            for _ in range(int(p.next())):
                key = p.next()
                k = int(p.next())
                sets.append((key, [p.next() for _ in range(k)]))
            ents.append((eid, fields, sets))
        stores.append(ents)
    return stores


def dataset_line(stores):
    out = ["D", str(len(stores))]
    for ents in stores:
        out.append(str(len(ents)))
        for eid, fields, sets in ents:
            out += [eid, str(len(fields))]
            for path, v in fields:
                out += [str(len(path))] + path + [v]
            out.append(str(len(sets)))
            for key, els in sets:
                out += [key, str(len(els))] + els
    return " ".join(out)


def q_line(store, t, text_of):
    return "Q %s %s %s%s" % (store, text_of(t), term(t), kw_suffix(getattr(text_of, "style", None)))


RANK = {"panic": 3, "ids": 2, "count": 2, "accepted": 1, "rejected": 1, "model": 1}


def replace_subquery(t, f):
    """candidates obtained by shrinking the predicate of a sub-query inside atom t"""
    k = t[0]
    out = []

    def se_cands(se):
        if se[0] != "sub":
            return []
        q = se[2]
        body = q[1]
        res = [("sub", se[1], ("q", s, q[2], q[3])) for s in subterms(body)]
        if q[2] != "-" or q[3] != "-":
            res.append(("sub", se[1], ("q", body, "-", "-")))
        if body != ("bc", "1"):
            res.append(("sub", se[1], ("q", ("bc", "1"), q[2], q[3])))
        for inner in replace_subquery(body, f):
            res.append(("sub", se[1], ("q", inner, q[2], q[3])))
        return res
    if k == "bin" and t[1][0] == "cnt":
        out += [("bin", ("cnt", c), t[2], t[3]) for c in se_cands(t[1][1])]
    elif k in ("in", "btw") and t[2][0] == "cnt":
        out += [t[:2] + (("cnt", c),) + t[3:] for c in se_cands(t[2][1])]
    elif k == "empty":
        out += [("empty", c) for c in se_cands(t[1])]
    elif k == "not":
        out += [("not", c) for c in replace_subquery(t[1], f)]
    elif k in ("and", "or"):
        out += [(k, c, t[2]) for c in replace_subquery(t[1], f)] + [(k, t[1], c) for c in replace_subquery(t[2], f)]
    return out


def diff_ids(impl, modl):
    """ids on which the implementation and the documented semantics disagree (hex), [] when not comparable"""
    fi, fm = impl.split(), modl.split()
    if len(fi) < 4 or fi[1] != "ok" or len(fm) < 3:
        return []
    sp = fm[4] if fm[1] == "ok" and len(fm) > 4 else fm[2]
    a = set(x for x in fi[2].split(",") if x != "-")
    b = set(x for x in sp.split(",") if x != "-")
    return sorted(a ^ b)


def shrink(rn, sline, dline, store, t, kind, text_of, tcase=None, history=()):
    """greedy shrinking of (dataset, filter) keeping (or strengthening) the kind of verdict.
    tcase: the tokens of a T line when the failing observation is the answer of a scan strategy (its sort clause is
    shrunk in place); history: the earlier callers (sline, dline|None, M line) after which the line is asked"""
    def mk_line(tt):
        return q_line(store, tt, text_of) if tcase is None else t_line(tcase, tt, text_of)

    def judge(impl, modl):
        return verdict(impl[-1], modl[-1]) if tcase is None else verdict_t(rn.cases[-1], modl[-1])

    def fails(dl, tt):
        try:
            impl, modl = rn.run(seq_lines(history, (sline, dl, mk_line(tt))))
        except Exception:
            return False
        v = judge(impl, modl)
        return v is not None and RANK[v[0]] >= RANK[kind]

    budget = [70]

    def try_(dl, tt):
        if budget[0] <= 0 or rn.budget <= 0:
            return False
        budget[0] -= 1
        return fails(dl, tt)

    # filter: replace by sub-filters, shrink sub-queries
    changed = True
    while changed:
        changed = False
        body = t[1] if t[0] == "q" else t
        cands = [("q", s, "-", "-") for s in subterms(body)] + [("q", s, "-", "-") for s in replace_subquery(body, None)]
        if tcase is not None:
            # a strategy answer: keep the paging first (it is part of many failures), then try without; the trivial filter last
            pg = (t[2], t[3]) if t[0] == "q" else ("-", "-")
            cands = [("q", c[1], pg[0], pg[1]) for c in cands] + (cands if pg != ("-", "-") else [])
            if pg != ("-", "-"):
                cands.append(("q", body, "-", "-"))
            if body != ("bc", "1"):
                cands = [("q", ("bc", "1"), pg[0], pg[1])] + cands
        for cand in cands:
            if try_(dline, cand):
                t = cand
                changed = True
                break
    # the sort clause of a strategy answer: fewer fields (the first one stays: it selects the scanner and the order kind)
    if tcase is not None and tcase[5] != "-":
        fields = [x.strip() for x in unhex(tcase[5]).decode("utf-8").split(",")]
        i = len(fields) - 1
        while i >= 1:
            cand = fields[:i] + fields[i + 1:]
            old = tcase[5]
            tcase[5] = ", ".join(cand).encode("utf-8").hex()
            if try_(dline, t):
                fields = cand
            else:
                tcase[5] = old
            i -= 1
    # dataset: first try to keep only an entity of the queried store on which the two sides disagree
    stores = parse_dataset(dline.split()[1:])
    try:
        si0 = int(ROOT_OF.get(store, store))   # a child store scans the entity buckets of its parent
        impl0, modl0 = rn.run(seq_lines(history, (sline, dline, mk_line(t))))
        dids = diff_ids(impl0[-1], modl0[-1]) if tcase is None else diff_ids_t(rn.cases[-1], modl0[-1])
        for keep in ([dids[:1], dids] if len(dids) > 1 else [dids]):
            if not keep or len(stores[si0]) <= len(keep):
                continue
            cand = [list(x) for x in stores]
            cand[si0] = [e for e in stores[si0] if e[0] in keep]
            dl = dataset_line(cand)
            if try_(dl, t):
                stores, dline = cand, dl
                break
    except Exception:
        pass
    # drop entities (blocks first: the hand-built sweep datasets hold dozens of entities per store, a failing filter
    # needs one per hop), then fields, sets and set elements
    for si in range(len(stores)):
        size = len(stores[si])
        while size >= 2 and len(stores[si]) > 4:
            i = 0
            while i < len(stores[si]):
                cand = [list(x) for x in stores]
                del cand[si][i:i + size]
                dl = dataset_line(cand)
                if try_(dl, t):
                    stores, dline = cand, dl
                else:
                    i += size
            size //= 2
    for si in range(len(stores)):
        i = 0
        while i < len(stores[si]):
            cand = [list(x) for x in stores]
            del cand[si][i]
            dl = dataset_line(cand)
            if try_(dl, t):
                stores = cand
                dline = dl
            else:
                i += 1
    for si in range(len(stores)):
        for ei in range(len(stores[si])):
            for what in ("fields", "sets"):
                i = 0
                while True:
                    eid, fields, sets = stores[si][ei]
                    lst = fields if what == "fields" else sets
                    if i >= len(lst):
                        break
                    cand = [list(x) for x in stores]
                    nl = lst[:i] + lst[i + 1:]
                    cand[si][ei] = (eid, nl, sets) if what == "fields" else (eid, fields, nl)
                    dl = dataset_line(cand)
                    if try_(dl, t):
                        stores = cand
                        dline = dl
                    else:
                        i += 1
            j = 0
            while j < len(stores[si][ei][2]):
                key, els = stores[si][ei][2][j]
                i = 0
                while i < len(els) and len(els) > 1:
                    cand = [list(x) for x in stores]
                    eid, fields, sets = stores[si][ei]
                    nsets = list(sets)
                    nsets[j] = (key, els[:i] + els[i + 1:])
                    cand[si][ei] = (eid, fields, nsets)
                    dl = dataset_line(cand)
                    if try_(dl, t):
                        stores, dline = cand, dl
                        els = nsets[j][1]
                    else:
                        i += 1
                j += 1
    return dline, t


# ------------------------------------------------------------------ main

def main(argv):
    c = vlib.Check(PID, argv)
    c.cov["trusted_base"] = [
        "Coq 8.16.1 kernel (coqc; coqchk in the thorough tier); vm_compute in Examples only; no axioms",
        "hand-written models Ast/{Schema,Typer,Eval,Spec,Chain}.v of ast typing/evaluation and boltz symbol resolution, row cursor, set cursors and cursor scanner; Ast/Session.v (query objects: Parse allocates, mutators change the caller's object)",
        "float64 modelled as bit patterns (Ast/F64.v); strconv.FormatFloat and time.MarshalText enter the theorems as Section variables; the executable model runs Ast/FmtFloat.v (shortest round-trip digits, positional layout) for FormatFloat(v,'f',-1,64), compared with strconv itself on the F lines of every run; time.MarshalText is not modelled (no time -> string coercion is generated); strings.ToUpper modelled for ASCII",
        "bbolt (sorted key iteration, Seek = first key >= target), ANTLR parser, strconv.ParseFloat/ParseInt of literals",
        "extraction (ExtrOcamlBasic only) + extraction/c01_driver.ml + drv_common.ml",
        "Go harness cmd/storageharness/c01*.go (schema, dataset writer through TypedBucket, generators, printers filter->ZitiQL (incl. the string-literal escape encoder c01Escape: the model receives the intended bytes) and filter->term) and this comparison / shrinker",
    ]
    c.assumptions = [
        "set buckets hold string elements in bolt key order without duplicates (wf_db; written through SetStringList)",
        "stored field bytes are the ones the TypedBucket setters write (decoding is C13)",
        "which of the matching entities a SORTED page holds, and their order, is C02: a sorted answer is judged as a set (members of the matching set, no duplicate, as many as skip / limit leave, count = size of the matching set)",
        "no symbol links INTO a child store and no child store has a set symbol or a child store of its own (documented in design/C01.md 5b)",
        "query objects are refined through the ast.Query interface only, with predicates parsed for the same store (design/C01.md 5d)",
    ]
    proof_ok = c.proof_step(FILES)
    model = vlib.build_model("C01")
    harness, err = vlib.build_harness()
    if harness is None:
        c.violation("C01:harness-build", "harness does not build against the repository: " + err[-800:],
                    dict(correspondence="harness build", log=err[-3000:]), no_input=True)
        return c.finish()

    rn = Runner(c, harness, model)
    if c.replay:
        rp = json.load(open(c.replay))
        lines = rp["case"] if isinstance(rp["case"], list) else [rp["case"]]
        impl, modl = rn.run(lines)
        for case, i, m in zip(rn.cases, impl, modl):
            if case.startswith("S "):
                load_schema(case)
                load_hier(case)
            if case.startswith("T "):
                v = verdict_t(case, m)
                vlib.log("REPLAY strategy query=%s\n  case =%s\n  model=%s\n  verdict=%s" % (unhex(case.split()[9]).decode("utf-8", "replace"), " ".join(case.split()[:9]), m, v))
                if v is not None:
                    c.violation(class_key_t(v[0], case), v[1], dict(case=lines, observed=case, model=m), no_input=(v[0] in ("accepted", "rejected", "model")))
            if case.startswith("M "):
                v = verdict_m(case, m)
                vlib.log("REPLAY earlier caller: %s\n  case =%s\n  model=%s\n  verdict=%s" % (m_text(case), " ".join(case.split()[:9]), m, v))
                if v is not None:
                    c.violation(class_key_m(v[0], case), v[1], dict(case=lines, observed=case, model=m), no_input=(v[0] in ("accepted", "rejected", "model")))
            if case.startswith("Q"):
                vlib.log("REPLAY filter=%s\n  impl =%s\n  model=%s\n  verdict=%s" % (unhex(case.split()[2]).decode("utf-8", "replace"), i, m, verdict(i, m)))
                v = verdict(i, m)
                if v is not None:
                    t = p_term(P(case.split()[3:]))
                    c.violation(class_key(v[0], t), v[1], dict(case=lines, impl=i, model=m), no_input=(v[0] in ("accepted", "rejected", "model")))
        return c.finish()

    args = [harness, "c01", "--seed", str(c.seed), "--tier", c.tier, "--out", c.work]
    rc, out = vlib.run(args, timeout=3000)
    if rc == 7 and os.path.exists(os.path.join(c.work, "HANG.txt")):
        hang = open(os.path.join(c.work, "HANG.txt")).read().strip()
        c.violation("C01:evaluation-hangs", "a query did not return within 20 s (store, filter): %s" % hang,
                    dict(hang=hang, note="the harness watchdog stopped the run; replay by running this filter on any non-trivial dataset"))
        return c.finish()
    if rc != 0:
        c.violation("C01:harness-run", "harness failed rc=%s: %s" % (rc, out[-500:]),
                    dict(correspondence="harness run", log=out[-3000:]), no_input=True)
        return c.finish()
    cases_path = os.path.join(c.work, "cases.txt")
    cases = vlib.read_lines(cases_path)
    impl = vlib.read_lines(os.path.join(c.work, "impl.txt"))
    modl = run_model_parallel(model, cases, c.work)
    assert len(cases) == len(impl) == len(modl), (len(cases), len(impl), len(modl))

    sline = dline = None
    distinct = set()
    nq = 0
    found = {}          # key -> count
    pending = {}        # provisional key -> up to two (sline, dline, case, impl, model, verdict)
    disagreements = 0
    samples = []
    nfmt = 0
    fmt_diffs = []
    nt = 0
    variant = "base"
    import collections
    strat_seen = collections.Counter()
    tsamples = []
    base_keys = set()
    hist = []           # (sline, dline, M line) of every earlier caller of this process, in order
    nm = 0
    for case, i, m in zip(cases, impl, modl):
        if case.startswith("M "):
            # an earlier caller of a session: its own answer is judged against the query it refined
            nm += 1
            v = verdict_m(case, m)
            if v is not None:
                disagreements += 1
                pre_key = class_key_m(v[0], case)
                found[pre_key] = found.get(pre_key, 0) + 1
                lst = pending.setdefault(pre_key, [])
                if len(lst) < 2:
                    lst.append((sline, dline, case, i, m, v, len(case) + len(dline), len(hist)))
            hist.append((sline, dline, case))
            continue
        if case.startswith("S "):
            sline = case
            load_schema(case)
            load_hier(case)
            variant = case.split()[-1] if " V " in case else "base"
            continue
        if case.startswith("T "):
            # the answer of one scan strategy, judged by the model (strategy_check)
            nt += 1
            tc = case.split()
            strat_seen["%s:%s:%s" % (STORE_KINDS.get(tc[1], "root"), "sorted" if tc[2] == "A" else "id-order" if tc[2] == "F" else "id-order-reverse",
                                     "provided-cursor" if tc[3] == "C" else "entities-bucket")] += 1
            if tc[6] == "ok" and tc[7] != "-" and len(dline) > 20:
                distinct.add((hash(dline), tc[1], tc[9]))
            if len(tsamples) < 4 and nt % 4999 == 1:
                tsamples.append(dict(store=tc[1], strategy=" ".join(tc[2:5]), query=unhex(tc[9]).decode("utf-8", "replace"),
                                     answer=ids_text(tc[7]), count=tc[8], model=m))
            v = verdict_t(case, m)
            if v is None:
                continue
            disagreements += 1
            pre_key = class_key_t(v[0], case)
            found[pre_key] = found.get(pre_key, 0) + 1
            lst = pending.setdefault(pre_key, [])
            if len(lst) < 2 or len(case) + len(dline) < max(x[6] for x in lst):
                lst.append((sline, dline, case, i, m, v, len(case) + len(dline), len(hist)))
                lst.sort(key=lambda x: x[6])
                del lst[2:]
            continue
        if case.startswith("D "):
            dline = case
            continue
        if case.startswith("F "):
            # the modelled number -> string coercion of floats against strconv.FormatFloat(v,'f',-1,64)
            nfmt += 1
            if i != m and len(fmt_diffs) < 3:
                fmt_diffs.append(dict(bits=case.split()[1], strconv=unhex(i.split()[1]).decode("ascii", "replace"),
                                      model=unhex(m.split()[1]).decode("ascii", "replace")))
            continue
        if not case.startswith("Q "):
            continue
        nq += 1
        fm = m.split()
        if fm[1] == "ok" and fm[4] != "-" and len(dline) > 20:
            # non-trivial: well-typed and selects at least one entity
            distinct.add((hash(dline), case.split()[2]))
        if (len(samples) < 6 and nq % 997 == 1) or (len(samples) < 3 and fm[1] == "ok" and fm[4] != "-" and nq > 14000):
            samples.append(dict(store=case.split()[1], filter=unhex(case.split()[2]).decode("utf-8", "replace"),
                                term=" ".join(case.split()[3:])[:400], impl=i, model=m, dataset=dline[:600]))
        v = verdict(i, m)
        if v is None:
            continue
        disagreements += 1
        t = p_term(P(case.split()[3:]))
        pre_key = class_key(v[0], t)
        skind = STORE_KINDS.get(case.split()[1], "root")
        if variant == "base" and skind == "root":
            base_keys.add(pre_key)
        else:
            # seen only where symbols are stored under other keys / through a child store: say so in the key
            # (decided below: the plain key is kept when the base schema shows the same class)
            pre_key += "@" + ("" if skind == "root" else skind + "/") + variant
        found[pre_key] = found.get(pre_key, 0) + 1
        lst = pending.setdefault(pre_key, [])
        if len(lst) < 2:
            lst.append((sline, dline, case, i, m, v, len(case) + len(dline), len(hist)))

    # shrink and report: smallest instances first, at most two per class, at most 16 classes in detail
    reported = {}
    # a class seen under the base schema is reported there; the same class under a variant / child store is a duplicate
    for k in [k for k in pending if "@" in k and k.split("@")[0] in base_keys]:
        del pending[k]
    for pre_key in sorted(pending, key=lambda k: min(x[6] for x in pending[k]))[:28]:
        suffix = ("@" + pre_key.split("@", 1)[1]) if "@" in pre_key else ""
        for (sl, dl0, case, i, m, v, _, nh) in sorted(pending[pre_key], key=lambda x: x[6]):
            toks = case.split()
            store = toks[1]
            load_schema(sl)
            load_hier(sl)
            if nh > 0:
                # asked after earlier callers refined query objects of their own: does the answer depend on them?
                if report_history(c, rn, harness, reported, sl, dl0, case, v, hist[:nh]):
                    continue
            if toks[0] == "M":
                key = pre_key
                if strategy_twin_key(v[0], case) in found:
                    continue    # the scan strategy answers the plain text wrongly in the same way: reported there
                if reported.get(key, 0) >= 2:
                    continue
                reported[key] = reported.get(key, 0) + 1
                c.violation(key, "%s  [a caller that refines the query object it parsed must get the entities the refined query selects]" % v[1],
                            dict(case=[sl, dl0, case], caller=m_text(case), observed=" ".join(toks[:9]), model=m),
                            no_input=(v[0] in ("accepted", "rejected", "model")))
                continue
            if toks[0] == "T":
                # the answer of a scan strategy
                t = p_term(P(toks[10:]))
                kstyle = kw_style(toks)

                def body_text_of(tt, sort=None, _st=kstyle):
                    return render(harness, c, tt, style=_st, sort=sort)
                body_text_of.style = kstyle
                try:
                    dl, ts = shrink(rn, sl, dl0, store, t, v[0], body_text_of, tcase=toks)
                    lines = [sl, dl, t_line(toks, ts, body_text_of)]
                    impl2, modl2 = rn.run(lines)
                    obs = rn.cases[-1]
                    v2 = verdict_t(obs, modl2[-1]) or v
                    key = class_key_t(v2[0], obs)
                    m2 = modl2[-1]
                    what = "%s  [query: %s]" % (v2[1], unhex(obs.split()[9]).decode("utf-8", "replace"))
                    kw_note = ""
                    canon_txt = spelling_matters(rn, harness, c, sl, dl, store, ts, kstyle, tcase=toks)
                    if canon_txt is not None:
                        kw_note = KW_NOTE % canon_txt
                    # is the strategy the problem, or is the filter itself answered wrongly by the plain id scan too?
                    body = ts[1] if ts[0] == "q" else ts
                    qlines = [sl, dl, q_line(store, ("q", body, "-", "-"), body_text_of)]
                    implq, modlq = rn.run(qlines)
                    vq = verdict(implq[-1], modlq[-1])
                    if vq is not None and RANK[vq[0]] >= 2:
                        vname = sl.split()[-1] if " V " in sl else "base"
                        skind = STORE_KINDS.get(store, "root")
                        sfx = "" if (vname == "base" and skind == "root") else "@" + ("" if skind == "root" else skind + "/") + vname
                        key = class_key(vq[0], ("q", body, "-", "-")) + sfx
                        if key.split("@")[0] in base_keys:
                            continue
                        lines, obs, m2, v2 = qlines, implq[-1], modlq[-1], vq
                        what = "%s  [filter: %s]%s" % (vq[1], unhex(qlines[2].split()[2]).decode("utf-8", "replace"),
                                                      "  [schema variant %s, %s store %s]" % (vname, skind, store) if sfx else "")
                        canon_txt = spelling_matters(rn, harness, c, sl, dl, store, ("q", body, "-", "-"), kstyle)
                        if canon_txt is not None:
                            key += "+keyword-case"
                            what += KW_NOTE % canon_txt
                        if reported.get(key, 0) >= 2:
                            continue
                        reported[key] = reported.get(key, 0) + 1
                        c.violation(key, what, dict(case=lines, filter=unhex(qlines[2].split()[2]).decode("utf-8", "replace"), impl=obs, model=m2))
                        continue
                    if kw_note:
                        key += "+keyword-case"
                        what += kw_note
                except Exception as e:  # shrinking is best effort
                    lines, key, obs, m2, v2 = [sl, dl0, case], pre_key, case, m, v
                    what = "%s  [query: %s] (not shrunk: %s)" % (v[1], unhex(toks[9]).decode("utf-8", "replace"), e)
                if reported.get(key, 0) >= 2:
                    continue
                reported[key] = reported.get(key, 0) + 1
                c.violation(key, what, dict(case=lines, query=unhex(obs.split()[9]).decode("utf-8", "replace"), observed=" ".join(obs.split()[:9]), model=m2),
                            no_input=(v2[0] in ("accepted", "rejected", "model")))
                continue
            t = p_term(P(toks[3:]))
            kstyle = kw_style(toks)

            def text_of(tt, _orig=(term(t), toks[2]), _st=kstyle):
                # the Go printer owns the text; shrunk filters are rendered by the harness (keywords in the style of the line)
                if term(tt) == _orig[0]:
                    return _orig[1]
                return render(harness, c, tt, style=_st)
            text_of.style = kstyle
            try:
                dl, ts = shrink(rn, sl, dl0, store, t, v[0], text_of)
                lines = [sl, dl, q_line(store, ts, text_of)]
                impl2, modl2 = rn.run(lines)
                v2 = verdict(impl2[-1], modl2[-1]) or v
                key = class_key(v2[0], ts) + suffix
                what = "%s  [filter: %s]" % (v2[1], unhex(lines[2].split()[2]).decode("utf-8", "replace"))
                if suffix:
                    what += "  [schema variant %s, %s store %s]" % (suffix.split("/")[-1].lstrip("@"), STORE_KINDS.get(store, "root"), store)
                canon_txt = spelling_matters(rn, harness, c, sl, dl, store, ts, kstyle)
                if canon_txt is not None:
                    key += "+keyword-case"
                    what += KW_NOTE % canon_txt
                i2, m2 = impl2[-1], modl2[-1]
            except Exception as e:  # shrinking is best effort
                lines, key, i2, m2, v2 = [sl, dl0, case], pre_key, i, m, v
                what = "%s  [filter: %s] (not shrunk: %s)" % (v[1], unhex(toks[2]).decode("utf-8", "replace"), e)
            if reported.get(key, 0) >= 2:
                continue
            reported[key] = reported.get(key, 0) + 1
            c.violation(key, what, dict(case=lines, filter=unhex(lines[2].split()[2]).decode("utf-8", "replace"), impl=i2, model=m2),
                        no_input=(v2[0] in ("accepted", "rejected", "model")))

    for dff in fmt_diffs:
        c.violation("C01:model-float-format", "the modelled float -> string coercion (Ast/FmtFloat.v) differs from strconv.FormatFloat(v,'f',-1,64): "
                    "bits %(bits)s strconv=%(strconv)s model=%(model)s" % dff, dict(correspondence="fmt_float_go vs strconv.FormatFloat", **dff), no_input=True)
    c.cov["float_format_lines"] = nfmt
    c.cov["evaluations"] = nq + nt + nm
    c.cov["filter_evaluations"] = nq
    c.cov["strategy_answers"] = nt
    c.cov["earlier_callers"] = nm
    c.cov["strategy_answers_by_kind"] = dict(strat_seen)
    c.cov["strategy_samples"] = tsamples
    c.cov["distinct_nontrivial"] = len(distinct)
    c.cov["disagreements_checked"] = disagreements
    c.cov["failure_classes"] = found
    c.cov["rule"] = ("(dataset, filter) pairs: a bounded-exhaustive sweep (every lhs shape x operator x literal kind, in/not in x 4 array kinds, "
                     "between/not between x 3 bound kinds over a dataset where every field is null and non-null and every set has 0..3 elements) + "
                     "a bounded-exhaustive coercion sweep (every position where a literal is decoded or a number becomes a string: string / fk / int / float / any-typed symbols, "
                     "string sets, dotted symbols x 10 operators x number literals of every lexical form and magnitude, int64 boundaries, string literals built from the escape "
                     "characters, strings spelling numbers; in / not in arrays of them; dataset holding the same strings and numbers) + "
                     "a bounded-exhaustive boundary sweep (c01_boundary.go: the empty string, zeros of every width, -0.0, false, the zero instants, nil markers and absent fields at the END of "
                     "every symbol path shape - direct, fk chains of 1-3 hops, dotted sets set.T / set.fk.T / fk.set.T / set.set.T, map elements, sub-query predicates, child-store symbols - "
                     "reached through entities that hold such values themselves, every way a hop can fail (fk nil / absent / empty / dangling / a number) at every position, "
                     "x 10 operators x type-specific literals, in / not in, between / not between, null tests, boolean symbols, anyOf / allOf / count / isEmpty) + "
                     "seeded random null-heavy datasets (0-12 entities) x filters from a typed grammar-directed generator (nesting <= 4). "
                     "Observables: id lists of QueryIds and IterateIds. Non-trivial: the filter is well-typed and selects at least one entity; "
                     "distinct by (dataset, filter text).  Schema variants (symbols stored under keys / prefixes other than their names, keys swapped between symbols; "
                     "a plain and an Extended() child store of people and a plain child store of places with own symbols, own maps and the symbols granted by the parent, "
                     "mixed membership; both): the symbol-resolution part of the sweep through every store of every variant, one variant per random dataset.  "
                     "Scan strategies (T lines): the answer (ids, count) of QueryIds without sort / sort by id asc / desc / every sortable symbol asc / desc / several fields, "
                     "with and without skip / limit, and of QueryWithCursorC over the entities bucket or a cursor over some of its ids - bounded-exhaustive over "
                     "(store incl. child stores) x (null tests over inherited and own symbols) x sort clause x paging, plus two random strategies per random filter; "
                     "judged by strategy_check: count = number of matching entities, ids matching / distinct / as many as skip and limit leave, the exact page for id order.  "
                     "Long sort clauses (c01_ties.go): clauses of 4-9 fields (rotations of the sortable symbols, mixed directions, id in the middle / at the end, one symbol repeated) over a dataset with twins "
                     "(entities equal in every sortable field: values, nil markers, nothing stored) and one-field differences, x {true, no predicate, null tests} x paging x api for every store; random datasets with twins x random clauses of 4-8 fields.  "
                     "Queries without a predicate (the empty text, sort by / skip / limit only) through every strategy and as Q lines.  "
                     "Sequences (M lines, c01_history.go): an earlier caller parses a text, applies SetPredicate / SetSkip / SetLimit / AdoptSortFields (alone, combined, with another caller's query in between) and evaluates the object "
                     "through QueryIdsC / QueryWithCursorC / IterateIds or not at all - its answer is judged against the refined query - then the same text is asked again on the same and on another store; "
                     "a line that fails after M lines is replayed alone and after the minimal history (the answer must not depend on it).  "
                     "Keyword case (c01_kwcase.go): the lexer is case-insensitive per letter; about 30 % of the Q and T lines of the sweeps and of the random stream print every keyword / word operator occurrence "
                     "(and, or, not, in / not in, between / not between, contains / icontains and their negations, anyOf / allOf / count / isEmpty, from / where, true / false / null, sort by / asc / desc / skip / limit / none, "
                     "the T and Z of a datetime) lower, UPPER, Title, by a letter mask or per occurrence at random (with the white space inside `not <op>` varied as the token rule allows), the term and the expected answer unchanged; "
                     "plus a bounded-exhaustive sweep of every keyword in every position x {lower, UPPER, Title, all 31 masks of the first five letters, 16 masks of later letters, 10 (thorough 60) per-occurrence styles}; "
                     "a failing styled line is shrunk in its style and re-asked in the canonical spelling (key suffix +keyword-case when only the spelling matters)")
    c.cov["samples"] = samples
    try:
        c.cov["input_distribution"] = json.load(open(os.path.join(c.work, "stats.json")))
    except Exception:
        pass
    if not proof_ok:
        c.violation("C01:proof", "proof obligation no longer checks: %s" % json.dumps(c.proof_broken)[:600],
                    dict(broken=c.proof_broken), no_input=True)
    return c.finish()



def report_history(c, rn, harness, reported, sl, dl0, case, v, hist):
    """a failing line that was asked after earlier callers (M lines): when it passes in a fresh process and fails after
    (some of) them, report the dependence on the history with the minimal sequence; returns True when reported"""
    if rn.budget <= 0 and KNOWN_CULPRITS:
        return True     # no replays left to tell; dependences on the history are already reported
    try:
        found = history_dependence(rn, sl, dl0, case, hist)
    except Exception as e:
        vlib.log("history analysis failed: %r" % (e,))
        found = None
    if not found:
        return False
    toks = case.split()
    store = toks[1]
    t = None
    try:
        t = p_term(P(toks[3:] if toks[0] == "Q" else toks[10:] if toks[0] == "T" else parse_m(case)[2]))
    except Exception:
        pass
    if reported.get(history_key(found, t), 0) >= 2:
        return True
    lines = seq_lines(found, (sl, dl0, case))
    final_obs, m2, v2 = case, "", v
    try:
        if toks[0] in ("Q", "T"):
            t = p_term(P(toks[3:] if toks[0] == "Q" else toks[10:]))

            def text_of(tt, sort=None, _orig=(term(t), toks[2] if toks[0] == "Q" else None), _st=kw_style(toks)):
                if _orig[1] is not None and term(tt) == _orig[0] and sort is None:
                    return _orig[1]
                return render(harness, c, tt, style=_st, sort=sort)
            text_of.style = kw_style(toks)
            tcase = toks if toks[0] == "T" else None
            dl, ts = shrink(rn, sl, dl0, store, t, v[0], text_of, tcase=tcase, history=found)
            final = q_line(store, ts, text_of) if tcase is None else t_line(tcase, ts, text_of)
            lines = seq_lines(found, (sl, dl, final))
            t = ts
        impl2, modl2 = rn.run(lines)
        final_obs, m2 = (impl2[-1] if toks[0] == "Q" else rn.cases[-1]), modl2[-1]
        v2 = judge_line(rn.cases[-1], impl2[-1], modl2[-1]) or v
    except Exception:
        pass
    key = history_key(found, t)
    if reported.get(key, 0) >= 2:
        return True
    reported[key] = reported.get(key, 0) + 1
    qtext = unhex(toks[2] if toks[0] == "Q" else toks[9]).decode("utf-8", "replace")
    what = ('%s  [query: "%s"] - but only after an earlier caller of the same process did: %s; asked in a fresh process the same query is '
            "answered correctly. The entities a filter selects must be a function of the filter text and the database only "
            "(session_history_irrelevant), not of what another caller did with the query object it parsed"
            % (v2[1], qtext, "; then ".join(m_text(m0) for (_, _, m0) in found)))
    c.violation(key, what, dict(case=lines, query=qtext, earlier_callers=[m_text(m0) for (_, _, m0) in found], observed=final_obs, model=m2))
    return True


def run_model_parallel(model, cases, work, chunk=2500):
    """the extracted model on all case lines, VERIF_JOBS processes at a time.  The only state the driver carries from
    line to line is the current schema (S) and dataset (D): the case file is cut into units of about `chunk` lines, each
    unit starts with the S and D lines in force (their output lines are dropped again), the outputs are concatenated."""
    from concurrent.futures import ThreadPoolExecutor
    try:
        jobs = max(1, int(os.environ.get("VERIF_JOBS", "4")))
    except ValueError:
        jobs = 4
    units = []          # (number of prefix lines, lines)
    sline = dline = None
    cur = None
    for line in cases:
        if cur is None or len(cur[1]) - cur[0] >= chunk:
            pre = []
            if not line.startswith("S "):
                if sline is not None:
                    pre.append(sline)
                if dline is not None and not line.startswith("D "):
                    pre.append(dline)
            cur = [len(pre), pre]
            units.append(cur)
        cur[1].append(line)
        if line.startswith("S "):
            sline, dline = line, None
        elif line.startswith("D "):
            dline = line
    wd = os.path.join(work, "model_units")
    os.makedirs(wd, exist_ok=True)

    def one(k):
        npre, lines = units[k]
        inp = os.path.join(wd, "u%d.txt" % k)
        with open(inp, "w") as f:
            f.write("\n".join(lines) + "\n")
        out = vlib.run_model(model, "c01", inp, os.path.join(wd, "m%d.txt" % k))
        if len(out) != len(lines):
            raise RuntimeError("model unit %d: %d output lines for %d case lines" % (k, len(out), len(lines)))
        return out[npre:]
    with ThreadPoolExecutor(max_workers=jobs) as ex:
        parts = list(ex.map(one, range(len(units))))
    modl = [x for part in parts for x in part]
    with open(os.path.join(work, "model.txt"), "w") as f:
        f.write("\n".join(modl) + "\n")
    return modl


_render_cache = {}


def render(harness, c, t, style=None, sort=None):
    """ZitiQL text (hex) of a term, printed by the harness' own printer; style: the case spelling of the keywords
    (c01_kwcase.go); sort: the sort clause (hex or -) of a T line - the complete query text is printed"""
    tkey = term(t)
    key = (tkey, style, sort)
    if key in _render_cache:
        return _render_cache[key]
    args = [harness, "c01", "--out", os.path.join(c.work, "render"), "--render", tkey.replace(" ", ",")]
    if style:
        args += ["--kwcase", style]
    if sort:
        args += ["--sortclause", sort]
    rc, out = vlib.run(args, timeout=60)
    if rc != 0:
        raise RuntimeError("render failed: " + out[-300:])
    txt = out.strip().split("\n")[-1].strip()
    _render_cache[key] = txt
    return txt


def spelling_matters(rn, harness, c, sl, dl, store, ts, style, tcase=None, history=()):
    """a failing line whose keywords are spelled in another case: does the canonical spelling of the SAME (shrunk)
    query pass on the same dataset?  Then the answer depends on the spelling, which the lexer says is the same token."""
    if not style or rn.budget <= 0:
        return None
    try:
        def canon(tt, sort=None):
            return render(harness, c, tt, sort=sort)
        if tcase is None:
            line = q_line(store, ts, canon)
        else:
            tc2 = list(tcase)
            if tc2[5] != "-":
                # the directions of the sort clause in lower case
                parts = []
                for fld in unhex(tc2[5]).decode("utf-8").split(","):
                    w = fld.split()
                    parts.append(" ".join(w[:1] + [x.lower() for x in w[1:]]))
                tc2[5] = ", ".join(parts).encode("utf-8").hex()
            line = t_line(tc2, ts, canon)
        impl, modl = rn.run(seq_lines(history, (sl, dl, line)))
        if judge_line(rn.cases[-1], impl[-1], modl[-1]) is None:
            return unhex(line.split()[2 if tcase is None else 9]).decode("utf-8", "replace")
    except Exception:
        pass
    return None


KW_NOTE = ("  [only with this spelling of the keywords: written `%s` the same query on the same data is answered correctly - the lexer reads "
           "every keyword and word operator case-insensitively per letter, the selected entities must not depend on the spelling]")
