"""C05 - link collections stay symmetric; ref-counted links agree on both sides.
Proof: coq/theories/Properties/C05.v (models Links/LinkModel.v, SetLinksMerge.v, RefCount.v,
LinkMachine.v).
Correspondence: two real bolt stores with a link collection and a ref-counted link collection
between them (harness c05.go) against the extracted model: bounded-exhaustive SetLinks (every
current set x every requested list) and seeded random histories of 1-40 operations in several
transactions; after every transaction GetLinks / IsLinked / IterateLinks / raw bucket /
GetLinkCounts / GetLinkCount / raw count bucket on both sides for every universe id.
T cases: the same over parent / child store hierarchies (model Links/HierMachine.v, harness c05_hier.go):
each side is a root store with plain / Extended child stores, the collection pairs are registered on
stores of any level, creates and deletes go through any store of a family; the property clauses are
evaluated per pair on the implementation's own observation.
K cases: T cases in which the kinds of collection the two stores of a pair register vary (link collection only,
ref-counted only, both, neither - so a store owns only ref-counted collections, only plain ones, both, several
of one kind or none) and entities are also deleted through DeleteWhere (model Links/HierWhere.v)."""
import json
import os
import time

import vlib

PID = "C05"
FILES = ["theories/Properties/C05.v", "theories/Examples/C05Examples.v"]
MAX_INT32 = 2147483647
MAX_LINK_ID = 32767  # bbolt.MaxKeySize - 1: a link is the KEY <type tag><peer id> on both sides
LINK_FIELDS = ("gl", "il", "it", "raw")
FIELDS = ("p", "gl", "il", "it", "raw", "cs", "ct", "cg", "craw", "cit")


# ----------------------------------------------------------------------------- case parsing

class Toks:
    def __init__(self, line):
        self.t = line.split()
        self.i = 0

    def next(self):
        v = self.t[self.i]
        self.i += 1
        return v

    def ids(self):
        n = int(self.next())
        return [self.next() for _ in range(n)]


def parse_op(t, hier=False):
    kind = t.next()
    w = int(t.next()) if hier else None
    op = dict(kind=kind, sd=t.next(), a=t.next(), keys=[], count=None)
    if hier:
        op["w"] = w  # store level for C / D / DW, pair index for the link and count operations
    if kind == "DW":  # DeleteWhere: filter true (all) or membership of the id in keys
        op["all"] = t.next() == "1"
        op["keys"] = t.ids()
    elif kind in ("CS", "US"):  # create / update through store level w; the strategy writes the link field of pair
        op["pair"] = int(t.next())
        op["keys"] = t.ids()
    elif kind in ("AL", "RL", "SL"):
        op["keys"] = t.ids()
    elif kind in ("A1", "R1", "I", "DC"):
        op["keys"] = [t.next()]
    elif kind == "SC":
        op["keys"] = [t.next()]
        op["count"] = int(t.next())
    return op


def op_text(op):
    s = "%s %s %s" % (op["kind"], op["sd"], op["a"])
    if op.get("w") is not None:
        s = "%s %d %s %s" % (op["kind"], op["w"], op["sd"], op["a"])
    if op["kind"] in ("AL", "RL", "SL"):
        s += " %d" % len(op["keys"]) + "".join(" " + k for k in op["keys"])
    elif op["kind"] in ("A1", "R1", "I", "DC"):
        s += " " + op["keys"][0]
    elif op["kind"] == "SC":
        s += " %s %d" % (op["keys"][0], op["count"])
    elif op["kind"] == "DW":
        s += " %d %d" % (1 if op["all"] else 0, len(op["keys"])) + "".join(" " + k for k in op["keys"])
    elif op["kind"] in ("CS", "US"):
        s += " %d %d" % (op["pair"], len(op["keys"])) + "".join(" " + k for k in op["keys"])
    return s


def parse_case(line):
    t = Toks(line)
    kind = t.next()
    if kind in ("T", "K"):
        kids = {}
        for sd in "AB":
            n = int(t.next())
            kids[sd] = [t.next() == "1" for _ in range(n)]
        n = int(t.next())
        pairs, pkinds = [], None
        for _ in range(n):
            pairs.append((int(t.next()), int(t.next())))
            if kind == "K":  # which collections the two stores of the pair register: b(oth) l(ink) r(ef-counted) n(one)
                pkinds = (pkinds or []) + [t.next()]
        if kind == "K" and pkinds is None:
            pkinds = []
        uA, uB = t.ids(), t.ids()
        ntx = int(t.next())
        txs = []
        for _ in range(ntx):
            n = int(t.next())
            txs.append([parse_op(t, True) for _ in range(n)])
        return dict(kind="T", tag=kind, kids=kids, pairs=pairs, pkinds=pkinds, uA=uA, uB=uB, txs=txs)
    uA, uB = t.ids(), t.ids()
    if kind in ("H", "Z"):  # Z: a history whose ids sit at the key size limits of the storage
        ntx = int(t.next())
        txs = []
        for _ in range(ntx):
            n = int(t.next())
            txs.append([parse_op(t) for _ in range(n)])
        return dict(kind="H", tag=kind, uA=uA, uB=uB, txs=txs)
    sd, a = t.next(), t.next()
    cur, req, pre = t.ids(), t.ids(), t.ids()
    return dict(kind="S", uA=uA, uB=uB, sd=sd, a=a, cur=cur, req=req, pre=pre,
                txs=[[dict(kind="SL", sd=sd, a=a, keys=req, count=None)]])


def topo_text(case):
    s = ""
    for sd in "AB":
        s += "%d%s " % (len(case["kids"][sd]), "".join(" 1" if e else " 0" for e in case["kids"][sd]))
    pk = case.get("pkinds")
    return s + "%d%s" % (len(case["pairs"]), "".join(" %d %d" % p + ("" if pk is None else " " + pk[i])
                                                     for i, p in enumerate(case["pairs"])))


def history_text(case, txs):
    uA, uB = case["uA"], case["uB"]
    head = case.get("tag", "H") if case["kind"] != "T" else case.get("tag", "T") + " " + topo_text(case)
    s = "%s %d%s %d%s %d" % (head, len(uA), "".join(" " + x for x in uA), len(uB), "".join(" " + x for x in uB), len(txs))
    for tx in txs:
        s += " %d" % len(tx) + "".join(" " + op_text(op) for op in tx)
    return s


def id_len(h):
    """length in bytes of the id a case token stands for (<hex prefix>*<length> = the prefix padded with 'z')"""
    if "*" in h:
        return int(h.split("*")[1])
    return 0 if h == "-" else len(h) // 2


class LongId(str):
    def __repr__(self):
        return str(self)


def unhex(h):
    if "*" in h:
        pre, n = h.split("*")
        pre = "" if pre == "-" else bytes.fromhex(pre).decode("latin-1")
        return LongId("%r+'z'*%d (%s bytes)" % (pre, int(n) - len(pre), n))
    return "" if h == "-" else bytes.fromhex(h).decode("latin-1")


def key_too_large(op):
    """the operation has to write a link KEY for an id longer than the storage accepts (bbolt.MaxKeySize): it
    links - on one side or the other - an entity whose id has more than MAX_LINK_ID bytes"""
    k = op["kind"]
    writes = (k in ("AL", "SL", "CS", "US") and op["keys"]) or k in ("A1", "I") or (k == "SC" and op["count"] != 0)
    return bool(writes) and any(id_len(x) > MAX_LINK_ID for x in [op["a"]] + op["keys"])


def pretty_op(op):
    if op["kind"] in ("CS", "US"):
        return "%s[%s.%s](%r, links of pair %d = %r)" % (
            "Create" if op["kind"] == "CS" else "Update", op["sd"], "root" if op["w"] == 0 else "child%d" % op["w"],
            unhex(op["a"]), op["pair"], [unhex(k) for k in op["keys"]])
    names = dict(C="Create", D="Delete", AL="AddLinks", RL="RemoveLinks", SL="SetLinks", A1="AddLink", R1="RemoveLink",
                 I="IncrementLinkCount", DC="DecrementLinkCount", SC="SetLinkCount", DW="DeleteWhere")
    where = op["sd"]
    if op.get("w") is not None:
        if op["kind"] in ("C", "D", "DW"):  # the store the call goes through
            where += ".root" if op["w"] == 0 else ".child%d" % op["w"]
        else:
            where = "pair%d:%s" % (op["w"], op["sd"])
    if op["kind"] == "DW":
        return "DeleteWhere[%s](%s)" % (where, "true" if op["all"] else "id in %r" % [unhex(k) for k in op["keys"]])
    s = "%s[%s](%r" % (names[op["kind"]], where, unhex(op["a"]))
    if op["kind"] in ("AL", "RL", "SL"):
        s += ", %r" % [unhex(k) for k in op["keys"]]
    elif op["keys"]:
        s += ", %r" % unhex(op["keys"][0])
    if op["count"] is not None:
        s += ", %d" % op["count"]
    return s + ")"


def hist_bound(txs):
    m = 0
    for tx in txs:
        for op in tx:
            if op["kind"] == "I":
                m += 1
            elif op["kind"] == "SC":
                m = max(m, op["count"])
    return m


def in_guard(case):
    """the hypotheses of the theorems: non-negative SetLinkCount arguments, counts within int32"""
    for tx in case["txs"]:
        for op in tx:
            if op["kind"] == "SC" and op["count"] < 0:
                return False
    return hist_bound(case["txs"]) <= MAX_INT32


# ----------------------------------------------------------------------------- observations

def parse_list(s):
    return [] if s == "-" else s.split(".")


def parse_counts(s):
    out = {}
    for item in parse_list(s):
        k, _, v = item.partition("=")
        out[k] = v
    return out


def parse_hblock(block):
    """block of a T case -> (verdict, presence {A: [digits..], B: [..]}, [cell sides..]) ; cells None when malformed"""
    parts = block.split(" | ")
    toks = parts[0].split()
    if not toks:
        return "?", None, None
    pres = {"A": [], "B": []}
    cur = "A"
    for tok in toks[1:]:
        if tok == "/":
            cur = "B"
        elif tok.strip("01"):
            return toks[0], None, None
        else:
            pres[cur].append(tok)
    cells = []
    for part in parts[1:]:
        _, sides = parse_block("x " + part)
        if sides is None:
            return toks[0], pres, None
        cells.append(sides)
    return toks[0], pres, cells


KIND_NAMES = dict(b="a link collection and a ref-counted link collection", l="a link collection only",
                  r="a ref-counted link collection only", n="no collection")

def hier_oracle(case, pres, cells, guard):
    """the property clauses on the observation of a store hierarchy: every pair of collections by itself
    (an entity the collection's store does not hold is a missing entity for it), and the stores of one
    family agree on which entities exist"""
    for sd in "AB":
        for i, digits in enumerate(pres[sd]):
            if digits[0] != "1" and "1" in digits:
                return "C05:dangling-link", "%s[%d] is gone from the root store but a child store still holds it: levels %s" % (sd, i, digits)
    for p, sides in enumerate(cells):
        la, lb = case["pairs"][p] if p < len(case["pairs"]) else (0, 0)
        for sd, lv in (("A", la), ("B", lb)):
            for i, e in enumerate(sides[sd]):
                if i < len(pres[sd]) and lv < len(pres[sd][i]) and e["p"] != pres[sd][i][lv]:
                    return "C05:observers-disagree", "presence of %s[%d] in the store of pair %d differs from IsEntityPresent of level %d" % (sd, i, p, lv)
        hit = property_oracle(case, sides, guard)
        if hit:
            names = ["root store" if lv == 0 else "child store %d" % lv for lv in (la, lb)]
            pk = case.get("pkinds")
            reg = "" if pk is None or p >= len(pk) else "; both stores register %s for it" % KIND_NAMES.get(pk[p], pk[p])
            return hit[0], "collections of pair %d (A: %s, B: %s%s): %s" % (p, names[0], names[1], reg, hit[1])
    return None


def parse_block(block):
    """-> (verdict, {A: [entity...], B: [...]}) or (verdict, None) when the dump is not well formed"""
    toks = block.split()
    if not toks:
        return "?", None
    verdict = toks[0]
    sides = {"A": [], "B": []}
    cur = "A"
    for tok in toks[1:]:
        if tok == "/":
            cur = "B"
            continue
        f = tok.split(":")
        if len(f) != len(FIELDS):
            return verdict, None
        e = dict(zip(FIELDS, f))
        for k in LINK_FIELDS + ("cit",):
            e[k] = parse_list(e[k])
        for k in ("cs", "ct", "cg", "craw"):
            e[k] = parse_counts(e[k])
        sides[cur].append(e)
    return verdict, sides


def property_oracle(case, sides, guard):
    """the clauses of the property that can be read off one observation of the implementation;
    returns (key, text) of the first violated clause or None"""
    for sd, od in (("A", "B"), ("B", "A")):
        for i, e in enumerate(sides[sd]):
            name = "%s[%d]" % (sd, i)
            views = [sorted(e[k]) for k in LINK_FIELDS]
            if any(v != views[0] for v in views[1:]):
                return "C05:observers-disagree", "GetLinks / IsLinked / IterateLinks / raw bucket of %s differ: %s" % (name, views)
            if not (e["cs"] == e["cg"] == e["craw"]) or sorted(e["craw"]) != sorted(e["cit"]):
                return "C05:observers-disagree", "GetLinkCounts / GetLinkCount / raw count bucket / IterateLinks of %s differ: %s %s %s %s" % (
                    name, e["cs"], e["cg"], e["craw"], e["cit"])
            if e["p"] != "1" and (e["gl"] or e["craw"]):
                return "C05:dangling-link", "missing entity %s still has links %s counts %s" % (name, e["gl"], e["craw"])
            for j in e["gl"]:
                if not j.isdigit() or int(j) >= len(sides[od]):
                    return "C05:dangling-link", "%s is linked to an id outside the universe: %s" % (name, j)
                peer = sides[od][int(j)]
                if peer["p"] != "1":
                    return "C05:dangling-link", "%s is linked to the missing entity %s[%s]" % (name, od, j)
                if str(i) not in peer["gl"]:
                    return "C05:asymmetric-link", "%s holds %s[%s] but %s[%s] does not hold %s" % (name, od, j, od, j, name)
            for j, c in e["craw"].items():
                if not j.isdigit() or int(j) >= len(sides[od]):
                    return "C05:dangling-link", "%s counts an id outside the universe: %s" % (name, j)
                peer = sides[od][int(j)]
                if peer["p"] != "1":
                    return "C05:dangling-link", "%s holds a count for the missing entity %s[%s]" % (name, od, j)
                if peer["craw"].get(str(i)) != c:
                    return "C05:rc-count-mismatch", "%s holds count %s for %s[%s], which holds %s for it" % (
                        name, c, od, j, peer["craw"].get(str(i)))
                if e["ct"].get(j) != c:
                    return "C05:rc-count-mismatch", "GetLinkCounts(%s, %s[%s]) = (%s, %s)" % (name, od, j, c, e["ct"].get(j))
                try:
                    bad = int(c) <= 0
                except ValueError:
                    bad = True
                if bad and guard:
                    return "C05:rc-nonpositive", "%s holds the count %s for %s[%s]" % (name, c, od, j)
    return None


LINKING = ("AL", "SL", "A1", "I", "SC", "CS", "US")


SET_COUNT_KEY = "C05:set-link-count-storage-error-swallowed"


def classify(case, blocks_i, blocks_m):
    """first transaction whose observation differs -> (key, text, no_input) ; None when all agree.
    A violation whose transaction asks SetLinkCount to write a key the storage refuses is keyed by that input class
    (design/C05.md, candidate defect 4: TypedBucket.SetLinkCount drops the error of the failed Put)."""
    r = classify0(case, blocks_i, blocks_m)
    if r is not None and case.get("tag") == "Z" and not r[2]:
        for tx in case["txs"]:
            if any(o["kind"] == "SC" and key_too_large(o) for o in tx) and ("[%s]" % "; ".join(pretty_op(o) for o in tx)) in r[1]:
                return (SET_COUNT_KEY, r[1] + " (SetLinkCount reported success although the storage refused the key of one side)", r[2])
    return r


def classify0(case, blocks_i, blocks_m):
    guard = in_guard(case)
    prev = None
    refused = False  # Z cases: the storage refused a key, the model (which has no size limit) no longer applies
    for n, (bi, bm) in enumerate(zip(blocks_i, blocks_m)):
        if bi == bm and not refused:
            prev = bi
            continue
        if refused:
            # only the property clauses, on the implementation's own observation
            vi, si = parse_block(bi)
            tx = case["txs"][n] if n < len(case["txs"]) else []
            where = "transaction %d [%s]" % (n, "; ".join(pretty_op(o) for o in tx))
            if si is None:
                return "C05:observer-failure", "the observers failed after %s: %s" % (where, bi[:300]), False
            hit = property_oracle(case, si, guard)
            if hit:
                return hit[0], "after %s: %s" % (where, hit[1]), False
            if vi.startswith("f") and prev is not None and bi.split(None, 1)[1:] != prev.split(None, 1)[1:]:
                return "C05:failed-tx-changed-state", "the failed %s changed the link state" % where, False
            prev = bi
            continue
        hier = case["kind"] == "T"
        if hier:
            vi, pi, ci = parse_hblock(bi)
            vm, pm, cm = parse_hblock(bm)
            si = None if ci is None else dict((sd, [dict(e, p=e["p"] + "@%d" % k) for k, c in enumerate(ci) for e in c[sd]] +
                                                    [dict(p=d, gl=[]) for d in pi[sd]]) for sd in "AB")
        else:
            vi, si = parse_block(bi)
            vm, _ = parse_block(bm)
        tx = case["txs"][n] if n < len(case["txs"]) else []
        where = "transaction %d [%s]" % (n, "; ".join(pretty_op(o) for o in tx))
        if si is None:
            return "C05:observer-failure", "the observers failed after %s: %s" % (where, bi[:300]), False
        hit = hier_oracle(case, pi, ci, guard) if hier else property_oracle(case, si, guard)
        if hit:
            return hit[0], "after %s: %s" % (where, hit[1]), False
        if vi != vm:
            if vm.startswith("f") and (vi == "ok" or (vi.startswith("f") and int(vi[1:]) > int(vm[1:]))):
                op = tx[int(vm[1:])]
                if op["kind"] in LINKING:
                    return ("C05:missing-entity-accepted", "%s must fail (it links from or to an entity that does not exist) but returned no error in %s"
                            % (pretty_op(op), where), False)
                return "C05:error-expected", "%s must fail but returned no error in %s" % (pretty_op(op), where), False
            if vi.startswith("f") and case.get("tag") == "Z" and int(vi[1:]) < len(tx) and key_too_large(tx[int(vi[1:])]):
                # the storage cannot hold the key of one side: refusing the operation is the only symmetric answer;
                # the transaction must then leave everything as it was
                if prev is not None and bi.split(None, 1)[1:] != prev.split(None, 1)[1:]:
                    return "C05:failed-tx-changed-state", "the failed %s changed the link state" % where, False
                refused = True
                prev = bi
                continue
            if vi.startswith("f"):
                return ("C05:spurious-error", "%s failed although every entity it names exists, in %s (model: %s)"
                        % (pretty_op(tx[int(vi[1:])]) if int(vi[1:]) < len(tx) else "?", where, vm), False)
            return "C05:transaction-failure", "transaction outcome %s (expected %s) in %s" % (vi, vm, where), False
        if vi.startswith("f") and prev is not None and bi.split(None, 1)[1:] != prev.split(None, 1)[1:]:
            return "C05:failed-tx-changed-state", "the failed %s changed the link state" % where, False
        kinds = set(o["kind"] for o in tx)
        if hier:
            sm = dict((sd, [dict(e, p=e["p"] + "@%d" % k) for k, c in enumerate(cm) for e in c[sd]] +
                           [dict(p=d, gl=[]) for d in pm[sd]]) for sd in "AB")
        else:
            _, sm = parse_block(bm)
        links_differ = any(ei["gl"] != em["gl"] or ei["p"] != em["p"] for sd in "AB" for ei, em in zip(si[sd], sm[sd]))
        if links_differ and "SL" in kinds:
            return "C05:set-links-inexact", "after %s the link sets are not the requested ones: impl %s expected %s" % (where, bi[:400], bm[:400]), False
        if links_differ:
            return "C05:wrong-link-set", "after %s the link sets are wrong: impl %s expected %s" % (where, bi[:400], bm[:400]), False
        if not guard:
            # counts beyond int32 / negative counts are outside the theorems: the wrap-around model no longer matches the code
            return ("C05:correspondence-int32", "outside the int32 guard of the theorems the model and the code differ in %s: impl %s model %s"
                    % (where, bi[:300], bm[:300]), True)
        return "C05:wrong-count", "after %s the link counts are wrong: impl %s expected %s" % (where, bi[:400], bm[:400]), False
    if len(blocks_i) != len(blocks_m):
        return "C05:correspondence", "different number of transaction observations", True
    return None


# ----------------------------------------------------------------------------- running both sides

def run_both(c, harness, model, lines, tag):
    """run the given case lines on the real code and on the model -> (impl lines, model lines)"""
    d = os.path.join(c.work, tag)
    os.makedirs(d, exist_ok=True)
    rin = os.path.join(d, "in.txt")
    with open(rin, "w") as f:
        f.write("\n".join(lines) + "\n")
    rc, out = vlib.run([harness, "c05", "--out", d, "--replaycase", rin], timeout=600)
    if rc != 0:
        raise RuntimeError("harness replay failed: " + out[-500:])
    impl = vlib.read_lines(os.path.join(d, "impl.txt"))
    modl = vlib.run_model(model, "c05", os.path.join(d, "cases.txt"), os.path.join(d, "model.txt"))
    return impl, modl


def shrink(c, harness, model, case, key):
    """greedy one-at-a-time removal of transactions / operations / list elements, keeping the same
    violation key; every round runs all candidates in one harness + one model invocation"""
    if case["kind"] not in ("H", "T"):
        return case, None
    txs = [list(tx) for tx in case["txs"]]
    rounds = 0
    best = None
    t0 = time.time()
    while rounds < 60 and time.time() - t0 < 90:
        rounds += 1
        cands = []
        for i in range(len(txs)):
            cands.append(txs[:i] + txs[i + 1:])
        small = sum(len(tx) + sum(len(o["keys"]) for o in tx) for tx in txs) <= 120
        for i, tx in enumerate(txs):
            if not small:
                break
            for j in range(len(tx)):
                if len(tx) > 1:
                    cands.append(txs[:i] + [tx[:j] + tx[j + 1:]] + txs[i + 1:])
                if i + 1 < len(txs) or j + 1 < len(tx):
                    # move the operation into a transaction of its own is not tried; split instead
                    pass
                op = tx[j]
                if op["kind"] in ("AL", "RL", "SL", "CS", "US") or (op["kind"] == "DW" and len(op["keys"]) > 1):
                    for k in range(len(op["keys"])):
                        op2 = dict(op, keys=op["keys"][:k] + op["keys"][k + 1:])
                        cands.append(txs[:i] + [tx[:j] + [op2] + tx[j + 1:]] + txs[i + 1:])
        cands = [x for x in cands if x]
        if not cands:
            break
        lines = [history_text(case, x) for x in cands]
        try:
            impl, modl = run_both(c, harness, model, lines, "shrink")
        except Exception:
            break
        found = None
        for x, line, i, m in zip(cands, lines, impl, modl):
            if i == m:
                continue
            cc = dict(case, txs=x)
            r = classify(cc, i.split(" ; "), m.split(" ; "))
            if r and r[0] == key:
                found = (x, line, i, m, r)
                break
        if not found:
            break
        txs = found[0]
        best = found
    if best is None:
        return case, None
    return dict(case, txs=txs), best


def main(argv):
    c = vlib.Check(PID, argv)
    c.cov["trusted_base"] = [
        "Coq 8.16.1 kernel (coqc; coqchk in the thorough tier); vm_compute in Examples only; no axioms",
        "hand-written models Links/LinkModel.v, SetLinksMerge.v, RefCount.v, LinkMachine.v of boltz/link_collection.go, "
        "link_collection_rc.go, the link-count functions of typed_bucket.go and cleanupLinks/DeleteById of store_crud.go; "
        "Links/HierMachine.v of Create / DeleteById / processDeleteConstraints / cleanupLinks (store.links, store.refCountedLinks) / "
        "GetEntityBucket for child stores (store_crud.go, store.go); Links/HierWhere.v of DeleteWhere (which entities the scan of a "
        "root / child / Extended child store yields: query_scanners.go, compared, not verified)",
        "bbolt: sorted key/bucket store, cursor order = byte order, rollback of a failed Update (compared, not verified)",
        "extraction (ExtrOcamlBasic only) + extraction/c05_driver.ml + drv_common.ml",
        "Go harness cmd/storageharness/c05.go, c05_hier.go (store definitions, generators, observers) and this comparison",
    ]
    c.assumptions = [
        "every error returned by a link operation aborts its bolt transaction (the model does not represent the writes a failing operation made before it failed)",
        "SetLinkCount is not called with a negative count (documented API misuse) and counts stay within int32 (machine bound of the payload)",
        "entity ids are non-empty; the two stores are distinct (no self-links)",
        "store hierarchies have two levels (root store and its child stores); a child store of a child store is not modelled (design/C05.md, candidate defects)",
        "a collection is declared on both of its stores or on neither (a one-sided declaration is a definition error: design/C05.md, candidate defects)",
    ]
    proof_ok = c.proof_step(FILES)
    try:
        model = vlib.build_model("C05")
    except Exception as e:  # the model does not build: nothing can be compared
        c.violation("C05:model-build", "the extracted model does not build: %s" % str(e)[-600:],
                    dict(correspondence="model build", log=str(e)[-3000:]), no_input=True)
        return c.finish()
    harness, err = vlib.build_harness()
    if harness is None:
        c.violation("C05:harness-build", "harness does not build against the repository: " + err[-800:],
                    dict(correspondence="harness build", log=err[-3000:]), no_input=True)
        return c.finish()

    cases_path = os.path.join(c.work, "cases.txt")
    if c.replay:
        rp = json.load(open(c.replay))
        rin = os.path.join(c.work, "replay_in.txt")
        with open(rin, "w") as f:
            f.write(rp["case"] + "\n")
        args = [harness, "c05", "--out", c.work, "--replaycase", rin]
    else:
        args = [harness, "c05", "--seed", str(c.seed), "--tier", c.tier, "--out", c.work]
    rc, out = vlib.run(args, timeout=3000)
    if rc != 0:
        c.violation("C05:harness-run", "harness failed rc=%s: %s" % (rc, out[-500:]),
                    dict(correspondence="harness run", log=out[-3000:]), no_input=True)
        return c.finish()
    cases = vlib.read_lines(cases_path)
    impl = vlib.read_lines(os.path.join(c.work, "impl.txt"))
    modl = vlib.run_model(model, "c05", cases_path, os.path.join(c.work, "model.txt"))
    assert len(cases) == len(impl) == len(modl), (len(cases), len(impl), len(modl))

    distinct = set()
    differing = 0
    reported = {}
    kinds = {"H": 0, "S": 0, "T": 0, "K": 0, "Z": 0}
    txs_total = 0
    out_of_guard = 0
    for line, i, m in zip(cases, impl, modl):
        kinds[line[0]] = kinds.get(line[0], 0) + 1
        bi = i.split(" ; ")
        txs_total += len(bi)
        # non-trivial: some transaction committed a state with at least one link or count
        if any(b.startswith("ok") and ("=" in b or any(f.split(":")[1] != "-" for f in b.split()[1:] if ":" in f)) for b in bi):
            distinct.add(line)
        if i == m:
            continue
        differing += 1
        case = parse_case(line)
        if not in_guard(case):
            out_of_guard += 1
        r = classify(case, bi, m.split(" ; "))
        if r is None:
            continue
        key, text, no_input = r
        if reported.get(key, 0) >= 2:
            continue
        reported[key] = reported.get(key, 0) + 1
        replay = dict(case=line, impl=i, model=m)
        if not no_input and not c.replay:
            small, best = shrink(c, harness, model, case, key)
            if best is not None:
                _, sline, si, sm, sr = best
                replay = dict(case=sline, impl=si, model=sm, original_case=line)
                text = sr[1]
            replay["history"] = [[pretty_op(o) for o in tx] for tx in (small["txs"] if best is not None else case["txs"])]
        if no_input:
            replay["correspondence"] = "Links/*.v vs boltz link collections"
            replay["theorems"] = ["rc_counts_agree_positive"]
        c.violation(key, text, replay, no_input=no_input)

    if c.replay:
        for line, i, m in zip(cases, impl, modl):
            case = parse_case(line)
            vlib.log("REPLAY case=%s" % line)
            for n, tx in enumerate(case["txs"]):
                vlib.log("  tx %d: %s" % (n, "; ".join(pretty_op(o) for o in tx)))
            for n, (a, b) in enumerate(zip(i.split(" ; "), m.split(" ; "))):
                vlib.log("  tx %d impl =%s\n  tx %d model=%s%s" % (n, a, n, b, "" if a == b else "   <-- differ"))
    c.cov["evaluations"] = len(cases)
    c.cov["distinct_nontrivial"] = len(distinct)
    c.cov["disagreements_checked"] = differing
    c.cov["transactions_observed"] = txs_total
    c.cov["case_kinds"] = kinds
    c.cov["rule"] = ("S: bounded-exhaustive SetLinks - every subset of the existing peer ids as current set x every requested list "
                     "(with repetitions, incl. ids of missing entities) up to length 4 (5 in the thorough tier) over universes of 3-5 ids, "
                     "executed and observed inside a transaction on a committed base state; H: seeded random histories of 1-40 operations "
                     "in several committed/rolled-back transactions over universes of 1-5 ids per side (ids with common prefixes, NUL and "
                     "0xff bytes), weighted toward collisions: duplicate links, removing absent links, SetLinks permutations with "
                     "repetition, links to missing and to never-created entities, decrement below zero, SetLinkCount 0, deleting either end, "
                     "re-creating after delete, rare int32 boundary counts. T: seeded random histories over parent/child store hierarchies "
                     "(10 fixed topologies + random ones: 0-2 plain/extended child stores per side, 1-3 collection pairs on stores of any "
                     "level), creates and deletes through any store of a family, the link/count operations on every pair, scripted "
                     "link-then-delete-either-end transactions. K: the same with the kinds of collection a pair's stores register varied "
                     "(16 fixed topologies + random: only ref-counted, only plain, both, several of one kind, none, at root and child "
                     "level), operations mostly on collections that exist (3 % refused ones), DeleteWhere(true | id = | id in) through "
                     "any store next to DeleteById, scripted link-through-every-pair-then-delete transactions. Non-trivial: some transaction committed a state holding at "
                     "least one link or count; distinct by case text")
    idx = sorted(set((0, min(len(cases) - 1, kinds.get("S", 0)), len(cases) // 2, len(cases) - 1)))
    c.cov["samples"] = [dict(case=cases[k][:600], impl=impl[k][:600], model=modl[k][:600]) for k in idx]
    try:
        c.cov["input_distribution"] = json.load(open(os.path.join(c.work, "stats.json")))
    except Exception:
        pass
    if not proof_ok:
        c.violation("C05:proof", "proof obligation no longer checks: %s" % json.dumps(c.proof_broken)[:600],
                    dict(broken=c.proof_broken), no_input=True)
    return c.finish()
