"""C09 - integrity check: sound, complete, read-only in check mode, convergent in fix.

Proof: coq/theories/Properties/C09.v over the executable checker model Store/Integrity.v (which runs
on ARBITRARY values of the store machine's state).
Correspondence: a consistent database reached by a seeded history through the shared store harness,
a subset of raw corruptions committed below the API, then CheckIntegrity of every store: check-only
in a read-only and in a write transaction, fix, re-check.  Report kinds + fixed flags (as a multiset)
and the facts of the bolt file after every phase are compared with the extracted model; the property's
own oracle (an independent consistency evaluation of the facts) is applied to the implementation's
observation."""
import json
import os
from collections import Counter

import storefam
import vlib

PID = "C09"
FILES = ["theories/Properties/C09.v", "theories/Examples/C09Examples.v",
         "theories/Properties/C09Reachable.v", "theories/Examples/C09ReachableExamples.v",
         "theories/Examples/C09Wirings.v", "theories/Properties/C09Extra.v", "theories/Examples/C09PrefixExamples.v"]
UNFIXABLE = {"KUConflict", "KNil", "KFkDangling"}
ORDER_KEY = "C09:fix-order-unique-on-nullable-fk"
# a fix run that removes an entry from a bucket which was already written in the same transaction skips the entry behind
# it (bbolt: Cursor.Delete / Bucket.Delete under an open cursor + Next on a materialised node).  Input classes in which the
# fix run meets such buckets by construction: the raw corruption writes sit in the transaction of the fix run (modes CJ,
# LCJ with at least one corruption), and the witnesses of corpus/store/c09_dirty.txt (design/C09.md section 10)
DIRTY_KEY = "C09:fix-skips-after-delete-in-written-bucket"
CONVERGENCE_KEYS = ("C09:fix-not-convergent", "C09:fix-leaves-inconsistency")


def parse_phases(line):
    out = {}
    for seg in line.split(" | "):
        seg = seg.strip()
        if not seg:
            continue
        t = seg.split()
        r, st = t.index("R"), t.index("ST")
        out[t[0]] = dict(status=t[1], flags=t[2:r], reports=t[r + 1:st], facts=t[st + 1:])
    return out


def set_index_symbols(sch):
    s = set()
    for name in sch.order:
        for c in sch.stores[name]["cons"]:
            if c[0] == "SI":
                s.add((sch.root(name), c[1]))
    return s


def split_junk(sch, facts):
    """a non-bucket key inside a set-index bucket shows up as a U fact of a set-index symbol: not representable
    in the model state -> compared separately (read-only in check mode, removed by fix)"""
    si = set_index_symbols(sch)
    junk, rest = [], []
    for f in facts:
        p = f.split(":")
        if p[0] == "U" and (p[1], p[2]) in si:
            junk.append(f)
        else:
            rest.append(f)
    return rest, junk


def links_oracle(sch, facts):
    probs = []
    ents, setm = {}, {}
    for f in facts:
        p = f.split(":")
        if p[0] == "E":
            ents.setdefault(p[1], set()).add(p[2])
        elif p[0] == "S":
            setm.setdefault((p[1], p[2], p[3]), set()).add(p[4])
    for sname in sch.order:
        root = sch.root(sname)
        for lf, other, of in sch.stores[sname]["links"]:
            oroot = sch.root(other)
            for i in ents.get(root, ()):
                for x in setm.get((root, i, lf), ()):
                    if x not in ents.get(oroot, ()):
                        probs.append("link %s.%s: %s -> missing %s %s" % (sname, lf, i, other, x))
                    elif i not in setm.get((oroot, x, of), ()):
                        probs.append("link %s.%s: %s -> %s without reverse entry" % (sname, lf, i, x))
    return probs


def nonnull_oracle(sch, facts):
    """nil / empty value in a non-nullable unique index, fk index or fk constraint (genuine conflict)"""
    probs = []
    ents, fvals, child = {}, {}, set()
    for f in facts:
        p = f.split(":")
        if p[0] == "E":
            ents.setdefault(p[1], set()).add(p[2])
        elif p[0] == "F":
            fvals[(p[1], p[2], p[3])] = p[4]
        elif p[0] == "CF":
            fvals[(p[1], p[2], p[3] + "." + p[4])] = p[5]
        elif p[0] == "C":
            child.add((p[1], p[2], p[3]))
    for sname in sch.order:
        sd = sch.stores[sname]
        root = sch.root(sname)
        for c in sd["cons"]:
            if c[0] in ("U", "FI", "FC") and not c[-1]:
                field = c[1]
                for i in ents.get(root, ()):
                    if sd["parent"]:
                        if (root, i, sname) not in child:
                            continue
                        own = any(fn == field for fn, _ in sd["fields"])
                        v = fvals.get((root, i, sname + "." + field if own else field), "absent")
                    else:
                        v = fvals.get((root, i, field), "absent")
                    if not (v.startswith("s") and v != "s-") and not v.startswith("b"):
                        probs.append("non-nullable %s.%s: entity %s holds %s" % (sname, field, i, v))
    return probs


def child_fk_oracle(sch, facts):
    """C04's statements for fk indexes / fk constraints declared on a CHILD store over a field of its own (the referrers
    are the entities with data of that child store, the field lives in the child bucket); storefam.fk_oracle reads root
    fields only and is used for the constraints of root stores"""
    probs = []
    ents, fvals, setm, child = {}, {}, {}, set()
    for f in facts:
        p = f.split(":")
        if p[0] == "E":
            ents.setdefault(p[1], set()).add(p[2])
        elif p[0] == "CF":
            fvals[(p[1], p[2], p[3], p[4])] = p[5]
        elif p[0] == "S":
            setm.setdefault((p[1], p[2], p[3]), set()).add(p[4])
        elif p[0] == "C":
            child.add((p[1], p[2], p[3]))
    for sname in sch.order:
        sd = sch.stores[sname]
        if not sd["parent"]:
            continue
        root = sch.root(sname)
        for c in sd["cons"]:
            if c[0] in ("FI", "FC") and any(fn == c[1] for fn, _ in sd["fields"]):
                field, target = c[1], c[2]
                troot = sch.root(target)
                refs = {}
                for i in ents.get(root, ()):
                    if (root, i, sname) not in child:
                        continue
                    v = fvals.get((root, i, sname, field), "absent")
                    if v.startswith("s") and v != "s-":
                        t = v[1:]
                        if t not in ents.get(troot, ()):
                            probs.append("fk %s.%s: entity %s references missing %s %s" % (sname, field, i, target, t))
                        refs.setdefault(t, set()).add(i)
                if c[0] == "FI":
                    back = c[3]
                    for t in ents.get(troot, ()):
                        have = setm.get((troot, t, back), set())
                        want = refs.get(t, set())
                        if have != want:
                            probs.append("fk %s.%s: back-references %s.%s of %s are %s, referrers are %s" % (
                                sname, field, target, back, t, sorted(have), sorted(want)))
    return probs


class RootView:
    """the schema without the fk constraints that child stores declare on their own fields (judged by child_fk_oracle)"""

    def __init__(self, sch):
        self.order = sch.order
        self.stores = {}
        for n, sd in sch.stores.items():
            own = set(fn for fn, _ in sd["fields"]) if sd["parent"] else set()
            d = dict(sd)
            d["cons"] = [c for c in sd["cons"] if not (c[0] in ("FI", "FC") and c[1] in own)]
            self.stores[n] = d

    def root(self, s):
        return self.stores[s]["parent"] or s


def consistency_problems(sch, facts):
    """the property's own reading of 'consistent': C03 + C04 + C05 mirror statements on the raw facts"""
    return (storefam.index_oracle(sch, facts) + storefam.fk_oracle(RootView(sch), facts) + child_fk_oracle(sch, facts)
            + links_oracle(sch, facts) + nonnull_oracle(sch, facts))


def genuine_conflict(sch, p):
    """duplicate unique values, nil in a non-nullable field, dangling reference in a NON-nullable fk"""
    if "held by several entities" in p or p.startswith("non-nullable"):
        return True
    if p.startswith("fk ") and "references missing" in p:
        sname, field = p[3:p.index(":")].split(".")
        for c in sch.stores[sname]["cons"]:
            if c[0] in ("FI", "FC") and c[1] == field:
                return not c[-1]
    return False


MODES = {"": "every step in a transaction of its own",
         "J": "corruptions committed; check-only, fix and re-check inside ONE write transaction",
         "CJ": "raw corruptions, check-only, fix and re-check inside ONE write transaction (nothing committed in between)",
         "LCJ": "the last transaction of the history, the raw corruptions, check-only, fix and re-check inside ONE write "
                "transaction (the checker runs in the transaction that wrote the entities, before commit)"}


def case_mode(case):
    k = case.rfind(" MODE ")
    return case[k + 6:].strip() if k >= 0 else ""


def oracle(sch, io, mode=""):
    """direct verdicts on the implementation's observation: list of (key, description)"""
    out = []
    where = (" [%s]" % MODES[mode]) if mode else ""
    rep = lambda key, what: out.append((key, what + where))
    pre = io["PRE"]["facts"]
    ckr_readonly = mode in ("", "J")     # in the other modes the first check-only run sits in the write transaction too
    # read-only in check mode (both transaction kinds), and a read-only transaction must be usable
    for tag in ("CKR", "CKW"):
        ph = io[tag]
        if ph["status"] != "ok":
            ro = tag == "CKR" and ckr_readonly
            rep("C09:check-only-fails-%s" % ("readonly-tx" if ro else "write-tx"),
                "check-only CheckIntegrity in a %s transaction ended with %s" % ("read-only" if ro else "write", ph["status"]))
        if ph["facts"] != pre:
            rep("C09:check-only-changed-db", "check-only mode changed the database: +%s -%s" % (
                sorted(set(ph["facts"]) - set(pre))[:4], sorted(set(pre) - set(ph["facts"]))[:4]))
        elif "RAWCHANGED" in ph["flags"]:
            rep("C09:check-only-changed-db-raw", "check-only mode wrote to the database file (buckets created; same facts, different byte-exact dump)")
        if any(r.endswith(":1") for r in ph["reports"]):
            rep("C09:check-only-reports-fixed", "check-only mode reported an inconsistency as fixed: %s" % ph["reports"])
    # sound + complete, judged by the independent consistency evaluation of the facts
    facts_nj, junk = split_junk(sch, pre)
    probs = consistency_problems(sch, facts_nj)
    for tag in ("CKR", "CKW"):
        ph = io[tag]
        if ph["status"] != "ok":
            continue
        if not probs and not junk and ph["reports"]:
            rep("C09:sound-false-report", "the database is consistent but check-only reports %s" % ph["reports"][:6])
        if (probs or junk) and not ph["reports"]:
            rep("C09:complete-missed", "inconsistencies (%s) but check-only reports nothing" % "; ".join((probs + junk)[:3]))
    # convergence of fix
    fx, rck = io["FIX"], io["RCK"]
    if fx["status"] == "ok" and rck["status"] == "ok":
        left = [r for r in rck["reports"] if r.split(":")[0] not in UNFIXABLE or r.endswith(":1")]
        if left:
            rep("C09:fix-not-convergent", "after a fix run the re-check still reports repairable inconsistencies: %s" % left[:6])
        after_nj, after_junk = split_junk(sch, fx["facts"])
        rest = [p for p in consistency_problems(sch, after_nj) if not genuine_conflict(sch, p)] + after_junk
        if rest:
            rep("C09:fix-leaves-inconsistency", "after a fix run the indexes do not mirror the entities: %s" % "; ".join(rest[:3]))
        if not rck["reports"] and consistency_problems(sch, after_nj):
            rep("C09:complete-missed", "re-check is clean but the database is inconsistent: %s" % "; ".join(consistency_problems(sch, after_nj)[:3]))
        if rck["facts"] != fx["facts"]:
            rep("C09:check-only-changed-db", "the re-check changed the database")
    elif fx["status"] != "ok":
        rep("C09:fix-fails", "fix run ended with " + fx["status"])
    if fx["status"] == "ok" and fx["facts"] != io["CKW"]["facts"] and not any(r.endswith(":1") for r in fx["reports"]):
        rep("C09:fix-without-report", "the fix run changed the database without reporting anything as fixed: +%s -%s" % (
            sorted(set(fx["facts"]) - set(io["CKW"]["facts"]))[:4], sorted(set(io["CKW"]["facts"]) - set(fx["facts"]))[:4]))
    # joint modes: the verdict given inside the transaction must be the verdict on what the transaction commits
    post = io.get("POST")
    if post is not None and rck["status"] == "ok":
        if post["status"] != "ok":
            rep("C09:check-only-fails-readonly-tx", "check-only CheckIntegrity in a read-only transaction after the commit ended with " + post["status"])
        elif post["facts"] != rck["facts"]:
            rep("C09:commit-differs", "the committed database differs from what the transaction saw: +%s -%s" % (
                sorted(set(post["facts"]) - set(rck["facts"]))[:4], sorted(set(rck["facts"]) - set(post["facts"]))[:4]))
        elif sorted(post["reports"]) != sorted(rck["reports"]):
            rep("C09:verdict-depends-on-commit", "check-only inside the write transaction reported %s, the same check on the same "
                "content right after the commit reports %s" % (rck["reports"][:6], post["reports"][:6]))
    seen, uniq = set(), []
    for k, w in out:
        if k not in seen:
            seen.add(k)
            uniq.append((k, w))
    return uniq


CORR_ARITY = {"UD": 4, "SDK": 4, "SAK": 4, "SJ": 4, "FN": 4, "UP": 5, "SDI": 5, "SAI": 5, "ED": 5, "EA": 5, "FS": 5,
              "EDB": 4, "EEB": 4, "SEK": 4, "XDB": 3, "XEB": 3, "CFS": 6, "CFN": 5}


def split_case(case):
    """-> (schema text, [tx texts], [corruption texts]); the MODE suffix is dropped (case_mode)"""
    k = case.rfind(" MODE ")
    if k >= 0:
        case = case[:k]
    body, _, corr = case.partition(" CORRUPT ")
    parts = body.split(" TX ")
    toks = corr.split()[1:] if corr else []
    cs, i = [], 0
    while i < len(toks):
        n = CORR_ARITY[toks[i]]
        cs.append(" ".join(toks[i:i + n]))
        i += n
    return parts[0], parts[1:], cs


def join_case(schema, txs, cs, mode=""):
    return (schema + "".join(" TX " + t for t in txs) + " CORRUPT %d" % len(cs) + "".join(" " + x for x in cs)
            + (" MODE " + mode if mode else ""))


def split_ops(tx):
    """a transaction text (without the leading 'TX ') -> (header tokens, [op token lists])"""
    t = tx.split()
    nv = int(t[2])
    pos = 3 + 3 * nv
    head = t[:pos]
    n = int(t[pos])
    pos += 1
    ops = []

    def fvsv(pos):
        nf = int(t[pos])
        pos += 1 + 2 * nf
        ns = int(t[pos])
        pos += 1
        for _ in range(ns):
            pos += 2 + int(t[pos + 1])
        return pos

    for _ in range(n):
        start = pos
        k = t[pos]
        if k == "C":
            pos = fvsv(pos + 4)
        elif k == "UP":
            pos = fvsv(pos + 3)
            pos += 1 if t[pos] == "-" else 1 + int(t[pos])
        elif k == "D":
            pos += 3
        elif k in ("AL", "RL"):
            pos += 5 + int(t[pos + 4])
        elif k == "FAIL":
            pos += 1
        elif k == "FAILT":
            pos += 3
        else:
            raise ValueError("bad op " + k)
        ops.append(t[start:pos])
    return head, ops


def join_ops(head, ops):
    return " ".join(head + [str(len(ops))] + [x for o in ops for x in o])


def run_one(c, harness, case):
    d = os.path.join(c.work, "shrink")
    os.makedirs(d, exist_ok=True)
    with open(os.path.join(d, "in.txt"), "w") as f:
        f.write(case + "\n")
    rc, out = vlib.run([harness, "c09", "--out", d, "--tmp", d, "--corpus", os.path.join(d, "in.txt"), "--only-corpus", "1"], timeout=120)
    if rc != 0:
        return None
    lines = vlib.read_lines(os.path.join(d, "impl.txt"))
    return lines[0] if lines else None


def shrink(c, harness, case, key, budget=60):
    """greedy one-at-a-time removal of corruptions, then of transactions, keeping the same violation key"""
    accept = CONVERGENCE_KEYS if key == DIRTY_KEY else (key,)
    schema, txs, cs = split_case(case)
    mode = case_mode(case)
    sch = storefam.Schema(schema.split())
    best_impl = None

    def still(txs2, cs2):
        nonlocal budget, best_impl
        if budget <= 0:
            return False
        budget -= 1
        obs = run_one(c, harness, join_case(schema, txs2, cs2, mode))
        if obs is None:
            return False
        try:
            keys = [k for k, _ in oracle(sch, parse_phases(obs), mode)]
        except Exception:
            return False
        if any(k in keys for k in accept):
            best_impl = obs
            return True
        return False

    changed = True
    while changed and budget > 0:
        changed = False
        for k in range(len(cs) - 1, -1, -1):
            cand = cs[:k] + cs[k + 1:]
            if still(txs, cand):
                cs, changed = cand, True
        # in the LCJ mode the last transaction is the live one: it stays, its operations are removed one by one
        last = len(txs) - 1 if mode == "LCJ" else len(txs)
        for k in range(last - 1, -1, -1):
            cand = txs[:k] + txs[k + 1:]
            if still(cand, cs):
                txs, changed = cand, True
        if mode == "LCJ" and txs:
            try:
                head, ops = split_ops(txs[-1])
            except Exception:
                ops = []
            for k in range(len(ops) - 1, -1, -1):
                cand = txs[:-1] + [join_ops(head, ops[:k] + ops[k + 1:])]
                if still(cand, cs):
                    txs, ops, changed = cand, ops[:k] + ops[k + 1:], True
    return join_case(schema, txs, cs, mode), best_impl


def compare(sch, io, mo):
    for tag in ("PRE", "CKR", "CKW", "FIX", "RCK"):
        a, b = io[tag], mo[tag]
        fa, _ = split_junk(sch, a["facts"])
        if a["status"] != b["status"]:
            return "%s: status impl %s vs model %s" % (tag, a["status"], b["status"])
        ra = sorted(r for r in a["reports"] if not r.startswith("KSJunk"))
        if ra != sorted(b["reports"]):
            ca, cb = Counter(ra), Counter(b["reports"])
            return "%s: report kinds differ: only impl %s ; only model %s" % (tag, sorted((ca - cb).elements()), sorted((cb - ca).elements()))
        if fa != b["facts"]:
            return "%s: facts differ: only impl %s ; only model %s" % (tag, sorted(set(fa) - set(b["facts"]))[:5], sorted(set(b["facts"]) - set(fa))[:5])
    return None


def main(argv):
    c = vlib.Check(PID, argv)
    c.cov["trusted_base"] = [
        "Coq 8.16.1 kernel (coqc; coqchk in the thorough tier); vm_compute in Examples only; no axioms",
        "hand-written checker model coq/theories/Store/Integrity.v over the state of the shared store machine Store/Model.v",
        "bbolt as a transactional key/bucket store; cursor deletes of committed keys do not disturb the scan (observed by the correspondence)",
        "extraction (ExtrOcamlBasic only) + extraction/c09_driver.ml + drv_common.ml",
        "Go harness store.go / store_gen.go / store_c09.go (schema interpreter, history generator, raw corruption writer, fact projection, "
        "message-to-kind mapping) and lib/storefam.py + checks/c09.py (independent consistency oracle)",
    ]
    c.assumptions = ["the model visits every entry of a bucket (boltz did not when a fix run removed an entry from a bucket already written in its own "
                     "transaction - bbolt skip-after-delete, repaired in /repo: 'fixed' entry " + DIRTY_KEY + ", design/C09.md section 10.4; the key is "
                     "reported as a violation again if the behaviour returns)",
                     "fix_convergent / reachable_check_clean do not cover fk jobs declared on child stores (wiring C09xf): tested there, not proved",
                     "storage errors (over-long keys) during a fix are not modelled"]
    proof_ok = c.proof_step(FILES)
    model = vlib.build_model("C09")
    harness, err = vlib.build_harness()
    if harness is None:
        c.violation(PID + ":harness-build", "harness does not build against the repository: " + err[-800:],
                    dict(correspondence="harness build", log=err[-3000:]), no_input=True)
        return c.finish()
    cases_path = os.path.join(c.work, "cases.txt")
    dirty_cases = set()
    if c.replay:
        rp = json.load(open(c.replay))
        rin = os.path.join(c.work, "replay_in.txt")
        with open(rin, "w") as f:
            f.write(rp["case"] + "\n")
        args = [harness, "c09", "--out", c.work, "--tmp", c.work, "--corpus", rin, "--only-corpus", "1"]
    else:
        args = [harness, "c09", "--seed", str(c.seed), "--tier", c.tier, "--out", c.work, "--tmp", c.work]
        # corpus: defect reproductions / stress cases, then the order-dependence witness (known finding)
        merged = os.path.join(c.work, "corpus.txt")
        ncorpus = 0
        with open(merged, "w") as f:
            for name in ("c09.txt", "c09_order.txt", "c09_w3.txt", "c09_w5.txt", "c09_dirty.txt"):
                cp = os.path.join(vlib.VERIF, "corpus", "store", name)
                if os.path.exists(cp):
                    text = open(cp).read()
                    k = sum(1 for l in text.split("\n") if l.strip() and not l.strip().startswith("#"))
                    if name == "c09_dirty.txt":
                        dirty_cases = set(range(ncorpus, ncorpus + k))
                    ncorpus += k
                    f.write(text + "\n")
        args += ["--corpus", merged]
    gen = dict(seed=c.seed, tier=c.tier)
    rc, out = vlib.run(args, timeout=3000)
    if rc != 0:
        c.violation(PID + ":harness-run", "harness failed rc=%s: %s" % (rc, out[-800:]),
                    dict(correspondence="harness run", log=out[-3000:]), no_input=True)
        return c.finish()
    cases = vlib.read_lines(cases_path)
    impl = vlib.read_lines(os.path.join(c.work, "impl.txt"))
    modl = vlib.run_model(model, "c09", cases_path, os.path.join(c.work, "model.txt"))
    assert len(cases) == len(impl) == len(modl), (len(cases), len(impl), len(modl))

    distinct = set()
    disagreements = []
    shrunk = set()
    kinds_seen = Counter()
    for idx, (case, i, m) in enumerate(zip(cases, impl, modl)):
        if not case.strip():
            continue
        sch = storefam.Schema(case.split(" TX ")[0].split(" CORRUPT ")[0].split())
        io, mo = parse_phases(i), parse_phases(m)
        mode = case_mode(case)
        ncorr = int(case.split(" CORRUPT ")[1].split()[0]) if " CORRUPT " in case else 0
        if ncorr > 0 or io["CKW"]["reports"]:
            distinct.add(case)
        for ph in ("CKW", "FIX", "RCK"):
            for r in io[ph]["reports"]:
                kinds_seen[ph + ":" + r] += 1
        if c.replay:
            if mode:
                vlib.log("REPLAY mode %s: %s" % (mode, MODES[mode]))
            if "POST" in io:
                vlib.log("REPLAY POST (after the commit)\n  impl : %s %s %s" % (io["POST"]["status"], io["POST"]["flags"], io["POST"]["reports"]))
            for tag in ("PRE", "CKR", "CKW", "FIX", "RCK"):
                vlib.log("REPLAY %s\n  impl : %s %s %s\n  model: %s %s %s" % (tag, io[tag]["status"], io[tag]["flags"], io[tag]["reports"],
                                                                            mo[tag]["status"], mo[tag]["flags"], mo[tag]["reports"]))
                fa, fb = set(io[tag]["facts"]), set(mo[tag]["facts"])
                if fa != fb:
                    vlib.log("  facts only impl : %s\n  facts only model: %s" % (sorted(fa - fb), sorted(fb - fa)))
        found = oracle(sch, io, mode)
        if getattr(sch, "wiring", "") == "ufk":
            # a schema outside wf_c09 (unique index on a nullable fk field): non-convergence is the known order dependence
            found = [(ORDER_KEY if k in ("C09:fix-not-convergent", "C09:fix-leaves-inconsistency") else k,
                      "unique index on a field with a nullable fk constraint: " + w) for k, w in found]
            found = [kw for n, kw in enumerate(found) if kw[0] not in [x[0] for x in found[:n]]]
        dirty_class = (mode in ("CJ", "LCJ") and ncorr > 0) or idx in dirty_cases or (c.replay and rp.get("key") == DIRTY_KEY)
        if dirty_class:
            found = [(DIRTY_KEY if k in CONVERGENCE_KEYS else k,
                      ("the fix run removes entries from buckets written earlier in its own transaction: " + w) if k in CONVERGENCE_KEYS else w)
                     for k, w in found]
            found = [kw for n, kw in enumerate(found) if kw[0] not in [x[0] for x in found[:n]]]
        for key, what in found:
            if sum(1 for v in c.violations if v[0] == key) >= 3 or any(f.get("status") == "known" and f.get("key") == key for f in c.findings):
                c.violation(key, what, dict(case=case, gen=dict(gen, index=idx)))
                continue
            small, small_impl = case, i
            if not c.replay and key not in shrunk:
                shrunk.add(key)
                small, si = shrink(c, harness, case, key)
                small_impl = si or i
            sio = parse_phases(small_impl)
            c.violation(key, what, dict(case=small, original_case=case if small != case else None,
                                        impl=" | ".join("%s %s %s R %s" % (k, v["status"], " ".join(v["flags"]), " ".join(v["reports"])) for k, v in sio.items()),
                                        corruptions=split_case(small)[2], gen=dict(gen, index=idx)))
        if found:
            continue
        d = compare(sch, io, mo)
        if d and dirty_class and d.split(":")[0] in ("FIX", "RCK"):
            # the same mechanism seen through the model: e.g. the set-index scan skips the live id behind a removed stale one,
            # counts no reference, drops the whole key and "repairs" the entry it has just destroyed
            c.violation(DIRTY_KEY, "the fix run removes entries from buckets written earlier in its own transaction; its reports / "
                        "result differ from a fix run that visits every entry: " + d, dict(case=case, impl=i, model=m, gen=dict(gen, index=idx)))
        elif d:
            disagreements.append((case, i, m, d, idx))
    c.cov["evaluations"] = len(cases)
    c.cov["distinct_nontrivial"] = len(distinct)
    c.cov["disagreements_checked"] = len(disagreements)
    c.cov["rule"] = ("a case = schema wiring (idx / fkc / casc) + a seeded history that leaves a populated consistent database (seeding creates, "
                     "random churn of the shared generator incl. cascades, child stores, link ops, failing transactions) + a list of raw corruptions "
                     "(unique index: missing / extra / wrong-target entry; set index: missing entry, missing key, extra entry, empty key, non-bucket key; "
                     "fk: missing / extra back-reference, dangling reference, fk field re-pointed to another existing target - preferably one that never "
                     "had a referrer, i.e. without a back-reference bucket; links: one-sided, dangling; whole buckets, each ABSENT and PRESENT-BUT-EMPTY: "
                     "back-reference bucket of a target, link bucket of one side, set-field bucket of an entity, a set-index key bucket, the index bucket "
                     "of a unique / set-index symbol (deleted + InitializeIndexes as on start-up, or emptied), an empty back-reference bucket on a target "
                     "without referrers (neutral); genuine conflicts: duplicate unique value, nil "
                     "in a non-nullable field) committed in a separate transaction; half of the draws uniform over the candidates, half uniform over the classes; quick: random subsets of 0-8 corruptions; thorough additionally all "
                     "subsets of <= 4 out of a pool of 8 corruptions (one per class first) on 50 states. Phases: check-only in a read-only and in a write "
                     "transaction, fix, re-check. Third stream (design/C09.md section 10): the same cases with the steps grouped into transactions differently - "
                     "J: corruptions committed, then check-only + fix + re-check inside ONE db.Update; CJ: raw corruptions, check-only, fix and re-check inside one "
                     "db.Update; LCJ: additionally the tail of the history (40%: the whole history) merged into one transaction whose operations run first inside that "
                     "db.Update (populate / update through the API and check before commit; half of these without corruption); facts and byte-exact dump are read "
                     "through the open transaction, a POST check-only phase after the commit must repeat the verdict of the re-check. Fourth stream: wirings C09xu / "
                     "C09xf (Extended and plain child store with non-nullable unique indexes / fk indexes / fk constraints on fields of their own; ten ids; the "
                     "first, middle or last third of the id range created without child data), corruptions of child-bucket fields included. "
                     "Fifth strengthening (design/C09.md section 11): half of the histories of every stream draw ids and values from universes with PREFIX CHAINS "
                     "(ids a / a1 / a10, b / b1; values v / v1 / v10, v2 / v20, values that equal ids), and for every index kind the candidates include entries "
                     "whose key or id is a proper prefix or an extension (s+'0', s+NUL) of a legitimate neighbour: extra / wrong-target entries (*-near-key, "
                     "*-near-id: unique index, set-index key and id, back-reference, fk field re-pointed to a living or missing neighbour id, link) and missing "
                     "entries whose extension stays in the bucket (*-near-stays); 15 fixed corpus cases (corpus/store/c09_w5.txt). "
                     "Non-trivial: at least one corruption or at least one report; distinct by case text.")
    c.cov["report_kinds_seen"] = dict(kinds_seen)
    ks = sorted(set((0, len(cases) // 2, max(0, len(cases) - 1))))
    c.cov["samples"] = [dict(case=cases[k][:1500], impl=impl[k][:1500], model=modl[k][:1500]) for k in ks if k < len(cases)]
    try:
        c.cov["input_distribution"] = json.load(open(os.path.join(c.work, "stats.json")))
    except Exception:
        pass
    if disagreements and not c.violations:
        case, i, m, d, idx = disagreements[0]
        c.violation(PID + ":correspondence",
                    "checker model (Store/Integrity.v) and boltz CheckIntegrity differ on %d cases; first: %s" % (len(disagreements), d),
                    dict(correspondence="Store/Integrity.v vs boltz CheckIntegrity", theorems=["check_sound", "check_complete", "check_readonly", "fix_convergent"],
                         case=case, impl=i, model=m, difference=d, gen=dict(gen, index=idx)), no_input=True)
    if not proof_ok:
        c.violation(PID + ":proof", "proof obligation no longer checks: %s" % json.dumps(c.proof_broken)[:600],
                    dict(broken=c.proof_broken), no_input=True)
    return c.finish()
