"""C08 - entity events: exactly once per committed change, none for undone work.

Harness sub-command `c08` (store_c08.go): listeners of every registration style x change type x
{sync, async} on every store, one tx-complete listener, and per transaction a HOOK PROGRAM (HOOKS section
of the case line): commit actions and pre-commit actions registered on the context before Db.Update /
Db.Batch is called, inside the function and inside nested db.Update(ctx, ..) / db.Batch(ctx, ..) calls
that join the running transaction; histories through Db.Update and (separate stream) Db.Batch.  The
observation of a transaction is

    TX R <op results> COMMIT|ROLLBACK [VETOED] EV:... LS:... CA:<label>:<n>.. PA:<label>:<n>.. TC:<n> ST <facts> |

* oracle (independent of the Coq model): the expected event multiset of a committed transaction is
  computed here from the operations and the database facts before / after the transaction; every
  registration style must have received exactly those events (by change type), with the state the
  database facts show; nothing may be delivered for a rolled-back transaction; every registered commit
  action, every registered pre-commit action and the tx-complete listener run exactly once per committed
  transaction - wherever they were registered, however the function nests - and not for a rolled-back one;
* second strengthening (seeded C08-w2-1..3): a REGS section of the case line registers, per history, listeners that name
  SEVERAL change types in one Add*Listener call (every style, every order, sync / async entries; deliveries LM:<k>:...):
  exactly one notification per committed change whose kind the registration names (Properties/C08.v
  listener_multi_type_invoked_exactly_once); histories whose caller keeps ONE MutateContext for all transactions, also
  after a rollback (pseudo veto @ctx), and Db.Batch calls issued together with failing Db.Batch calls that bbolt
  coalesces, so that the innocent function is rolled back and re-run with its context (pseudo veto @cobatch): the
  committed transaction still announces every change once; wirings with three child stores under one parent;
* third strengthening (seeded C08-w3-3): contexts built AROUND an existing bbolt transaction with NewTxMutateContext - (1) pseudo veto
  @rawtx: the CALLER opens the write transaction on the bbolt database (Begin(true) .. Commit / Rollback, bolt.Update, bolt.Batch), wraps it,
  runs the hook program with that context (registrations also through ctx.GetSystemContext(); nested Db.Update / Db.Batch join) and commits
  or rolls back; (2) program letter x..): part of the function's work is done with a SECOND context built around ctx.Tx().  Rule
  (Properties/C08.v shared_hooks_exactly_once, caller_tx_hooks): entity events as for every committed transaction, every commit action
  of every such context exactly once after the commit and never after a rollback, their pre-commit actions never (only the Db.Update /
  Db.Batch that OPENS a transaction runs those of the context it was called with), tx-complete listeners only for transactions
  Db.Update / Db.Batch opened;
* fifth strengthening (seeded C08-w5-2): a fourth field of a REGS token says HOW the caller hands the additional change types to the Add*Listener
  call (store_c08_regpass.go): spelled out, an empty slice, ONE buffer with spare capacity re-filled and passed to several registrations (any
  styles / stores), a slice (with or without spare capacity) the caller overwrites after the call.  The expectation does not depend on it: a
  registration is registered for the kinds its call named WHEN IT WAS MADE (Properties/C08.v registration_types_fixed over Store/EventsReg.v, the
  slice / append model of the registration code); the driver plays the caller's program against that model and takes the listeners' types from it;
* sixth strengthening (seeded C08-w6-1): what the CALLER does with the entity structs it passed to Create / Update between the operation and the
  commit (pseudo veto @caller, store_c08_caller.go): ONE scratch struct for every create / update of a transaction (re-made or re-filled in place),
  id / field map / pointed-to strings / string lists / tag map / system flag changed or nil-ed after the call or at the end of the function, entities
  loaded before a delete and changed afterwards.  The expectation does not depend on it: a listener is handed the COMMITTED state of the operation's
  entity (final state for create / update, last state for delete; Properties/C08.v delivered_state, and delivered_state_fixed_at_operation over
  Store/EventsCaller.v, the heap model of the payload pointers); the delivered-state oracle compares digest, id and tags (every struct of the C08
  executor carries the tags {"id": <id>}; a recorder handed other tags prints a TAGS token) with the database;
* ninth strengthening (seeded C08-w9-2): callers that bring NO context (pseudo veto @nilctx, store_c08_w9.go): the outermost call is
  Db.Update(nil, fn) / Db.Batch(nil, fn) (also the coalesced Db.Batch calls of @cobatch), everything the program registers is registered inside the
  function.  The expectation does not depend on who made the context (the model ignores the token): events, commit actions, pre-commit actions and the
  tx-complete listeners exactly once per committed transaction, nothing for a rolled-back one;
* correspondence: the same line is printed by the extracted machine (Store/Events.v run_tx_v,
  delivered_to; Store/TxShared.v shared_update - an extension of Store/TxHooks.v db_update - for the program) and compared token by token (results, events, deliveries incl. state digests, hooks).
"""
import json
import os
from collections import Counter

import storefam
import vlib

PID = "C08"
FILES = ["theories/Properties/C08.v", "theories/Examples/C08Examples.v", "theories/Examples/C08Wirings.v", "theories/Examples/C08Shared.v",
         "theories/Examples/C08Regs.v", "theories/Examples/C08Caller.v"]

FILTER_STYLES = ["ts", "ta", "fs", "fa", "us", "ua", "is", "ia"]
STATE_STYLES = ("ts", "ta", "fs", "fa", "us", "ua", "c", "uc")


# ------------------------------------------------------------------ case parsing
def parse_tx(toks):
    pos = [0]

    def nxt():
        t = toks[pos[0]]
        pos[0] += 1
        return t

    tx = dict(sys=nxt() == "1", pcf=nxt() == "1", vetoes=[], ops=[])
    for _ in range(int(nxt())):
        tx["vetoes"].append((nxt(), nxt(), nxt()))
    for _ in range(int(nxt())):
        kind = nxt()
        op = dict(kind=kind)
        if kind in ("C", "UP"):
            op["store"], op["id"] = nxt(), nxt()
            if kind == "C":
                nxt()
            for _ in range(int(nxt())):
                nxt()
                nxt()
            for _ in range(int(nxt())):
                nxt()
                for _ in range(int(nxt())):
                    nxt()
            if kind == "UP":
                c = nxt()
                if c != "-":
                    for _ in range(int(c)):
                        nxt()
        elif kind == "D":
            op["store"], op["id"] = nxt(), nxt()
        elif kind in ("AL", "RL"):
            op["store"], op["id"] = nxt(), nxt()
            nxt()
            for _ in range(int(nxt())):
                nxt()
        tx["ops"].append(op)
    return tx


def split_mode(case):
    """-> (mode, hook programs or None, multi-type registrations, rest of the case line)"""
    mode = "upd"
    progs = None
    regs = []
    if case.startswith("MODE "):
        _, mode, case = case.split(" ", 2)
    if case.startswith("HOOKS "):
        _, n, case = case.split(" ", 2)
        parts = case.split(" ", int(n))
        progs, case = parts[:int(n)], parts[int(n)]
    if case.startswith("REGS "):
        _, n, case = case.split(" ", 2)
        parts = case.split(" ", int(n))
        regs, case = [(tuple(r.split(":")) + ("l",))[:4] for r in parts[:int(n)]], parts[int(n)]
    return mode, progs, regs, case


# ------------------------------------------------------------------ registrations naming several change types
STYLE_CALL = dict(t="AddEntityEventListener", f="AddEntityEventListenerF", u="AddListener", i="AddEntityIdListener")
TYPE_NAME = dict(C="EntityCreated", U="EntityUpdated", D="EntityDeleted", c="EntityCreatedAsync", u="EntityUpdatedAsync",
                 d="EntityDeletedAsync")
CHANGE_WORD = dict(C="create", U="update", D="delete")


def scribble_type(types):
    """what the caller writes over a slice it passed (store_c08_regpass.go c08Scribble)"""
    for kd in "CUD":
        if kd not in types.upper():
            return kd
    return types[0]


def reg_text(reg, regs=None):
    """the Go call of a registration, with the way the caller hands the additional types over (fourth field of the REGS
    token, store_c08_regpass.go).  Whatever that way is, the listener is registered for the types the call names."""
    style, store, types, how = reg
    call = "%s.%s(listener, %%s)" % (store, STYLE_CALL.get(style, style))
    first, rest = TYPE_NAME[types[0]], ", ".join(TYPE_NAME[t] for t in types[1:])
    if how == "z":
        return call % (first + ", []EntityEventType{}...")
    if how[0] == "b":
        buf = "buf" + how[1:]
        sharers = [k for k, r in enumerate(regs or []) if r[3] == how]
        return "%s = append(%s[:0]%s); %s  [%s: ONE make([]EntityEventType, 0, 4) of the caller, re-filled and passed by registrations %s of the REGS section, in that order]" % (
            buf, buf, ", " + rest if rest else "", call % (first + ", " + buf + "..."), buf, sharers)
    if how[0] == "s":
        n, k = len(types) - 1, int(how[1:])
        return "sl := append(make([]EntityEventType, 0, %d)%s); %s; afterwards the caller overwrites all %d cells of sl[:cap(sl)] with %s" % (
            n + k, ", " + rest if rest else "", call % (first + ", sl..."), n + k, TYPE_NAME[scribble_type(types)])
    return call % ", ".join(TYPE_NAME[t] for t in types)


def pseudo(tx, name):
    """the id (hex) of the pseudo veto [name] of the transaction, None when it has none"""
    for s, _, i in tx["vetoes"]:
        if s == name:
            return i
    return None


def nil_ctx(tx, prog):
    """the outermost Db.Update / Db.Batch call of the transaction is made with a nil context (pseudo veto @nilctx, store_c08_w9.go
    c08NilCtxApplies)"""
    return (pseudo(tx, "@nilctx") is not None and not tx["sys"] and pseudo(tx, "@ctx") is None and pseudo(tx, "@rawtx") is None
            and prog.startswith("|"))


def ctx_note(txs_parsed, io, k, prog=""):
    """how the transaction's mutate context was used before - part of the violation text"""
    tx = txs_parsed[k]
    if nil_ctx(tx, prog):
        co = pseudo(tx, "@cobatch")
        return (" [the caller brought NO context: the transaction was started with Db.Update(nil, fn) / Db.Batch(nil, fn)%s; the call makes a "
                "MutateContext itself - the transaction is a committed transaction like any other]" % (
                    ", issued together with failing Db.Batch calls bbolt coalesces" if co is not None else ""))
    if pseudo(tx, "@ctx") is not None:
        prior = [j for j in range(k) if pseudo(txs_parsed[j], "@ctx") is not None]
        rolled = [j for j in prior if not io[j]["commit"] and "ok" in io[j]["results"]]
        if rolled:
            return (" [the transaction ran with the MutateContext the caller keeps for all its transactions; transaction %d ran with it, "
                    "performed store changes and was rolled back]" % rolled[-1])
        return " [the transaction ran with the MutateContext the caller keeps for all its transactions (used by %d earlier ones)]" % len(prior)
    raw = raw_spec(tx)
    if raw:
        return " [%s]" % raw_text(raw)
    co = pseudo(tx, "@cobatch")
    if co is not None:
        try:
            partners = bytes.fromhex(co).decode()
        except ValueError:
            partners = co
        return (" [Db.Batch call issued together with %d failing Db.Batch calls (%s; lower case = enqueued after it): bbolt runs them in one "
                "transaction, rolls it back when a partner fails and re-runs the innocent function with the same context]" % (len(partners), partners))
    return ""


# ------------------------------------------------------------------ what the caller does with its entity structs (store_c08_caller.go)
CALLER_POLICY = dict(n="a struct of its own per operation",
                     r="ONE scratch struct re-filled (fresh maps) for every create / update of the transaction",
                     k="ONE scratch struct whose maps, lists and tag map are cleared and re-filled in place for every create / update of the transaction")
CALLER_MUT = dict(i="overwrites its id with one that is never stored", f="replaces the entries of its field map", p="overwrites the strings its field map points to",
                  s="changes its string lists in place", t="changes its tag map in place", y="flips its system flag", z="sets its field map, lists and tags to nil")


def caller_spec(tx):
    spec = pseudo(tx, "@caller")
    if spec is None:
        return None
    try:
        return bytes.fromhex(spec).decode() if spec != "-" else ""
    except ValueError:
        return spec


def caller_note(tx):
    """the behaviour of the transaction's caller towards the structs it passes - part of the violation text.  The expectation
    does not depend on it: an event carries the committed state of its operation's entity"""
    spec = caller_spec(tx)
    if not spec:
        return ""
    muts = [CALLER_MUT[c] for c in spec[1:] if c in CALLER_MUT]
    when = "at the end of the transaction function" if "e" in spec[1:] else "right after the operation returned"
    txt = " [the caller passes %s to Create / Update" % CALLER_POLICY.get(spec[0], spec[0])
    if muts:
        txt += "; %s - before the commit - it %s" % (when, ", ".join(muts))
    if "l" in spec[1:]:
        txt += "; before a delete it loads the entity with FindById and treats the loaded struct the same way afterwards"
    return txt + "; listeners run after the commit and must be handed the COMMITTED state of the operation's entity, not the caller's memory]"


# ------------------------------------------------------------------ hook programs (alphabet: store_c08.go c08Exec)
def default_prog(tx):
    return "|cp" + ("f" if tx["pcf"] else "") + "." * len(tx["ops"]) + "c"


RAW_OPENER = dict(b="tx := bolt.Begin(true) .. tx.Commit() / tx.Rollback()", u="bolt.Update(func(tx) ..)", t="bolt.Batch(func(tx) ..)")


def raw_spec(tx):
    """how the caller manages the transaction itself (pseudo veto @rawtx), None for a transaction Db.Update / Db.Batch opens"""
    spec = pseudo(tx, "@rawtx")
    if spec is None:
        return None
    try:
        return bytes.fromhex(spec).decode() or "b"
    except ValueError:
        return "b"


def raw_text(raw):
    return "a transaction the caller manages itself (%s) wrapped with NewTxMutateContext(ctx, tx)%s" % (
        RAW_OPENER.get(raw[0], raw[0]), ", registrations made through ctx.GetSystemContext()" if "w" in raw else "")


def prog_info(prog, mode, raw=None):
    """-> dict(commits {label: where}, pres {label: where} (somebody runs them), dead {label: where} (pre-commit actions
    registered on a context built AROUND an existing transaction: nobody runs them), nested, depth, second)"""
    call = "Db.Batch" if mode == "bat" else "Db.Update"
    start = prog.find("|")
    commits, pres, dead = {}, {}, {}
    nc = np_ = 0
    stack = []
    nested = depth = second = 0
    for i, ch in enumerate(prog):
        if raw and not stack:
            where = "on the context NewTxMutateContext(ctx, tx) built around the caller's own transaction (%s)" % RAW_OPENER.get(raw[0], raw[0])
        elif i < start:
            where = "on the context before %s opened the transaction" % call
        elif stack and stack[-1] == "x":
            where = "on a second context NewTxMutateContext(ctx.Context(), ctx.Tx()) built inside the function around the running transaction"
        elif stack:
            where = "inside a nested %s(ctx, ..) joining the running transaction (depth %d)%s" % (
                "Db.Batch" if stack[-1] == "b" else "Db.Update", len(stack),
                ", called with a second context built around the running transaction" if "x" in stack else "")
        else:
            where = "inside the function passed to %s" % call
        unrun = bool(raw) or "x" in stack
        if ch == "c":
            commits["c%d" % nc] = "registered " + where
            nc += 1
        elif ch in "pfq":
            (dead if unrun else pres)["p%d" % np_] = "registered " + where
            if ch == "q" and not unrun:
                commits["q%d" % np_] = "added by pre-commit action p%d (registered %s)" % (np_, where)
            np_ += 1
        elif ch in "ubx" and i > start:
            stack.append(ch)
            if ch == "x":
                second += 1
            else:
                nested += 1
            depth = max(depth, len(stack))
        elif ch == ")" and stack:
            stack.pop()
    return dict(commits=commits, pres=pres, dead=dead, nested=nested, depth=depth, second=second)


def hook_counts(other, tag):
    out = {}
    for t in other:
        if t.startswith(tag + ":"):
            _, label, n = t.split(":")
            out[label] = out.get(label, 0) + int(n)
    return out


def hook_oracle(mode, prog, a, raw=None):
    """commit actions, pre-commit actions, tx-complete listeners of one observed transaction against the
    property: each registration exactly once per committed transaction, nothing for a rolled-back one.
    [raw]: the caller manages the bbolt transaction itself and wrapped it with NewTxMutateContext (Properties/C08.v
    shared_hooks_exactly_once, caller_tx_hooks): commit actions once after the caller's commit, none after its rollback;
    nobody runs pre-commit actions there, the tx-complete listeners of the DbImpl are not involved"""
    out = []
    info = prog_info(prog, mode, raw)
    ca, pa = hook_counts(a["other"], "CA"), hook_counts(a["other"], "PA")
    tc = sum(int(t[3:]) for t in a["other"] if t.startswith("TC:"))
    shape = "program %s: %d nested Db.Update/Db.Batch calls, depth %d" % (prog, info["nested"], info["depth"])
    if info["second"]:
        shape += ", %d blocks executed with a second context built around the running transaction" % info["second"]
    if raw:
        shape += "; " + raw_text(raw)
    if not a["commit"]:
        if any(ca.values()) or tc:
            out.append(("C08:commit-hook-after-rollback", "commit actions %s / tx-complete listeners (%d) ran for a rolled-back transaction (%s)" % (
                {k: v for k, v in ca.items() if v}, tc, shape)))
        if any(pa.values()):
            # only printed when the function itself failed: runPreCommitActions must not have been reached
            out.append(("C08:precommit-action-after-failed-body", "pre-commit actions %s ran although the transaction function returned an error (%s)" % (
                {k: v for k, v in pa.items() if v}, shape)))
        return out
    bad = [(l, ca.get(l, 0)) for l in sorted(set(info["commits"]) | set(ca)) if ca.get(l, 0) != (1 if l in info["commits"] else 0)]
    if bad:
        l, n = bad[0]
        out.append(("C08:commit-action-count", "commit action %s (%s) ran %d times after the commit, expected exactly once; all: %s (%s)" % (
            l, info["commits"].get(l, "never registered"), n, bad[:6], shape)))
    bad = [(l, pa.get(l, 0)) for l in sorted(set(info["pres"]) | set(pa)) if pa.get(l, 0) != (1 if l in info["pres"] else 0)]
    if bad:
        l, n = bad[0]
        if l in info["dead"]:
            out.append(("C08:precommit-action-count", "pre-commit action %s (%s) ran %d times: runPreCommitActions belongs to the Db.Update / Db.Batch call that "
                        "opens a transaction and to the context it was called with - a context built around an existing transaction has nobody to run "
                        "them (pinned contract, Store/TxShared.v dead_pres); all: %s (%s)" % (l, info["dead"][l], n, bad[:6], shape)))
        else:
            out.append(("C08:precommit-action-count", "pre-commit action %s (%s) ran %d times in the committed transaction, expected exactly once; all: %s (%s)" % (
                l, info["pres"].get(l, "never registered"), n, bad[:6], shape)))
    if raw:
        if tc != 0:
            out.append(("C08:tx-complete-count", "tx-complete listener ran %d times for a transaction neither Db.Update nor Db.Batch opened (they register it "
                        "when they open one; calls that join a running transaction must not) (%s)" % (tc, shape)))
    elif tc != 1:
        key = "C08:batch-no-txcomplete" if (mode == "bat" and tc == 0) else "C08:tx-complete-count"
        out.append((key, "tx-complete listener ran %d times for one transaction committed through %s (%s)" % (
            tc, "Db.Batch" if mode == "bat" else "Db.Update", shape)))
    return out


# ------------------------------------------------------------------ facts
class Facts:
    def __init__(self, facts):
        self.ents = set()
        self.f = {}
        self.cf = {}
        self.s = {}
        self.child = {}
        for x in facts:
            p = x.split(":")
            if p[0] == "E":
                self.ents.add((p[1], p[2]))
            elif p[0] == "F":
                self.f[(p[1], p[2], p[3])] = p[4]
            elif p[0] == "CF":
                self.cf[(p[1], p[2], p[3], p[4])] = p[5]
            elif p[0] == "S":
                self.s.setdefault((p[1], p[2], p[3]), set()).add(p[4])
            elif p[0] == "C":
                self.child.setdefault((p[1], p[2]), set()).add(p[3])

    def digest(self, sch, store, hid):
        """the digest the harness prints for the entity as loaded through [store]"""
        root = sch.root(store)
        if (root, hid) not in self.ents:
            return None
        sd = sch.stores[store]

        def fv(v):
            if v is None or not v.startswith("s"):
                return "N"
            return v[1:]

        fields = []
        for f, _ in sch.stores[root]["fields"]:
            fields.append("%s=%s" % (f, fv(self.f.get((root, hid, f)))))
        if sd["parent"]:
            for f, _ in sd["fields"]:
                fields.append("%s=%s" % (f, fv(self.cf.get((root, hid, store, f)))))
        sets = []
        for sn in sch.stores[root]["sets"]:
            sets.append("%s=%s" % (sn, "+".join(sorted(self.s.get((root, hid, sn), ())))))
        return "%s;%s;sys=%s" % (",".join(fields), ",".join(sets), "1" if self.f.get((root, hid, "isSystem")) == "b1" else "0")


def children(sch, root):
    return [s for s in sch.order if sch.stores[s]["parent"] == root]


# ------------------------------------------------------------------ the property, evaluated on the implementation
def expected_events(sch, tx, pre, post):
    """multiset of (store, change, hexid, parentflag) a committed transaction must deliver"""
    alive = {k: set(pre.child.get(k, ())) for k in pre.ents}
    exp = Counter()

    def removal(root, hid):
        flows = [c for c in children(sch, root) if c in alive[(root, hid)] or sch.stores[c]["ext"]]
        exp[(root, "D", hid, "1" if flows else "0")] += 1
        for c in flows:
            exp[(c, "D", hid, "0")] += 1
        del alive[(root, hid)]

    for op in tx["ops"]:
        k = op["kind"]
        if k not in ("C", "UP", "D"):
            continue
        s, i = op["store"], op["id"]
        root = sch.root(s)
        if k == "C":
            if (root, i) in alive:      # the create succeeded, so a cascade removed the entity before
                removal(root, i)
            exp[(s, "C", i, "0")] += 1
            if root != s:
                exp[(root, "C", i, "1")] += 1
            alive[(root, i)] = {s} if root != s else set()
        elif k == "UP":
            tgt = s
            if root == s:
                for c in children(sch, root):
                    if c in alive.get((root, i), ()):
                        tgt = c
                        break
            exp[(tgt, "U", i, "0")] += 1
            if tgt != root:
                exp[(root, "U", i, "1")] += 1
        else:
            if (root, i) in alive:
                removal(root, i)
            else:
                exp[(root, "D", i, "?")] += 1     # cannot happen in a committed transaction
    # every other entity that is gone was removed by a cascade: it must have produced its events too
    for (root, hid) in sorted(alive):
        if (root, hid) not in post.ents:
            removal(root, hid)
    return exp


def unhex(h):
    try:
        return bytes.fromhex(h).decode() if h != "-" else ""
    except ValueError:
        return h


def tags_violation(tags, cnote, k):
    """every struct the C08 executor passes to Create / Update carries the tags {"id": <entity id>}, so that is what every stored
    entity has; a recorder handed an entity with other tags prints a TAGS token (store_c08_caller.go tagCheck)"""
    p = tags[0].split(":")
    seen = p[5]
    if seen.startswith("{"):
        seen = "{%s}" % ", ".join("=".join(repr(unhex(x)) for x in kv.split("=")) for kv in seen[1:-1].split(",") if kv)
    return ("C08:delivered-state", "style %s on %s, %s of %s: the entity handed to the listener carries the tags %s, the database holds {'id'=%r} "
            "(%d such deliveries)%s" % (p[1], p[2], p[3], p[4], seen, unhex(p[4]), len(tags), cnote), k)


def drop_id(cnt, idpos):
    out = Counter()
    for key, n in cnt.items():
        out[key[:idpos] + key[idpos + 1:]] += n
    return out


def oracle(sch, mode, progs, regs, txs, io):
    out = []
    prev = Facts([])
    parsed = [parse_tx(t) for t in txs]
    for k, (ttoks, a) in enumerate(zip(txs, io)):
        tx = parsed[k]
        prog = progs[k] if progs and k < len(progs) else default_prog(tx)
        post = Facts(a["facts"])
        lm = [t for t in a["other"] if t.startswith("LM:")]
        ls = [t for t in a["other"] if t.startswith("LS:")] + (lm if not a["commit"] else [])
        note = ctx_note(parsed, io, k, prog)
        hnote = note if nil_ctx(tx, prog) else ""
        cnote = caller_note(tx)
        raw = raw_spec(tx)
        late = [t for t in a["other"] if t.startswith("LATE:")]
        if "ASYNC-TIMEOUT" in a["other"]:
            out.append(("C08:async-timeout", "asynchronous listeners / commit actions did not arrive within 10 s", k))
        if late:
            out.append(("C08:late-delivery", "deliveries after the transaction's observation: %s" % late[:3], k))
        tags = [t for t in a["other"] if t.startswith("TAGS:")]
        if tags:
            out.append(tags_violation(tags, cnote, k))
        if not a["commit"]:
            if a["events"] or ls:
                out.append(("C08:events-after-rollback", "listeners ran for a rolled-back transaction: %s%s" % ((a["events"] + ls)[:4], note), k))
            out += [(key, desc + hnote, k) for key, desc in hook_oracle(mode, prog, a, raw)]
            prev = post
            continue
        out += [(key, desc + hnote, k) for key, desc in hook_oracle(mode, prog, a, raw)]
        exp = expected_events(sch, tx, prev, post)
        got = Counter()
        for e in a["events"]:
            p = e.split(":")
            got[(p[1], p[2], p[3], p[4])] += 1
        if got != exp:
            missing, surplus = exp - got, got - exp
            key = "C08:event-multiset"
            detail = ""
            lost_flows = sorted((s, i) for (s, ch, i, _) in missing if ch == "D" and sch.stores[s]["parent"]
                                and not any(g[0] == s and g[2] == i for g in got))
            if exp and not got:
                key = "C08:event-missing"
                detail = "NO entity event at all was delivered for the committed transaction; "
            elif lost_flows:
                s, i = lost_flows[0]
                kids = children(sch, sch.root(s))
                key = "C08:child-delete-event-missing"
                detail = ("the committed delete of entity %s, an entity of child store %s (registered as number %d of the %d child stores %s of %s), "
                          "produced no delete event on %s; " % (i, s, kids.index(s) + 1, len(kids), kids, sch.root(s), s))
            elif any(p == "1" for (_, _, _, p) in missing):
                key = "C08:parent-event-missing"
            elif missing and not surplus:
                key = "C08:event-missing"
            elif surplus and not missing:
                key = "C08:event-surplus"
            out.append((key, "%sevents of the committed transaction: missing %s surplus %s%s" % (
                detail, sorted(missing.elements())[:4], sorted(surplus.elements())[:4], note), k))
        # every registration style receives exactly the events of its change type
        want = Counter()
        for (s, ch, i, p), n in exp.items():
            for y in FILTER_STYLES:
                want[(y, s, ch, i, "")] += n
            want[("c", s, ch, i, "p" + p)] += n
            want[("uc", s, ch, i, "p" + p)] += n
        have = Counter()
        for t in ls:
            p = t.split(":")
            have[(p[1], p[2], p[3], p[4], p[6] if len(p) > 6 else "")] += 1
        named = Counter(op.get("id") for op in tx["ops"] if op["kind"] in ("C", "UP", "D"))
        written = Counter(op.get("id") for op in tx["ops"] if op["kind"] in ("C", "UP"))
        changed_ids = set(i for (_s, _c, i, _p) in exp)

        def constraint_payload_wrong():
            """the constraints are handed the event (its EntityId) next to the entity: did one of them see a state / tags that are
            not the database's for the event's entity?"""
            if tags:
                return True
            for t in ls:
                p = t.split(":")
                if p[1] in ("c", "uc") and named[p[4]] <= 1 and not (p[3] == "D" and written[p[4]] > 0):
                    ref = (prev if p[3] == "D" else post).digest(sch, p[2], p[4])
                    if ref is not None and p[5] != ref:
                        return True
            return False

        if have != want and got == exp:
            missing, surplus = want - have, have - want
            style = sorted(set(x[0] for x in list(missing) + list(surplus)))[0]
            if drop_id(missing, 3) == drop_id(surplus, 3) and (not any(x[3] in changed_ids for x in surplus) or constraint_payload_wrong()):
                # every style was notified as often as it had to be, per store and change - but a listener only gets the entity,
                # and the entities handed over carry ids (or are nil) that no committed change of this transaction has, or the
                # constraints - which see the event's id next to the entity - were handed states that are not their event's entity's:
                # a wrong state was delivered (ids of OTHER changes of the transaction alone would point to a routing problem)
                y, s, ch, i, _ = sorted(missing)[0]
                wrong = sorted(set(unhex(x[3]) if x[3] != "NIL" else "<nil entity>" for x in surplus if x[:3] == (y, s, ch)))
                right = sorted(set(unhex(j) for (s2, ch2, j, _p) in exp if (s2, ch2) == (s, ch)))
                out.append(("C08:delivered-state", "style %s on %s: the %s listeners were notified %d times, once per committed %s - but no notification carried "
                            "the entity %r: the entities handed over have the ids %s, the committed %ss of the transaction on %s are those of %s (%d deliveries "
                            "of all styles carry an id that differs from their event's entity)%s" % (
                                y, s, CHANGE_WORD[ch], sum(n for (y2, s2, ch2, _i, _p), n in have.items() if (y2, s2, ch2) == (y, s, ch)),
                                CHANGE_WORD[ch], unhex(i), wrong, CHANGE_WORD[ch], s, right, sum(surplus.values()), cnote), k))
            else:
                out.append(("C08:listener-delivery-" + (style if style in ("c", "uc") else style[0]),
                            "deliveries per registration style differ from one per event: missing %s surplus %s%s" % (
                                sorted(missing.elements())[:4], sorted(surplus.elements())[:4], cnote), k))
        # a registration naming several change types: exactly one notification per committed change on its store
        # whose kind it names, none for the others (whatever the order of the types, sync or async)
        if regs and got == exp:
            wantm, havem = Counter(), Counter()
            for r, (style, store, types, _how) in enumerate(regs):
                for (s, ch, i, p), n in exp.items():
                    if s == store and ch in types.upper():
                        wantm[(r, i)] += n
            for t in lm:
                p = t.split(":")
                havem[(int(p[1]), p[5])] += 1
            if havem != wantm and drop_id(wantm - havem, 1) == drop_id(havem - wantm, 1) and (
                    not any(j in changed_ids for (_r, j) in (havem - wantm)) or constraint_payload_wrong()):
                # as many notifications per registration as there had to be, with entities of other ids (see above)
                r, i = sorted(wantm - havem)[0]
                wrong = sorted(set(unhex(j) if j != "NIL" else "<nil entity>" for (r2, j) in (havem - wantm) if r2 == r))
                out.append(("C08:delivered-state", "the listener registered by %s was notified as often as it had to be, but never with entity %r of store %s: "
                            "the entities it was handed have the ids %s%s" % (reg_text(regs[r], regs), unhex(i), regs[r][1], wrong, cnote), k))
            elif havem != wantm:
                r, i = sorted(set((wantm - havem) | (havem - wantm)))[0]
                changes = sorted(ch for (s, ch, j, _), n in exp.items() for _ in range(n) if s == regs[r][1] and j == i)
                out.append(("C08:multi-type-listener-count",
                            "the listener registered by %s was notified %d times about entity %s of store %s, expected %d (once per committed "
                            "change of a kind the registration named when it was made: %s; committed changes of that entity on the store: %s)%s" % (
                                reg_text(regs[r], regs), havem[(r, i)], i, regs[r][1], wantm[(r, i)],
                                "/".join(CHANGE_WORD[c] for c in "CUD" if c in regs[r][2].upper()),
                                ", ".join(CHANGE_WORD[c] for c in changes) or "none", note + cnote), k))
            else:
                for t in lm:
                    p = t.split(":")
                    r, hid, dg = int(p[1]), p[5], p[6]
                    style, store, types, _how = regs[r]
                    chs = set(ch for (s, ch, j, _) in exp if s == store and j == hid and ch in types.upper())
                    if style == "i" or named[hid] > 1 or len(chs) != 1 or ("D" in chs and written[hid] > 0):
                        continue
                    ref = (prev if "D" in chs else post).digest(sch, store, hid)
                    if ref is not None and dg != ref:
                        out.append(("C08:delivered-state", "the listener registered by %s received %s for the %s of %s, the database holds %s%s" % (
                            reg_text(regs[r], regs), dg, CHANGE_WORD[list(chs)[0]], hid, ref, cnote), k))
                        break
        # the delivered state: final state (create/update), last state (delete) - decidable from the facts
        # when a single operation of the transaction names the entity
        for t in ls:
            p = t.split(":")
            if p[1] not in STATE_STYLES:
                continue
            store, ch, hid, dg = p[2], p[3], p[4], p[5]
            if named[hid] > 1 or (ch == "D" and written[hid] > 0):
                continue
            ref = (prev if ch == "D" else post).digest(sch, store, hid)
            if ref is None:
                continue
            if dg != ref:
                out.append(("C08:delivered-state", "style %s on %s, %s of %s received %s, the database holds %s%s" % (
                    p[1], store, ch, hid, dg, ref, cnote), k))
                break
        prev = post
    return out


def oracle_swallow(sch, progs, txs, io):
    """stream swl: the caller swallows the veto of an entity constraint and commits.  A change vetoed in
    ProcessPreCommit of store S is rejected work: no listener of S may ever be told about it."""
    out = []
    for k, (ttoks, a) in enumerate(zip(txs, io)):
        tx = parse_tx(ttoks)
        prog = progs[k] if progs and k < len(progs) else default_prog(tx)
        ls = [t for t in a["other"] if t.startswith("LS:")]
        if "ASYNC-TIMEOUT" in a["other"]:
            out.append(("C08:async-timeout", "asynchronous listeners / commit actions did not arrive within 10 s", k))
        tags = [t for t in a["other"] if t.startswith("TAGS:")]
        if tags:
            out.append(tags_violation(tags, "", k))
        # a swallowed veto is not a failed function: the pre-commit actions of a PANIC / failed body are
        # judged like everywhere else
        out += [(key, desc, k) for key, desc in hook_oracle("upd", prog, a)]
        if not a["commit"]:
            if a["events"] or ls:
                out.append(("C08:events-after-rollback", "listeners ran for a rolled-back transaction: %s" % (a["events"] + ls)[:4], k))
            continue
        vetoed = set(tx["vetoes"])
        bad = [e for e in a["events"] if tuple(e.split(":")[1:4]) in vetoed]
        bad += [t for t in ls if tuple(t.split(":")[2:5]) in vetoed]
        if bad:
            out.append(("C08:vetoed-change-delivered", "a change vetoed in ProcessPreCommit was announced after the commit: %s" % bad[:4], k))
    return out


def compare(a, b):
    if storefam.proj_results(a) != storefam.proj_results(b):
        return "results impl %s vs model %s" % (storefam.proj_results(a), storefam.proj_results(b))
    if a["events"] != b["events"]:
        return "delivered events differ: impl-only %s model-only %s" % (
            sorted((Counter(a["events"]) - Counter(b["events"])).elements())[:4],
            sorted((Counter(b["events"]) - Counter(a["events"])).elements())[:4])
    if a["other"] != b["other"]:
        return "listener deliveries / hooks differ: impl-only %s model-only %s" % (
            sorted((Counter(a["other"]) - Counter(b["other"])).elements())[:4],
            sorted((Counter(b["other"]) - Counter(a["other"])).elements())[:4])
    return None


def main(argv):
    c = vlib.Check(PID, argv)
    c.assumptions = ["bbolt runs the OnCommit handlers of a transaction exactly once, after a successful commit, and never for a rolled-back one (trusted; observed)",
                     "a MutateContext the caller keeps across transactions (also after a rollback) carries no commit / pre-commit actions: they stay "
                     "registered on the context, so every later transaction would run them again; a function bbolt's Batch may run twice registers "
                     "its actions before the call, not inside the function (bbolt: the function must be idempotent)",
                     "pre-commit actions registered on a context built around an existing transaction (NewTxMutateContext: a caller-managed transaction, "
                     "a second context around ctx.Tx()) are never run: runPreCommitActions is unexported and called only by the Db.Update / Db.Batch that opens "
                     "a transaction, for the context it was called with; tx-complete listeners belong to the DbImpl call that opens a transaction "
                     "(pinned contract, modelled in Store/TxShared.v: live_pres / dead_pres / tc_runs)",
                     "a listener registration names every change kind at most once (EntityCreated together with EntityCreatedAsync asks for two "
                     "notifications per create and is outside 'registered for that change type')",
                     "the caller changes the structs it passed (and structs FindById handed to it) only between the operation and the end of the transaction "
                     "function; what it does to them is irrelevant to the expectation: listeners are handed the committed state of the operation's entity",
                     "cascade deletes follow an acyclic store order (wf_events_b); a cascade cycle does not terminate (C04)",
                     "an Extended() child store regards every parent entity as its own: deleting a parent entity without extension data "
                     "notifies the extended store's listeners (design/C08.md (a))"]
    proof_ok = c.proof_step(FILES)
    c.cov["trusted_base"] = [
        "Coq 8.16.1 kernel (coqc; coqchk in the thorough tier); vm_compute in Examples only; no axioms",
        "hand-written store machine coq/theories/Store/Model.v, its event layer Store/Events.v, the hook layers Store/TxHooks.v / Store/TxShared.v and the slice model of the registration code Store/EventsReg.v, the heap model of the event payload pointers Store/EventsCaller.v",
        "bbolt Tx.OnCommit / rollback; the Go scheduler for asynchronous listeners (awaited, cap 10 s)",
        "extraction (ExtrOcamlBasic only) + extraction/c08_driver.ml + drv_common.ml",
        "Go harness store.go / store_c08.go / store_c08_gen.go / store_c08_w2.go / store_c08_w3.go / store_c08_regpass.go / store_c08_caller.go and the oracle in checks/c08.py",
    ]
    model = vlib.build_model("C08")
    harness, err = vlib.build_harness()
    if harness is None:
        c.violation(PID + ":harness-build", "harness does not build against the repository: " + err[-800:],
                    dict(correspondence="harness build", log=err[-3000:]), no_input=True)
        return c.finish()
    tmp = c.work
    shm = "/dev/shm"
    if os.path.isdir(shm) and os.access(shm, os.W_OK):
        tmp = os.path.join(shm, "verif_c08_%d" % os.getpid())
        os.makedirs(tmp, exist_ok=True)
    cases_path = os.path.join(c.work, "cases.txt")
    n = 28000 if c.thorough else 2470
    if c.replay:
        rp = json.load(open(c.replay))
        rin = os.path.join(c.work, "replay_in.txt")
        with open(rin, "w") as f:
            f.write(rp["case"] + "\n")
        args = [harness, "c08", "--out", c.work, "--tmp", tmp, "--corpus", rin, "--replay", "1"]
    else:
        args = [harness, "c08", "--seed", str(c.seed), "--tier", c.tier, "--out", c.work, "--tmp", tmp]
        corpus = os.path.join(vlib.VERIF, "corpus", "store", "c08.txt")
        if os.path.exists(corpus):
            args += ["--corpus", corpus]
    gen = dict(seed=c.seed, tier=c.tier, n=n)
    rc, out = vlib.run(args, timeout=3000)
    if tmp != c.work:
        import shutil
        shutil.rmtree(tmp, ignore_errors=True)
    if rc != 0:
        c.violation(PID + ":harness-run", "harness failed rc=%s: %s" % (rc, out[-800:]),
                    dict(correspondence="harness run", log=out[-3000:]), no_input=True)
        return c.finish()
    cases = vlib.read_lines(cases_path)
    impl = vlib.read_lines(os.path.join(c.work, "impl.txt"))
    modl = vlib.run_model(model, "c08", cases_path, os.path.join(c.work, "model.txt"))
    assert len(cases) == len(impl) == len(modl), (len(cases), len(impl), len(modl))

    distinct = set()
    ntx = nev = ndel = 0
    disagreements = []
    for idx, (case, i, m) in enumerate(zip(cases, impl, modl)):
        if not case.strip():
            continue
        mode, progs, regs, plain = split_mode(case)
        sch, txs = storefam.split_case(plain)
        io = storefam.parse_obs(i)
        mo = storefam.parse_obs(m) if mode != "swl" else []
        ntx += len(io) if mode != "swl" else 0
        nev += sum(len(t["events"]) for t in io)
        ndel += sum(1 for t in io for x in t["other"] if x.startswith("LS:") or x.startswith("LM:"))
        if any(t["commit"] and len(t["events"]) > 1 for t in io):
            distinct.add(case)
        if mode == "swl":
            for key, desc, k in oracle_swallow(sch, progs, txs, io):
                c.violation(key, desc, dict(case=case, impl=i, tx=k, gen=dict(gen, index=idx)))
            ntx += len(io)
            continue
        reported = False
        # what is wrong first, "deliveries the harness waited for did not arrive" after it
        for key, desc, k in sorted(oracle(sch, mode, progs, regs, txs, io), key=lambda v: v[0] == "C08:async-timeout"):
            c.violation(key, desc, dict(case=case, impl=i, model=m, tx=k, gen=dict(gen, index=idx)))
            reported = True
        if c.replay:
            for k, (a, b) in enumerate(zip(io, mo)):
                vlib.log("REPLAY tx %d program %s\n  impl : %s %s %s %s\n  model: %s %s %s %s" % (
                    k, progs[k] if progs and k < len(progs) else "(default)", a["results"], "COMMIT" if a["commit"] else "ROLLBACK", a["events"], [t for t in a["other"] if not t.startswith("LS:")],
                    b["results"], "COMMIT" if b["commit"] else "ROLLBACK", b["events"], [t for t in b["other"] if not t.startswith("LS:")]))
                d = compare(a, b)
                if d:
                    vlib.log("  difference: " + d)
        if reported:
            continue
        for k, (a, b) in enumerate(zip(io, mo)):
            d = compare(a, b)
            if d:
                disagreements.append((case, i, m, k, d, idx))
                break
    c.cov["evaluations"] = len(cases)
    c.cov["transactions"] = ntx
    c.cov["events"] = nev
    c.cov["listener_deliveries"] = ndel
    c.cov["distinct_nontrivial"] = len(distinct)
    c.cov["disagreements_checked"] = len(disagreements)
    c.cov["rule"] = ("state-aware seeded histories (2-6 transactions x 1-3 operation groups: create incl. prerequisite fk targets, full and "
                     "field-checker update, delete incl. cascades, link ops, through parent, plain child and extended child stores; several changes "
                     "of one entity per transaction; caller error 6%, failing pre-commit action 5%, veto 9%, blind operation 7%) over the shared three schema "
                     "wirings, through Db.Update, a Db.Batch stream and a stream whose caller swallows constraint vetoes and commits (a vetoed change must "
                     "never be announced); five schema wirings (two of them with three child stores - plain and extended - under one parent: entities living in "
                     "the 2nd / 3rd child store, deleted through parent, own or sibling store and by cascade); per history 3-7 listener registrations naming two "
                     "or three change types in one call (4 styles, every order, sync / async entries); in two thirds of the histories the registrations hand their types over the way callers do - 22% name a single type, 45% pass ONE re-used buffer with spare capacity (make(.., 0, 4), re-filled per registration, shared across styles and stores), 20% a slice with 0-3 spare cells that the caller overwrites right after the call, 10% an empty slice, 25% spelled out - the expectation being the kinds named at registration; 18% of the Db.Update histories and 20% of the Db.Batch "
                     "histories keep ONE MutateContext for (85% of) their transactions, 30% of those give up after their changes (rollback, then commits with the same "
                     "context); 40% of the Db.Batch histories issue 70% of their calls together with 1-2 failing Db.Batch calls that bbolt coalesces (re-run of the "
                     "innocent function with its context); 26 recording listeners per store (4 filtering styles x 3 change types x "
                     "sync/async, typed and untyped constraint), 1 tx-complete listener; per transaction a hook program: commit actions and pre-commit "
                     "actions (succeeding, failing, adding a commit action) registered on the context before Db.Update/Db.Batch is called (75% / 65%), at the "
                     "start and the end of the function (always) and inside 0-3 nested db.Update(ctx,..)/db.Batch(ctx,..) calls joining the running "
                     "transaction (depth <= 3, possibly without operations), each registration counted on its own; 14% of the Db.Update and 10% of the "
                     "Db.Batch histories run 65% of their transactions (4% elsewhere) as CALLER-MANAGED bbolt transactions (Begin/Commit/Rollback, bolt.Update, "
                     "bolt.Batch) wrapped with NewTxMutateContext, 25% of them registering through ctx.GetSystemContext(), 12% given up by the caller after "
                     "their changes, with commit actions / pre-commit actions (never run there) right after the constructor, between the operations and "
                     "inside joined Db.Update / Db.Batch calls; 22-25% of all programs do part of their work (0..all operations, registrations, nested "
                     "calls) with a SECOND context NewTxMutateContext(ctx.Context(), ctx.Tx()); in 45% of the Db.Update / Db.Batch histories 70% of the "
                     "transactions (6% elsewhere) have a caller that reuses / changes the entity structs it passes: a struct per operation (2/7), ONE scratch struct "
                     "re-made per create / update (3/7) or re-filled in place - same maps, same list arrays, same tag map - (2/7), half of the scratch-struct "
                     "callers running a loop of 2-3 creates through one store; after the operation returned (70%) or at the end of the function (30%) the caller "
                     "overwrites the id with a never-stored one, replaces the field map's entries, writes through its string pointers, changes the string lists "
                     "in place, changes the tag map in place, flips the system flag, nils maps / lists / tags (10% nothing but the reuse, 30% one of them, 60% each "
                     "with 40%); 50% load the entity with FindById before a delete and change the loaded struct afterwards; asynchronous deliveries "
                     "awaited. Non-trivial: a history with a committed transaction that delivered more than one event; distinct by case text.")
    ks = sorted(set((0, len(cases) // 2, max(0, len(cases) - 1))))
    c.cov["samples"] = [dict(case=cases[k][:1200], impl=impl[k][:1200], model=modl[k][:1200]) for k in ks if k < len(cases)]
    try:
        c.cov["input_distribution"] = json.load(open(os.path.join(c.work, "stats.json")))
    except Exception:
        pass
    if disagreements and not c.violations:
        case, i, m, k, d, idx = disagreements[0]
        c.violation(PID + ":correspondence",
                    "event machine (Store/Events.v) and boltz differ on %d histories; first: tx %d: %s" % (len(disagreements), k, d),
                    dict(correspondence="Store/Events.v run_tx_v / delivered_to vs boltz", case=case, impl=i, model=m, tx=k, difference=d,
                         gen=dict(gen, index=idx)),
                    no_input=True)
    if not proof_ok:
        c.violation(PID + ":proof", "proof obligation no longer checks: %s" % json.dumps(c.proof_broken)[:600],
                    dict(broken=c.proof_broken), no_input=True)
    return c.finish()
