"""C15 - parent and child (extension) stores stay consistent."""
import json

import storefam
import storefamx
import vlib

PID = "C15"
FILES = ["theories/Properties/C15.v", "theories/Examples/C15Examples.v"]


def families(sch):
    """root store -> list of its child stores (only roots that have children)"""
    fam = {}
    for s in sch.order:
        p = sch.stores[s]["parent"]
        if p:
            fam.setdefault(p, []).append(s)
    return fam


def fam_facts(sch, tx):
    fam = families(sch)
    out = []
    for f in tx["facts"]:
        p = f.split(":")
        if p[0] in ("E", "C", "CF", "F", "U", "X", "XK", "JUNK") and (p[0] == "JUNK" or p[1] in fam):
            out.append(f)
        elif p[0] == "S" and p[1] in fam and p[3] in sch.stores[p[1]]["sets"]:
            out.append(f)
    return tuple(out)


def fam_reads(sch, tx):
    fam = families(sch)
    stores = set(fam) | set(c for cs in fam.values() for c in cs)
    out = []
    for t in tx["other"]:
        p = t.split(":")
        if p[1] not in stores:
            continue
        if p[0] in ("Q", "V", "L", "I", "QS"):   # id sets (the property does not order them)
            out.append("%s:%s:%s" % (p[0], p[1], ",".join(sorted(x for x in p[2].split(",") if x))))
        elif p[0] == "LF":
            out.append(t)
    return tuple(sorted(out))


class Compare:
    """needs the schema of the current case; storefamx calls oracle() first for every case"""
    sch = None

    def __call__(self, a, b):
        if storefam.proj_results(a) != storefam.proj_results(b):
            return "results impl %s vs model %s" % (storefam.proj_results(a), storefam.proj_results(b))
        fa, fb = fam_facts(self.sch, a), fam_facts(self.sch, b)
        if fa != fb:
            return "parent/child entity or index facts differ: only impl %s ; only model %s" % (
                sorted(set(fa) - set(fb))[:6], sorted(set(fb) - set(fa))[:6])
        ra, rb = fam_reads(self.sch, a), fam_reads(self.sch, b)
        if ra != rb:
            return "reads through the stores differ: only impl %s ; only model %s" % (
                sorted(set(ra) - set(rb))[:6], sorted(set(rb) - set(ra))[:6])
        return None


compare = Compare()


def view(facts):
    ents, child, fv, cfv, sets = {}, set(), {}, {}, {}
    for f in facts:
        p = f.split(":")
        if p[0] == "E":
            ents.setdefault(p[1], set()).add(p[2])
        elif p[0] == "C":
            child.add((p[1], p[2], p[3]))
        elif p[0] == "F":
            fv[(p[1], p[2], p[3])] = p[4]
        elif p[0] == "CF":
            cfv[(p[1], p[2], p[3], p[4])] = p[5]
        elif p[0] == "S":
            sets.setdefault((p[1], p[2], p[3]), set()).add(p[4])
    return ents, child, fv, cfv, sets


def want_val(tok, ptr):
    if tok == "N":
        return "nil" if ptr else "s-"
    return "s" + tok


def oracle(sch, txs, io, mo):
    compare.sch = sch
    out = []
    fam = families(sch)
    prev_view = view([])
    for k, (t, a) in enumerate(zip(txs, io)):
        _, _, _, ops = storefamx.parse_ops(t)
        ents, child, fv, cfv, sets = view(a["facts"])
        rd, lf = storefamx.reads(a)
        if "panic" in a["results"]:
            out.append(("C15:panic", "the library panicked inside the transaction", k))
            break
        # ---- child-only filtering of queries and lookups (every state)
        for r, cs in fam.items():
            all_ids = sorted(ents.get(r, ()))
            for tag in ("Q", "V", "L", "I", "QS"):
                got = sorted(rd.get(tag, {}).get(r, []))
                if got != all_ids:
                    out.append(("C15:parent-read", "%s through parent store %s returns %s, entities are %s" % (tag, r, got, all_ids), k))
            for c in cs:
                with_data = sorted(i for i in all_ids if (r, i, c) in child)
                ext = sch.stores[c]["ext"]
                for tag in ("Q", "V", "L", "I", "QS"):
                    got = sorted(rd.get(tag, {}).get(c, []))
                    want = all_ids if (ext and tag != "V") else with_data
                    if got != want:
                        out.append(("C15:child-read-%s" % ("extended" if ext else "plain"),
                                    "%s through %s child store %s returns %s, expected %s (ids with child data: %s, parent ids: %s)"
                                    % (tag, "extended" if ext else "plain", c, got, want, with_data, all_ids), k))
                # the child store sees the parent's fields
                for i in rd.get("L", {}).get(c, []):
                    for f, _ in sch.stores[r]["fields"]:
                        raw = fv.get((r, i, f), "absent")
                        raw = raw if raw.startswith("s") else "nil"
                        for st in (c, r):
                            tok = "LF:%s:%s:%s:%s" % (st, i, f, raw)
                            if tok not in lf:
                                got = [x for x in lf if x.startswith("LF:%s:%s:%s:" % (st, i, f))]
                                out.append(("C15:child-load-fields", "LoadById through %s of %s: field %s is %s, stored %s"
                                            % (st, i, f, got, raw), k))
        if out:
            break
        if a["commit"]:
            # ---- parent (and child) indexes mirror the entities, child entities included
            probs = storefam.index_oracle(sch, [f for f in a["facts"] if f.split(":")[0] in ("E", "F", "CF", "C", "S", "U", "X", "XK")
                                                and f.split(":")[1] in fam])
            if probs:
                out.append(("C15:parent-index", "after a committed transaction: " + "; ".join(probs[:3]), k))
            pents, pchild = prev_view[0], prev_view[1]
            for j, op in enumerate(ops):
                if op["kind"] not in ("C", "UP", "D"):
                    continue
                s0 = op["store"]
                r = sch.root(s0)
                if r not in fam:
                    continue
                i = op["id"]
                later = ops[j + 1:]
                touched = any(o.get("id") == i and sch.root(o.get("store", r)) == r for o in later) or any(o["kind"] == "D" for o in later)
                is_child_store = sch.stores[s0]["parent"] is not None
                if op["kind"] == "C" and is_child_store and not touched:
                    if i not in ents.get(r, ()) or (r, i, s0) not in child:
                        out.append(("C15:child-create-not-in-both", "entity %s created through child store %s: parent entity %s, child data %s"
                                    % (i, s0, i in ents.get(r, ()), (r, i, s0) in child), k))
                if op["kind"] == "D" and not touched:
                    had_child = any((r, i, c) in pchild for c in fam[r])
                    earlier = any(o.get("id") == i for o in ops[:j])
                    plain_parent_via_child = is_child_store and (earlier or not had_child)
                    if not plain_parent_via_child:
                        left = [f for f in a["facts"] if f.split(":")[0] in ("E", "C", "CF", "F", "S") and f.split(":")[1] == r and f.split(":")[2] == i]
                        if left:
                            out.append(("C15:delete-left-parts", "after DeleteById of %s through %s: %s remain" % (i, s0, left[:4]), k))
                if op["kind"] in ("C", "UP") and not touched:
                    chk = op.get("checker") if op["kind"] == "UP" else None
                    for f, ptr in sch.stores[r]["fields"]:
                        if (chk is None or f in chk) and f in op["fv"]:
                            want = want_val(op["fv"][f], ptr)
                            got = fv.get((r, i, f), "absent")
                            if got != want:
                                out.append(("C15:shared-field-not-updated", "%s of %s through %s: shared field %s is %s, written %s"
                                            % ("create" if op["kind"] == "C" else "update", i, s0, f, got, want), k))
                    for sf in sch.stores[r]["sets"]:
                        if (chk is None or sf in chk) and sf in op["sv"]:
                            want = set(op["sv"][sf])
                            got = sets.get((r, i, sf), set())
                            if got != want:
                                out.append(("C15:shared-field-not-updated", "%s of %s through %s: shared set %s is %s, written %s"
                                            % ("create" if op["kind"] == "C" else "update", i, s0, sf, sorted(got), sorted(want)), k))
                    # the update of an entity with child data is handled by the child store, whichever store it entered through
                    for c in fam[r]:
                        if (r, i, c) in child and (op["kind"] == "UP" or s0 == c):
                            for f, ptr in sch.stores[c]["fields"]:
                                if (chk is None or f in chk) and f in op["fv"]:
                                    want = want_val(op["fv"][f], ptr)
                                    got = cfv.get((r, i, c, f), "absent")
                                    if got != want:
                                        out.append(("C15:update-not-routed-to-child", "%s of %s through %s: child field %s.%s is %s, written %s"
                                                    % ("create" if op["kind"] == "C" else "update", i, s0, c, f, got, want), k))
        else:
            if a["facts"] != (io[k - 1]["facts"] if k > 0 else []):
                out.append(("C15:rollback-changed-state", "a rolled-back transaction changed the database", k))
        if out:
            break
        prev_view = (ents, child, fv, cfv, sets)
    return out


def nontrivial(sch, txs, io):
    """mixed population (entities with and without child data in one family) and a successful update or delete of
    an entity with child data"""
    fam = families(sch)
    mixed = False
    acted = False
    prev_child = set()
    for t, a in zip(txs, io):
        _, _, _, ops = storefamx.parse_ops(t)
        ents, child, _, _, _ = view(a["facts"])
        for r, cs in fam.items():
            ids = ents.get(r, set())
            w = set(i for i in ids if any((r, i, c) in child for c in cs))
            if w and ids - w:
                mixed = True
        if a["commit"]:
            for op in ops:
                if op["kind"] in ("UP", "D") and any((sch.root(op["store"]), op["id"], c) in prev_child
                                                     for c in fam.get(sch.root(op["store"]), [])):
                    acted = True
        prev_child = child
    return mixed and acted


def main(argv):
    c = vlib.Check(PID, argv)
    c.assumptions = ["bbolt rollback restores the previous content (trusted; observed by the full traversal after every transaction)",
                     "the child store's update mapper (ChildStoreUpdateHandler.Mapper, supplied by the library's user) handles an entity iff "
                     "its child data exists and passes the new values on; the child's entity strategy persists the parent part through "
                     "PersistContext.GetParentContext - the conventions of the library's own test suite and users",
                     "one level of extension (a child store's parent is a root store), unique store names"]
    proof_ok = c.proof_step(FILES)
    storefamx.run_family_x(
        c, "c15", 1500, 20000, compare, oracle,
        "adaptive seeded histories (2-9 transactions x 1-3 ops) over a parent with a plain child store (idx: emp+mgr, parent carries unique, "
        "nullable unique, set, fk indexes and links; the child its own unique index) and a parent with an extended child store (casc: b+bx under "
        "cascade-delete fk indexes): create / full and field-checker update / delete through EITHER store over mixed populations of plain-parent "
        "and child entities. After every transaction the bolt file is traversed and every store is read through QueryIds (unsorted and sorted), "
        "IterateIds, IterateValidIds, FindById and LoadById (field values). Compared with the extracted machine: results, entity / child-data / "
        "field / index facts of the families, all reads. Oracle on the implementation alone: child create exists in both; plain child reads = ids "
        "with child data, extended child reads = all parent ids (IterateValidIds: only those with extension data); the child sees the parent's "
        "fields; shared fields, child fields and the parent's indexes reflect an update through either store; a delete through either store leaves "
        "no part; parent indexes mirror child entities. Non-trivial: mixed population and a committed update/delete of an entity with child data.",
        nontrivial=nontrivial)
    if not proof_ok:
        c.violation(PID + ":proof", "proof obligation no longer checks: %s" % json.dumps(c.proof_broken)[:600],
                    dict(broken=c.proof_broken), no_input=True)
    return c.finish()
